import os
pre='''#define RLBOX_USE_EXCEPTIONS
#define RLBOX_SINGLE_THREADED_INVOCATIONS
#define RLBOX_USE_STATIC_CALLS() rlbox_noop_sandbox_lookup_symbol
#include "rlbox_noop_sandbox.hpp"
#include "rlbox.hpp"
#include <memory>
#include <array>
using namespace rlbox; using SB = rlbox_noop_sandbox;
static int sink_i; template<typename X> void sink(X&&) { sink_i++; }
struct Rec { int a; long b; char c[4]; int* p; int (*fn)(int); };
#define sandbox_fields_reflection_cc_class_Rec(f, g, ...) f(int, a, FIELD_NORMAL, ##__VA_ARGS__) g() f(long, b, FIELD_NORMAL, ##__VA_ARGS__) g() f(char[4], c, FIELD_NORMAL, ##__VA_ARGS__) g() f(int*, p, FIELD_NORMAL, ##__VA_ARGS__) g() f(int (*)(int), fn, FIELD_NORMAL, ##__VA_ARGS__) g()
#define sandbox_fields_reflection_cc_allClasses(f, ...) f(Rec, cc, ##__VA_ARGS__)
rlbox_load_structs_from_library(cc);
enum E1 { EA, EB }; enum class E2 : short { X, Y };
using T = %(T)s;
T lib_echo(T x) { return x; }
int lib_take_rec(Rec r) { return r.a; }
Rec lib_make_rec() { return Rec{}; }
int lib_call(int (*f)(int), int x) { return f(x); }
tainted<int, SB> cb_ok(rlbox_sandbox<SB>&, tainted<int, SB> x) { return x; }
void body(rlbox_sandbox<SB>& sb) {
  %(BODY)s
}
int main() { rlbox_sandbox<SB> sb; sb.create_sandbox(); body(sb); sb.destroy_sandbox(); return 0; }
'''
vals={
 'init_plain':'tainted<T, SB> t = T(); sink(t);',
 'assign_plain':'tainted<T, SB> t; t = T(); sink(t);',
 'copy':'tainted<T, SB> a = T(); tainted<T, SB> b = a; b = a; sink(b);',
 'const_obj':'const tainted<T, SB> a = T(); tainted<T, SB> b = a; sink(b); sink(a.UNSAFE_unverified());',
 'cav':'tainted<T, SB> a = T(); auto v = a.copy_and_verify([](T x) { return x; }); sink(v);',
 'usafe':'tainted<T, SB> a = T(); auto v = a.unverified_safe_because("x"); sink(v);',
 'opaque':'tainted<T, SB> a = T(); auto o = a.to_opaque(); tainted<T, SB> b = from_opaque(o); sink(b);',
 'eq':'tainted<T, SB> a = T(); sink(a == T()); sink(a != a);',
 'rel':'tainted<T, SB> a = T(); sink(a < T()); sink(a >= a);',
 'add':'tainted<T, SB> a = T(); sink(a + T()); sink(a - a);',
 'mul':'tainted<T, SB> a = T(); sink(a * T()); sink(a / T(1));',
 'bit':'tainted<T, SB> a = T(); sink(a & T()); sink(a | a); sink(a ^ a); sink(~a);',
 'shift':'tainted<T, SB> a = T(); sink(a << 1); sink(a >> 1);',
 'compound':'tainted<T, SB> a = T(); a += T(1); a -= T(1); sink(a);',
 'incdec':'tainted<T, SB> a = T(); ++a; a++; --a; a--; sink(a);',
 'neg':'tainted<T, SB> a = T(); sink(-a);',
 'invoke':'tainted<T, SB> a = T(); auto r = sb.invoke_sandbox_function(lib_echo, a); sink(r); auto r2 = sb.invoke_sandbox_function(lib_echo, T()); sink(r2);',
 'cell':'auto p = sb.malloc_in_sandbox<T>(2); *p = T(); tainted<T, SB> b = *p; p[1] = b; sink(b); sb.free_in_sandbox(p);',
 'cell_ops':'auto p = sb.malloc_in_sandbox<T>(2); *p = T(); sink(*p == T()); sink(*p + T()); *p += T(1); ++(*p); sb.free_in_sandbox(p);',
 'cell_cav':'auto p = sb.malloc_in_sandbox<T>(2); *p = T(); auto v = (*p).copy_and_verify([](T x) { return x; }); sink(v); auto w = p->UNSAFE_unverified(); sink(w); sb.free_in_sandbox(p);',
 'static_cast_long':'tainted<T, SB> a = T(); auto b = sandbox_static_cast<long>(a); sink(b);',
 'arr':'tainted<T[4], SB> a; a[0] = T(); tainted<T, SB> b = a[1]; sink(b); auto c = a; sink(c[2]);',
 'arr_cav':'tainted<T[4], SB> a; a[0] = T(); auto v = a.copy_and_verify([](std::array<T, 4> x) { return x[0]; }); sink(v);',
 'arr_cell':'auto p = sb.malloc_in_sandbox<T[4]>(1); (*p)[0] = T(); tainted<T[4], SB> a = *p; *p = a; sink(a[0]); auto v = (*p).copy_and_verify([](std::array<T, 4> x) { return x[0]; }); sink(v); sb.free_in_sandbox(p);',
 'arr2':'tainted<T[2][3], SB> a; a[1][2] = T(); sink(a[0][0]);',
 'range':'auto p = sb.malloc_in_sandbox<T>(4); auto v = p.copy_and_verify_range([](std::unique_ptr<T[]> x) { return x ? x[0] : T(); }, 4); sink(v); sb.free_in_sandbox(p);',
 'grant':'T buf[4] = {}; bool c = false; auto t = copy_memory_or_grant_access(sb, buf, 4, false, c); sink(t); bool c2 = false; auto q = copy_memory_or_deny_access(sb, t, 4, false, c2); sink(q);',
 'memset':'auto p = sb.malloc_in_sandbox<T>(4); rlbox::memset(sb, p, 0, 4 * sizeof(T)); T buf[4] = {}; rlbox::memcpy(sb, p, buf, sizeof buf); sink(rlbox::memcmp(sb, p, buf, sizeof buf)); sb.free_in_sandbox(p);',
}
misc={
 'struct_field':'auto p = sb.malloc_in_sandbox<Rec>(1); p->a = 3; tainted<int, SB> x = p->a; p->b = 4; p->c[1] = 5; sink(x); sb.free_in_sandbox(p);',
 'struct_whole':'auto p = sb.malloc_in_sandbox<Rec>(2); tainted<Rec, SB> r = *p; p[1] = r; *p = r; sink(r.a); sb.free_in_sandbox(p);',
 'struct_cav':'auto p = sb.malloc_in_sandbox<Rec>(1); auto v = p.copy_and_verify([](std::unique_ptr<tainted<Rec, SB>> x) { return x ? 1 : 0; }); sink(v); sb.free_in_sandbox(p);',
 'struct_arg':'tainted<Rec, SB> r{}; auto v = sb.invoke_sandbox_function(lib_take_rec, r); sink(v); auto m = sb.invoke_sandbox_function(lib_make_rec); sink(m.a);',
 'struct_ptr_field':'auto p = sb.malloc_in_sandbox<Rec>(1); auto q = sb.malloc_in_sandbox<int>(1); p->p = q; tainted<int*, SB> b = p->p; p->p = nullptr; sink(b); sb.free_in_sandbox(p);',
 'struct_fn_field':'auto p = sb.malloc_in_sandbox<Rec>(1); auto cb = sb.register_callback(cb_ok); p->fn = cb; p->fn = nullptr; sb.free_in_sandbox(p);',
 'struct_addr':'auto p = sb.malloc_in_sandbox<Rec>(2); auto q = &p->a; auto r = &p[1]; auto s = &(p->c[2]); sink(q); sink(r); sink(s); sb.free_in_sandbox(p);',
 'struct_unverified':'auto p = sb.malloc_in_sandbox<Rec>(1); Rec r = (*p).UNSAFE_unverified(); Rec* rp = p.UNSAFE_unverified(); sink(r.a); sink(rp); sb.free_in_sandbox(p);',
 'struct_opaque':'tainted<Rec, SB> r{}; auto o = r.to_opaque(); tainted<Rec, SB> b = from_opaque(o); sink(b.a);',
 'callback_reg':'auto cb = sb.register_callback(cb_ok); auto v = sb.invoke_sandbox_function(lib_call, cb, 3); sink(v); cb.unregister(); sandbox_callback<int (*)(int), SB> e; e = std::move(cb); sink(e.is_unregistered());',
 'fn_addr':'auto fa = sandbox_function_address(sb, lib_echo); sink(fa); auto p = sb.malloc_in_sandbox<T (*)(T)>(1); *p = fa; sb.free_in_sandbox(p);',
 'app_pointer':'static int obj; auto ap = sb.get_app_pointer(&obj); auto t = ap.to_tainted(); int* back = sb.lookup_app_ptr(t); sink(back); ap.unregister();',
 'ptr_ptr':'auto pp = sb.malloc_in_sandbox<int*>(2); auto q = sb.malloc_in_sandbox<int>(1); *pp = q; pp[1] = nullptr; tainted<int*, SB> b = *pp; **pp = 3; sink(b); sb.free_in_sandbox(pp);',
 'string':'auto p = sb.malloc_in_sandbox<char>(8); auto s = p.copy_and_verify_string([](std::unique_ptr<char[]> x) { return x ? 1 : 0; }); sink(s); auto s2 = p.copy_and_verify_string([](std::string x) { return x.size(); }); sink(s2); sb.free_in_sandbox(p);',
 'hints':'auto p = sb.malloc_in_sandbox<int>(2); auto h = (*p == 3); if (h.unverified_safe_because("x")) sink(1); bool b = h.UNSAFE_unverified(); sink(b); auto h2 = !h; sink(h2.UNSAFE_unverified()); sb.free_in_sandbox(p);',
 'enum1':'tainted<E1, SB> e = EA; auto p = sb.malloc_in_sandbox<E1>(1); *p = e; tainted<E1, SB> b = *p; sink(b == EB); sb.free_in_sandbox(p);',
 'enum2':'tainted<E2, SB> e = E2::X; auto p = sb.malloc_in_sandbox<E2>(1); *p = e; tainted<E2, SB> b = *p; sink(b == E2::Y); sb.free_in_sandbox(p);',
 'bool_ops':'tainted<bool, SB> a = true; sink(!a); sink(a && true); sink(a || false); auto p = sb.malloc_in_sandbox<bool>(1); *p = a; sink(!*p); sb.free_in_sandbox(p);',
 'accept_pointer':'auto p = sb.malloc_in_sandbox<int>(1); int* raw = p.UNSAFE_unverified(); auto t = sb.UNSAFE_accept_pointer(raw); tainted<int*, SB> u; u.assign_raw_pointer(sb, raw); sink(t); sink(u); sb.free_in_sandbox(p);',
 'unreg_struct':'struct U { int a; char b; }; auto p = sb.malloc_in_sandbox<U>(2); auto q = sandbox_reinterpret_cast<char*>(p); sink(q); U* raw = p.UNSAFE_unverified(); sink(raw); sb.free_in_sandbox(p);',
 'void_ptr':'auto p = sb.malloc_in_sandbox<int>(1); tainted<void*, SB> v = sandbox_reinterpret_cast<void*>(p); auto b = sandbox_static_cast<int*>(v); sink(b); void* raw = v.UNSAFE_unverified(); sink(raw); sb.free_in_sandbox(p);',
 'transition_times':'sink(sb.get_memory_location()); sink(sb.get_total_memory()); sink(sb.is_pointer_in_sandbox_memory(nullptr));',
}
n=0
for T in ['bool','char','signed char','unsigned char','short','unsigned short','int','unsigned int','long','unsigned long','long long','unsigned long long','float','double','char16_t','char32_t','wchar_t','E1','E2']:
  for name,b in vals.items():
    src=pre%dict(T=T,BODY=b)
    open('v_%s_%s.cpp'%(T.replace(' ','_'),name),'w').write(src); n+=1
for name,b in misc.items():
    open('m_%s.cpp'%name,'w').write(pre%dict(T='int',BODY=b)); n+=1
print(n)
