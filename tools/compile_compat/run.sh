#!/bin/bash
# usage: tools/compile_compat/run.sh [repo-dir]
# A corpus of 1318 small client programs on the noop backend: gen.py -- six pointee types x four cv-qualifications x 32 API
# operations on a tainted pointer; gen2.py -- 19 value types x 28 operations on tainted values, cells and arrays, plus 22
# programs over registered structs, callbacks, app pointers, strings, hints, enums.  compiled_on_pinned_tree.txt lists those that compiled with the headers of the pinned snapshot (95f9911).
# Every one of them has to compile with today's headers too: a repair must not make a program of the pinned tree stop
# compiling.  Prints the programs that were lost; exit 1 if there are any.  (Not a registered check: no property is decided
# here -- a guard for the repairs, run before each merge into /repo.)
HERE=$(dirname "$(realpath "$0")")
REPO=${1:-/repo}
D=$(mktemp -d /tmp/compile_compat.XXXXXX)
trap 'rm -rf "$D"' EXIT
cd "$D" && python3 "$HERE/gen.py" >/dev/null && python3 "$HERE/gen2.py" >/dev/null && python3 "$HERE/gen3.py" >/dev/null
out=$(xargs -a "$HERE/compiled_on_pinned_tree.txt" -P 16 -I{} sh -c "g++ -std=c++17 -fsyntax-only -w -I'$REPO/code/include' {} >/dev/null 2>&1 || echo 'LOST {}'")
n=$(wc -l < "$HERE/compiled_on_pinned_tree.txt")
if [ -n "$out" ]; then echo "$out"; echo "programs of the pinned tree that no longer compile with $REPO: $(echo "$out" | wc -l) of $n"; exit 1; fi
echo "all $n programs of the pinned tree still compile with $REPO"
