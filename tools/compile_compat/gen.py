import itertools,os
pre='''#define RLBOX_USE_EXCEPTIONS
#define RLBOX_SINGLE_THREADED_INVOCATIONS
#define RLBOX_USE_STATIC_CALLS() rlbox_noop_sandbox_lookup_symbol
#include "rlbox_noop_sandbox.hpp"
#include "rlbox.hpp"
#include <memory>
using namespace rlbox; using SB = rlbox_noop_sandbox;
static int sink_i; template<typename X> void sink(X&&) { sink_i++; }
int lib_fn(%(PT)s p) { return p != nullptr; }
void body(rlbox_sandbox<SB>& sb) {
  using T = %(T)s; using CT = %(CV)s %(T)s; using PT = CT*;
  auto raw = sb.malloc_in_sandbox<T>(4);
  tainted<PT, SB> p = sandbox_reinterpret_cast<PT>(raw);
  %(BODY)s
}
int main() { rlbox_sandbox<SB> sb; sb.create_sandbox(); body(sb); sb.destroy_sandbox(); return 0; }
'''
bodies={
 'deref_load':'tainted<T, SB> t = *p; sink(t);',
 'index_load':'tainted<T, SB> t = p[1]; sink(t);',
 'arrow_unverified':'auto v = p->UNSAFE_unverified(); sink(v);',
 'plus':'auto q = p + 1; sink(q);',
 'minus':'auto q = (p + 2) - 1; sink(q);',
 'inc':'auto q = p; ++q; q++; sink(q);',
 'cmp_null':'if (p == nullptr) sink(1); if (p != nullptr) sink(2);',
 'not':'if (!p) sink(1);',
 'cav_ptr':'auto v = p.copy_and_verify([](std::unique_ptr<T> x) { return x ? *x : T(); }); sink(v);',
 'cav_range':'auto v = p.copy_and_verify_range([](std::unique_ptr<T[]> x) { return x ? x[0] : T(); }, 2); sink(v);',
 'cav_address':'auto v = p.copy_and_verify_address([](uintptr_t a) { return a; }); sink(v);',
 'cav_buffer_address':'auto v = p.copy_and_verify_buffer_address([](uintptr_t a) { return a; }, 2); sink(v);',
 'usp':'auto v = p.unverified_safe_pointer_because(2, "x"); sink(v);',
 'unverified':'auto v = p.UNSAFE_unverified(); sink(v);',
 'sandboxed':'auto v = p.UNSAFE_sandboxed(sb); sink(v);',
 'reinterpret_to_char':'auto q = sandbox_reinterpret_cast<%(CV)s char*>(p); sink(q);',
 'static_to_void':'auto q = sandbox_static_cast<%(CV)s void*>(p); sink(q);',
 'static_same':'auto q = sandbox_static_cast<PT>(p); sink(q);',
 'const_cast_strip':'auto q = sandbox_const_cast<T*>(p); sink(q);',
 'opaque_rt':'auto o = p.to_opaque(); tainted<PT, SB> b = from_opaque(o); sink(b);',
 'deref_copy_and_verify':'auto v = (*p).copy_and_verify([](T x) { return x; }); sink(v);',
 'addr_of_deref':'auto q = &(*p); sink(q);',
 'addr_of_index':'auto q = &p[1]; sink(q);',
 'invoke_arg':'auto r = sb.invoke_sandbox_function(lib_fn, p); sink(r);',
 'assign_null':'p = nullptr; sink(p);',
 'free':'sb.free_in_sandbox(p);',
 'cell_store':'auto pp = sb.malloc_in_sandbox<PT>(1); *pp = p; tainted<PT, SB> b = *pp; sink(b);',
 'memcmp_src':'auto h = rlbox::memcmp(sb, raw, p, 4u); sink(h);',
 'memcpy_src':'rlbox::memcpy(sb, raw, p, 4u);',
 'deref_store':'*p = T(); p[1] = T();',
 'compound':'*p += T(1); ++(*p);',
 'memset_dest':'rlbox::memset(sb, p, 0, 4u);',
}
n=0
for T in ['int','long','char','double','bool','short']:
  for CV in ['','const','volatile','const volatile']:
    for name,b in bodies.items():
      if name in ('compound',) and T in ('bool',): continue
      src=pre%dict(T=T,CV=CV,PT=(CV+' '+T+'*').strip(),BODY=b%dict(CV=CV))
      fn='p_%s_%s_%s.cpp'%(T,CV.replace(' ','')or 'plain',name)
      open(fn,'w').write(src); n+=1
print(n)
