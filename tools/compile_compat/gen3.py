# third family: unusual ELEMENT types through the allocation / pointer API - unions, arrays of described and undescribed
# structs, nested arrays, arrays of pointers / enums, void, function pointers, nullptr_t, pointer-to-member
import os
pre='''#define RLBOX_USE_EXCEPTIONS
#define RLBOX_SINGLE_THREADED_INVOCATIONS
#define RLBOX_USE_STATIC_CALLS() rlbox_noop_sandbox_lookup_symbol
#include "rlbox_noop_sandbox.hpp"
#include "rlbox.hpp"
#include <memory>
#include <array>
#include <cstddef>
using namespace rlbox; using SB = rlbox_noop_sandbox;
static int sink_i; template<typename X> void sink(X&&) { sink_i++; }
struct Rec { int a; long b; char c[4]; int* p; int (*fn)(int); };
#define sandbox_fields_reflection_cc_class_Rec(f, g, ...) f(int, a, FIELD_NORMAL, ##__VA_ARGS__) g() f(long, b, FIELD_NORMAL, ##__VA_ARGS__) g() f(char[4], c, FIELD_NORMAL, ##__VA_ARGS__) g() f(int*, p, FIELD_NORMAL, ##__VA_ARGS__) g() f(int (*)(int), fn, FIELD_NORMAL, ##__VA_ARGS__) g()
#define sandbox_fields_reflection_cc_allClasses(f, ...) f(Rec, cc, ##__VA_ARGS__)
rlbox_load_structs_from_library(cc);
enum E1 { EA, EB }; enum class E2 : short { X, Y };
union U { int i; float f; char c[8]; };
struct Und { int a; char b; };      // never described to RLBox
struct Und2 { Und u[2]; double d; };
struct WithMember { int m; };
using T = %(T)s;
void body(rlbox_sandbox<SB>& sb) {
  %(BODY)s
}
int main() { rlbox_sandbox<SB> sb; sb.create_sandbox(); body(sb); sb.destroy_sandbox(); return 0; }
'''
types={
 'union':'U', 'union_arr':'U[2]', 'rec_arr':'Rec[3]', 'rec_arr2':'Rec[2][2]', 'und':'Und', 'und_arr':'Und[3]', 'und2':'Und2',
 'int_arr':'int[4]', 'int_arr2':'int[2][3]', 'long_arr':'long[3]', 'ptr_arr':'int*[3]', 'fnptr':'int (*)(int)', 'fnptr_arr':'int (*[2])(int)',
 'enum_arr':'E1[3]', 'enum2_arr':'E2[2]', 'bool_arr':'bool[4]', 'void':'void', 'nullptr_t':'std::nullptr_t', 'memptr':'int WithMember::*',
 'ptrptr':'int**', 'constint':'const int', 'char_arr':'char[16]', 'wchar_arr':'wchar_t[4]', 'double_arr':'double[2]', 'voidp':'void*',
}
ops={
 'malloc0':'auto p = sb.malloc_in_sandbox<T>(); sink(p); sb.free_in_sandbox(p);',
 'malloc_n':'auto p = sb.malloc_in_sandbox<T>(3); sink(p); sb.free_in_sandbox(p);',
 'malloc_opaque_free':'auto p = sb.malloc_in_sandbox<T>(2); auto o = p.to_opaque(); sb.free_in_sandbox(o);',
 'usp':'auto p = sb.malloc_in_sandbox<T>(2); auto r = p.unverified_safe_pointer_because(2, "x"); sink(r); sb.free_in_sandbox(p);',
 'cav_address':'auto p = sb.malloc_in_sandbox<T>(2); auto r = p.copy_and_verify_address([](uintptr_t a) { return a; }); sink(r); sb.free_in_sandbox(p);',
 'cav_buffer_address':'auto p = sb.malloc_in_sandbox<T>(2); auto r = p.copy_and_verify_buffer_address([](uintptr_t a) { return a; }, 2); sink(r); sb.free_in_sandbox(p);',
 'cav_ptr':'auto p = sb.malloc_in_sandbox<T>(2); auto r = p.copy_and_verify([](std::unique_ptr<T> x) { return x ? 1 : 0; }); sink(r); sb.free_in_sandbox(p);',
 'cav_range':'auto p = sb.malloc_in_sandbox<T>(2); auto r = p.copy_and_verify_range([](std::unique_ptr<T[]> x) { return x ? 1 : 0; }, 2); sink(r); sb.free_in_sandbox(p);',
 'plus':'auto p = sb.malloc_in_sandbox<T>(3); auto q = p + 1; auto r = &p[1]; sink(q); sink(r); ++q; sb.free_in_sandbox(p);',
 'unverified':'auto p = sb.malloc_in_sandbox<T>(2); auto r = p.UNSAFE_unverified(); auto s = p.UNSAFE_sandboxed(sb); sink(r); sink(s); sb.free_in_sandbox(p);',
 'reinterpret':'auto p = sb.malloc_in_sandbox<T>(2); auto q = sandbox_reinterpret_cast<char*>(p); auto b = sandbox_reinterpret_cast<T*>(q); sink(b); sb.free_in_sandbox(p);',
 'memset':'auto p = sb.malloc_in_sandbox<T>(2); rlbox::memset(sb, p, 0, 4); auto q = sb.malloc_in_sandbox<T>(2); rlbox::memcpy(sb, q, p, 4); sink(rlbox::memcmp(sb, q, p, 4)); sb.free_in_sandbox(p); sb.free_in_sandbox(q);',
 'cell_load':'auto p = sb.malloc_in_sandbox<T>(2); tainted<T, SB> v = *p; *p = v; sink(v); sb.free_in_sandbox(p);',
 'ptr_cell':'auto pp = sb.malloc_in_sandbox<T*>(2); auto p = sb.malloc_in_sandbox<T>(1); *pp = p; tainted<T*, SB> b = *pp; pp[1] = nullptr; sink(b); sb.free_in_sandbox(*pp); sb.free_in_sandbox(pp);',
 'accept':'auto p = sb.malloc_in_sandbox<T>(1); T* raw = p.UNSAFE_unverified(); auto t = sb.UNSAFE_accept_pointer(raw); tainted<T*, SB> u; u.assign_raw_pointer(sb, raw); sink(t); sink(u); sb.free_in_sandbox(p);',
 'null_cmp':'tainted<T*, SB> p = nullptr; if (p == nullptr) sink(1); if (!p) sink(2); tainted<T*, SB> q = p; sink(q != nullptr);',
 'grant':'auto p = sb.malloc_in_sandbox<T>(2); bool c = false; auto q = copy_memory_or_deny_access(sb, p, 2, false, c); sink(q); bool c2 = false; auto t = copy_memory_or_grant_access(sb, q, 2, false, c2); sink(t);',
 'invoke_ptr':'auto p = sb.malloc_in_sandbox<T>(1); auto r = sb.INTERNAL_invoke_with_func_ptr<int(T*)>("f", reinterpret_cast<void*>(+[](T* x) { return x ? 1 : 0; }), p); sink(r); sb.free_in_sandbox(p);',
}
n=0
for tn,t in types.items():
  for on,b in ops.items():
    open('a_%s_%s.cpp'%(tn,on),'w').write(pre%dict(T=t,BODY=b)); n+=1
print(n)
