#!/bin/bash
# usage: tools/confirm_batch.sh name:check[,check] ...   (candidates in /tmp/seedout/<name>/{patch.diff,demo.cpp,notes.md})
# Wraps tools/confirm_seeded.py for a batch of sub-agent mutants: suite still green with the patch, demo fails with / passes
# without it, and which of the named checks report a violation.  Stores confirmed ones under seeded/<name>/.  DEMO_OPT=-O0 for
# demos that need another optimisation level than -O1.
cd "$(dirname "$0")/.."
for spec in "$@"; do
  n=${spec%%:*}; cs=${spec#*:}
  needs=$(grep -i -m1 -A3 "needs to manifest\|What it needs\|needed for it to manifest" /tmp/seedout/$n/notes.md | tail -3 | tr '\n' ' ' | cut -c1-300)
  python3 tools/confirm_seeded.py $n /tmp/seedout/$n/patch.diff /tmp/seedout/$n/demo.cpp /tmp/seedout/$n/notes.md "$needs" ${cs//,/ } 2>&1 | tail -6 | cut -c1-260
  echo "=== $n done"
done
