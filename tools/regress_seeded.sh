#!/bin/bash
# usage: tools/regress_seeded.sh [names...]  -- every stored seeded change against the first check recorded as detecting it
cd "$(dirname "$0")/.."
rc=0
for d in ${@:-$(ls seeded)}; do
  id=$(python3 -c "import json;m=json.load(open('seeded/$d/meta.json'));print((m.get('detected_by') or ['?'])[0])")
  [ "$id" = "?" ] && { echo "$d: no detecting check recorded"; rc=1; continue; }
  if python3 -c "import json,sys;sys.exit(0 if json.load(open('seeded/$d/meta.json')).get('superseded_by_fix') else 1)"; then echo "$d: skipped (superseded by a later fix)"; continue; fi
  out=$(tools/try_mutant.sh seeded/$d/patch.diff $id 2>/dev/null)
  if echo "$out" | grep -q "^VIOLATION"; then echo "$d: $id VIOLATION $(echo "$out" | grep '^VIOLATION' | head -1 | sed 's/.*key=//' | cut -c1-90)"
  else echo "$d: $id MISSED ($(echo "$out" | grep -E '^(HELD|INCONCLUSIVE|PATCH)' | head -1 | cut -c1-60))"; rc=1; fi
done
exit $rc
