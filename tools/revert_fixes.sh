#!/bin/bash
# usage: tools/revert_fixes.sh [commit...]
# For every repair recorded as "fixed" in known_findings.json: undo that one commit on a scratch worktree of /repo's HEAD
# (git revert -n) and run the checks of the properties it is recorded under.  A fixed entry suppresses nothing, so the
# violation must come back (VIOLATION, exit 1).  Commits that do not revert cleanly on today's tree are reported as such.
cd "$(dirname "$0")/.."
commits=${@:-$(python3 -c "
import json
seen=[]
for f in json.load(open('known_findings.json'))['findings']:
    c=f.get('commit')
    if f.get('status')=='fixed' and c and c not in seen: seen.append(c)
print(' '.join(seen))")}
# repairs whose effect a later repair repeats, so that undoing the earlier one alone changes nothing observable
SUPERSEDED="4576b50:278d850"
rc=0
for c in $commits; do
  props=$(python3 -c "
import json
print(' '.join(sorted({f['property'] for f in json.load(open('known_findings.json'))['findings'] if f.get('commit')=='$c'})))")
  WT=/tmp/wt/rv.$$
  mkdir -p /tmp/wt
  git -C /repo worktree add --detach "$WT" HEAD >/dev/null 2>&1 || { echo "$c: cannot create worktree"; rc=2; continue; }
  if ! git -C "$WT" revert -n "$c" >/dev/null 2>&1; then
    echo "$c: does not revert cleanly on HEAD (later repairs build on it) [$props]"
  else
    hit=""
    for id in $props; do
      out=$(VERIF_REPO="$WT" VERIF_EVIDENCE_DIR=/tmp/mutant_evidence ./check "$id" 2>/dev/null | grep -E "^(VIOLATION|HELD|INCONCLUSIVE)")
      if echo "$out" | grep -q "^VIOLATION"; then hit="$hit $id:VIOLATION($(echo "$out" | grep -c '^VIOLATION'))"; else hit="$hit $id:$(echo "$out" | head -1 | cut -d' ' -f1)"; fi
    done
    if echo "$hit" | grep -q VIOLATION; then echo "$c: reverted ->$hit"
    elif echo " $SUPERSEDED " | grep -q " $c:"; then echo "$c: reverted -> no alarm, as expected: $(echo " $SUPERSEDED " | sed "s/.* $c:\([^ ]*\) .*/\1/") covers the same inputs since ($hit )"
    elif echo "$hit" | grep -q INCONCLUSIVE; then echo "$c: reverted -> the tree without it does not build or cannot be judged (later repairs use what it introduced):$hit"
    else echo "$c: reverted -> NOT DETECTED$hit"; rc=1; fi
  fi
  git -C /repo worktree remove --force "$WT" >/dev/null 2>&1
done
exit $rc
