#!/bin/bash
# usage: tools/soak.sh "<ids>" "<seeds>" [tier]  -- runs checks, prints one line each, non-zero exit if any alarm
IDS=${1:-"C01 C02 C03 C04 C05 C06 C07 C08 C09 C10 C11 C12 C13 C14 C15 C16 C17 C18 C19 C20"}
SEEDS=${2:-"1 2 3"}
TIER=${3:-quick}
cd "$(dirname "$0")/.."
rc=0
for sd in $SEEDS; do for id in $IDS; do
  out=$(VERIF_SEED=$sd ./check $id --tier $TIER 2>/tmp/soak.err | grep -E "^(VIOLATION|HELD|INCONCLUSIVE)" | head -3 | cut -c1-160)
  echo "seed=$sd $out"
  case "$out" in *VIOLATION*|*INCONCLUSIVE*) rc=1; tail -5 /tmp/soak.err;; esac
done; done
exit $rc
