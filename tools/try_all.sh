#!/bin/bash
# usage: tools/try_all.sh <patch.diff> [ids...]   -- which checks report a violation for this patch (quick tier)
P=$1; shift
IDS=${@:-"C01 C02 C03 C04 C05 C06 C07 C08 C09 C10 C11 C12 C13 C14 C15 C16 C17 C18 C19 C20"}
cd "$(dirname "$0")/.."
for id in $IDS; do
  out=$(tools/try_mutant.sh "$P" $id 2>/dev/null)
  v=$(echo "$out" | grep -c "^VIOLATION")
  first=$(echo "$out" | grep "^VIOLATION" | head -1 | sed 's/.*key=//' | cut -c1-110)
  st=$(echo "$out" | grep -E "^(HELD|INCONCLUSIVE|PATCH)" | head -1 | cut -c1-40)
  echo "$id violations=$v $first $st"
done
