#!/usr/bin/env python3
"""Confirms a sub-agent mutant and stores it under /verif/seeded/<name>/.

usage: tools/confirm_seeded.py <name> <patch> <demo.cpp> <notes.md> <needs-text> <check ids...>

Steps (all in a scratch worktree of /repo HEAD under /tmp/wt/confirm, removed by the caller when done):
  1. patch applies; the library's own test-suite builds and all 71 tests pass WITH the patch
  2. the demonstration exits non-zero with the patch and zero without it
  3. each named check is run against a scratch worktree with the patch applied (tools/try_mutant.sh, VERIF_REPO); its verdict lines are recorded
"""
import json, os, shutil, subprocess, sys

VERIF = os.path.dirname(os.path.dirname(os.path.abspath(__file__)))
WT = "/tmp/wt/confirm"


def sh(cmd, **kw):
    return subprocess.run(cmd, shell=True, stdout=subprocess.PIPE, stderr=subprocess.STDOUT, text=True, **kw)


def main():
    name, patch, demo, notes, needs = sys.argv[1:6]
    checks = sys.argv[6:]
    patch = os.path.abspath(patch)
    if not os.path.isdir(WT):
        r = sh("git -C /repo worktree add --detach %s HEAD" % WT)
        assert r.returncode == 0, r.stdout
        r = sh("cd %s && cmake -G Ninja -B _build -S . -DCMAKE_BUILD_TYPE=RelWithDebInfo >/dev/null && cmake --build _build -j16 >/dev/null" % WT)
        assert r.returncode == 0, r.stdout
    sh("git -C %s checkout -- ." % WT)
    head = sh("git -C /repo log --format=%h -1").stdout.strip()
    sh("git -C %s checkout -q --detach %s" % (WT, head))
    meta = {"name": name, "breaks_property": checks[0] if checks else "?", "needs_to_manifest": needs, "confirmed_against_repo_commit": head, "ran": []}
    r = sh("git -C %s apply %s" % (WT, patch))
    if r.returncode != 0:
        print("PATCH DOES NOT APPLY", r.stdout)
        return 1
    r = sh("cd %s && cmake --build _build -j16 2>&1 | tail -3 && ctest --test-dir _build -j8 2>&1 | grep 'tests passed'" % WT)
    meta["ran"].append({"cmd": "cmake --build _build && ctest (with patch)", "result": r.stdout.strip().split("\n")[-1]})
    suite_ok = "100% tests passed, 0 tests failed out of 71" in r.stdout
    exe = "/tmp/wt/confirm_demo"
    os.makedirs("/tmp/wt/confirm_demo_dir", exist_ok=True)
    pre = ""
    if "DEMO_LIB" in open(demo).read():
        # demonstrations that build two tiny shared libraries from the same file and load them from the working directory
        pre = ("g++ -std=c++17 -shared -fPIC -DDEMO_LIB=1 %s -o /tmp/wt/confirm_demo_dir/libdemo_one.so && "
               "g++ -std=c++17 -shared -fPIC -DDEMO_LIB=2 %s -o /tmp/wt/confirm_demo_dir/libdemo_two.so && " % (demo, demo))
    cc = pre + "g++ -std=c++17 " + os.environ.get("DEMO_OPT", "-O1") + " -g -pthread -rdynamic -I%s/code/include -I%s/code/tests/rlbox %s -o %s -ldl" % (WT, WT, demo, exe)
    r = sh(cc + " 2>&1 | tail -5")
    r1 = sh("cd /tmp/wt/confirm_demo_dir && timeout 300 %s >/dev/null 2>&1; echo $?" % exe)
    with_rc = r1.stdout.strip().split("\n")[-1]
    meta["ran"].append({"cmd": "demo built and run WITH the patch", "result": "exit " + with_rc})
    sh("git -C %s checkout -- ." % WT)
    r = sh(cc + " 2>&1 | tail -5")
    r2 = sh("cd /tmp/wt/confirm_demo_dir && timeout 300 %s >/dev/null 2>&1; echo $?" % exe)
    without_rc = r2.stdout.strip().split("\n")[-1]
    meta["ran"].append({"cmd": "demo built and run WITHOUT the patch", "result": "exit " + without_rc})
    demo_ok = with_rc != "0" and without_rc == "0"
    # our checks against /repo + patch
    caught_by = {}
    for cid in checks:
        r = sh("cd %s && tools/try_mutant.sh %s %s" % (VERIF, patch, cid))
        lines = [l for l in r.stdout.split("\n") if l.startswith(("VIOLATION", "HELD", "INCONCLUSIVE", "PATCH", "exit="))]
        keys = sorted(set(l.split("key=")[1].strip() for l in lines if "key=" in l))
        verdict = "VIOLATION" if any(l.startswith("VIOLATION") for l in lines) else ("HELD" if any(l.startswith("HELD") for l in lines) else "OTHER")
        caught_by[cid] = {"verdict": verdict, "violation_keys": keys[:8], "n_keys": len(keys)}
        meta["ran"].append({"cmd": "VERIF_REPO=<scratch worktree with the patch> ./check %s --tier quick" % cid, "result": verdict + (" " + keys[0] if keys else "")})
    meta["suite_passes_with_patch"] = suite_ok
    meta["demo_fails_with_and_passes_without"] = demo_ok
    meta["checks"] = caught_by
    meta["detected_by"] = [c for c, v in caught_by.items() if v["verdict"] == "VIOLATION"]
    d = os.path.join(VERIF, "seeded", name)
    os.makedirs(d, exist_ok=True)
    shutil.copy(patch, os.path.join(d, "patch.diff"))
    shutil.copy(demo, os.path.join(d, "demo.cpp"))
    if os.path.exists(notes):
        shutil.copy(notes, os.path.join(d, "notes.md"))
    json.dump(meta, open(os.path.join(d, "meta.json"), "w"), indent=1)
    print(name, "suite_ok=%s demo_ok=%s (with=%s without=%s) detected_by=%s" % (suite_ok, demo_ok, with_rc, without_rc, meta["detected_by"]))
    return 0 if (suite_ok and demo_ok) else 2


if __name__ == "__main__":
    sys.exit(main())
