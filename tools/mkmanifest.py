#!/usr/bin/env python3
"""Regenerates /verif/MANIFEST.json from the table below (keeps it schema-valid)."""
import json, os, sys

VERIF = os.path.dirname(os.path.dirname(os.path.abspath(__file__)))
props = [json.loads(l) for l in open(os.path.join(VERIF, "properties.jsonl"))]

TRUST = ("Trusted base: the harness (model backend rlbox_vsbx_sandbox.hpp, mon.hpp, reference arithmetic in ref.hpp, the driver), "
         "gcc 12/clang 14 and their sanitizer runtimes. Decides only the executions produced; sampled unless an exhaustive sub-space is named.")

# id -> (technique, level text, design_ref, extra note)
CLAIMED = {
    "C06": ("runtime monitoring: exhaustive/sampled value sweeps of the real conversion code against a 128-bit integer reference oracle (flag-mode abort capture), plus monitored store/load/invoke/callback/array paths (arrays incl. bool elements) on three foreign-ABI model backends under ASan+UBSan",
            "Exploration with an exact reference oracle. Every ordered pair of the 15 integer types is swept through convert_type_fundamental: exhaustively for sources <=16 bit (quick) / <=32 bit (thorough), boundaries +-neighbourhood and random for wider sources; the same oracle judges real stores, loads, arguments, results, callback arguments/results and array elements on ILP32, NARROW and WIDE model backends, with the guest-side value read from raw memory / the guest event log. Compound assignments whose left operand is the sandbox cell (0 += v, 0 |= v) are store paths of their own. The array sweep also runs with std::array<volatile T,N> destinations and sources (the shape of arrays in sandbox memory).",
            "DESIGN.md section 5 C06", ""),
    "C16": ("runtime monitoring: generated operator forms (compiler used only as feasibility filter) executed under ASan+UBSan and compared value-by-value with the plain C++ expression (lock-step reference)",
            "Exploration. Every (operator, lhs wrapper, rhs wrapper, type pair) form that compiles is executed on the ILP32 model backend; result type (run-time boolean), result value and operand post-state are compared with the plain expression for all 65536 operand pairs of 8-bit x 8-bit forms and boundary+random sets otherwise; plain expressions with undefined behaviour are excluded by a 128-bit validity predicate. The forms that store into sandbox memory run a second time on the WIDE model (cells wider than the application type; all sandbox-touching forms in the thorough tier); the 436 int/int and long/long forms must compile, and every form that was a program on the pinned tree (baseline_forms/C16.txt, 52803 identities) must still be one (otherwise inconclusive). Mixed pairs include a signed left operand with an unsigned right operand of the same rank; an abort of a compound update is accepted only when the value the operand would hold afterwards does not fit the stored type.",
            "DESIGN.md section 5 C16", ""),
}
CLAIMED.update(json.load(open(os.path.join(VERIF, "tools", "claimed_extra.json"))) if os.path.exists(os.path.join(VERIF, "tools", "claimed_extra.json")) else {})

LEVELCAT = {"C19": "fault_enumeration"}
NA_REASON = "check not built yet in this round (planned monitor: DESIGN.md section 5); not claimed"

m = {
    "version": 1,
    "setup_cmd": "true",
    "hooks": {
        "guard": "ALLENABY_RLBOX_VERIF",
        "enable": "every harness TU is compiled with -DALLENABY_RLBOX_VERIF against /repo/code/include (header-only library). No guarded code had to be added to /repo: the monitors use the library's own extension points (RLBOX_USE_EXCEPTIONS, RLBOX_CUSTOM_ABORT, RLBOX_TRANSITION_ACTION_*, RLBOX_USE_CUSTOM_SHARED_LOCK, pluggable backend).",
        "baseline_off_cmd": "cmake -G Ninja -S /repo -B /repo/_build -DCMAKE_BUILD_TYPE=RelWithDebInfo && cmake --build /repo/_build -j16 && ctest --test-dir /repo/_build -j8 --timeout 900",
        "source_commits": [],
        "add_only": True,
    },
    "engines": [
        {"name": "check", "path": "check", "serves_properties": sorted(CLAIMED), "kind_free_text": "E8 check driver: rebuilds drivers from /repo working tree, runs them under sanitizers, aggregates monitor records, known-findings matching, evidence"},
        {"name": "model-backend", "path": "harness/include/rlbox_vsbx_sandbox.hpp", "serves_properties": sorted(CLAIMED), "kind_free_text": "E1 foreign-ABI model backend plug-in (ILP32/NARROW/WIDE/HOST, MASK and FINDER translation, guard pages, callback slots, libraries)"},
        {"name": "monitor-core", "path": "harness/include/mon.hpp", "serves_properties": sorted(CLAIMED), "kind_free_text": "E2/E3 monitor core: PRNG, violation records, coverage, abort capture (exception/flag/process modes)"},
        {"name": "forms", "path": "formlib.py", "serves_properties": [p for p in ("C01", "C02", "C16") if p in CLAIMED], "kind_free_text": "E5 drivable-form engine: compiler as feasibility filter only, verdicts from executing the surviving forms"},
    ],
    "checks": [],
    "not_applicable": [],
    "notes": "Technique family: runtime monitoring and sanitizers only. ./check <ID> exits 0 (held on everything explored), 1 (VIOLATION line + replay file) or 2 (inconclusive: harness failure, watchdog, required oracle branch never reached). Known findings: known_findings.json.",
}
for p in props:
    pid = p["id"]
    if pid in CLAIMED:
        tech, text, dref, note = CLAIMED[pid]
        m["checks"].append({
            "property_id": pid,
            "quick_cmd": "./check %s --tier quick" % pid,
            "thorough_cmd": "./check %s --tier thorough" % pid,
            "evidence_file": "evidence/%s.json" % pid,
            "replay_cmd_template": "./check %s --replay {path}" % pid,
            "engine": "check",
            "level_claimed": {"category": LEVELCAT.get(pid, "exploration"), "text": text, "design_ref": dref},
            "level_note": TRUST + (" " + note if note else ""),
            "technique": tech,
        })
    else:
        m["not_applicable"].append({"property_id": pid, "reason": NA_REASON})
json.dump(m, open(os.path.join(VERIF, "MANIFEST.json"), "w"), indent=1)
print("claimed:", sorted(CLAIMED))
