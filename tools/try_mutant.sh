#!/bin/bash
# usage: tools/try_mutant.sh <patch.diff> <ID> [tier]
# Applies the patch to a private scratch worktree of /repo's HEAD (never to /repo itself), runs the check against it
# (VERIF_REPO), prints the verdict lines and removes the worktree. Evidence of the trial goes to /tmp, not to /verif/evidence.
set -u
P=$(realpath "$1"); ID=$2; TIER=${3:-quick}
WT=/tmp/wt/tm.$$
mkdir -p /tmp/wt
# VERIF_BASE: commit to start from (default: /repo's HEAD), e.g. the head of a scratch branch with fixes not merged yet
git -C /repo worktree add --detach "$WT" "${VERIF_BASE:-HEAD}" >/dev/null 2>&1 || exit 2
trap 'git -C /repo worktree remove --force "$WT" >/dev/null 2>&1' EXIT
if ! git -C "$WT" apply --check "$P" 2>/dev/null; then echo "PATCH DOES NOT APPLY: $P"; exit 3; fi
git -C "$WT" apply "$P"
cd "$(dirname "$0")/.." && VERIF_REPO="$WT" VERIF_EVIDENCE_DIR=/tmp/mutant_evidence ./check "$ID" --tier "$TIER" 2>/tmp/try_mutant.$$.err | grep -E "^(VIOLATION|KNOWN|HELD|INCONCLUSIVE)" | cut -c1-300
rc=${PIPESTATUS[0]}
rm -f /tmp/try_mutant.$$.err
echo "exit=$rc"
exit $rc
