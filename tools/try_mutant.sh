#!/bin/bash
# usage: tools/try_mutant.sh <patch.diff> <ID> [tier]   -- applies patch to /repo, runs check, reverts
set -u
P=$(realpath "$1"); ID=$2; TIER=${3:-quick}
cd /repo || exit 2
if ! git diff --quiet; then echo "repo dirty"; exit 2; fi
if ! git apply --check "$P" 2>/dev/null; then echo "PATCH DOES NOT APPLY: $P"; exit 3; fi
git apply "$P"
cd /verif && ./check "$ID" --tier "$TIER" 2>/tmp/try_mutant.err | grep -E "^(VIOLATION|KNOWN|HELD|INCONCLUSIVE)" | cut -c1-300
rc=${PIPESTATUS[0]}
git -C /repo checkout -- .
echo "exit=$rc"
exit $rc
