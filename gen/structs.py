"""Struct family generator for C08 (python3 stdlib only).

For every struct it emits a self-contained header sK.hpp:
  * the application struct(s) (a nested struct first, if any),
  * an independent guest image template G<Cfg> built from the ABI configuration's
    typedefs only (nothing from RLBox),
  * RLBox's reflection macros + rlbox_load_structs_from_library(sK),
  * c08::Traits<S>: leaf enumeration for (tainted<S>, guest image), for two
    tainted<S>, leaf addresses of a tainted_volatile<S>, the layout computed HERE
    in Python from the ABI rules (offset/size per leaf, struct size/alignment) for
    each ABI, guest functions take/ret and their registration.
"""
import random

# ABI tables: name -> (size, align) of short,int,long,long long,pointer
ABIS = {
    "vsbx_ilp32": dict(S=2, I=4, L=4, LL=8, P=4),
    "vsbx_ilp32f": dict(S=2, I=4, L=4, LL=8, P=4),
    "vsbx_narrow": dict(S=1, I=2, L=4, LL=4, P=4),
    "vsbx_wide": dict(S=4, I=8, L=8, LL=8, P=8),
    "vsbx_host": dict(S=2, I=4, L=8, LL=8, P=8),
}
# scalar ctypes: guest type expression, abi key or fixed size
SCALARS = {
    "bool": ("bool", 1), "char": ("char", 1), "signed char": ("signed char", 1), "unsigned char": ("unsigned char", 1),
    "short": ("typename Cfg::S", "S"), "unsigned short": ("std::make_unsigned_t<typename Cfg::S>", "S"),
    "int": ("typename Cfg::I", "I"), "unsigned int": ("std::make_unsigned_t<typename Cfg::I>", "I"),
    "long": ("typename Cfg::L", "L"), "unsigned long": ("std::make_unsigned_t<typename Cfg::L>", "L"),
    "long long": ("typename Cfg::LL", "LL"), "unsigned long long": ("std::make_unsigned_t<typename Cfg::LL>", "LL"),
    "float": ("float", 4), "double": ("double", 8), "c08::E8": ("c08::E8", 4),
    # an enumeration over a 64-bit type: like every enum it keeps the application's representation in the sandbox image
    "c08::E64": ("c08::E64", 8),
}
INTS = ["bool", "char", "signed char", "unsigned char", "short", "unsigned short", "int", "unsigned int", "long", "unsigned long",
        "long long", "unsigned long long"]
POINTEES = ["int", "char", "long", "void", "double"]


def size_of(ct, abi):
    s = SCALARS[ct][1]
    return ABIS[abi][s] if isinstance(s, str) else s


class Field:
    def __init__(self, kind, name, **kw):
        self.kind, self.name = kind, name
        self.__dict__.update(kw)


def random_fields(rnd, n, allow_nested, prefix):
    kinds = ["int"] * 5 + ["flt", "enum", "ptr", "cptr", "fnptr", "arr", "arr2", "chararr", "ptrarr"] + (["nested"] * 2 if allow_nested else [])
    fs = []
    for i in range(n):
        k = rnd.choice(kinds)
        nm = "%s%d" % (prefix, i)
        if k == "int":
            fs.append(Field("scalar", nm, ct=rnd.choice(INTS)))
        elif k == "flt":
            fs.append(Field("scalar", nm, ct=rnd.choice(["float", "double"])))
        elif k == "enum":
            fs.append(Field("scalar", nm, ct=rnd.choice(["c08::E8", "c08::E8", "c08::E64"])))
        elif k == "ptr":
            fs.append(Field("ptr", nm, pointee=rnd.choice(POINTEES), const=False))
        elif k == "cptr":
            fs.append(Field("ptr", nm, pointee=rnd.choice(["char", "int"]), const=True))
        elif k == "fnptr":
            fs.append(Field("fnptr", nm))
        elif k == "arr":
            fs.append(Field("arr", nm, ct=rnd.choice(["short", "int", "long", "unsigned long", "long long", "unsigned char", "double"]), n=rnd.randint(1, 5)))
        elif k == "arr2":
            # multi-dimensional member (rows of same-width and of ABI-dependent element types)
            fs.append(Field("arr2", nm, ct=rnd.choice(["int", "char", "long", "short", "double", "unsigned char", "unsigned long"]), n=rnd.randint(2, 3), m=rnd.randint(2, 4)))
        elif k == "chararr":
            fs.append(Field("arr", nm, ct="char", n=rnd.choice([1, 3, 8, 13])))
        elif k == "ptrarr":
            fs.append(Field("ptrarr", nm, pointee=rnd.choice(["int", "char"]), n=rnd.randint(1, 4)))
        elif k == "nested":
            fs.append(Field("nested", nm))
    return fs


def ctype_decl(f, sname):
    if f.kind == "scalar":
        return "%s %s;" % (f.ct, f.name), f.ct
    if f.kind == "ptr":
        t = "%s%s*" % ("const " if f.const else "", f.pointee)
        return "%s %s;" % (t, f.name), t
    if f.kind == "fnptr":
        return "int (*%s)(int);" % f.name, "int (*)(int)"
    if f.kind == "arr":
        return "%s %s[%d];" % (f.ct, f.name, f.n), "%s[%d]" % (f.ct, f.n)
    if f.kind == "arr2":
        return "%s %s[%d][%d];" % (f.ct, f.name, f.n, f.m), "%s[%d][%d]" % (f.ct, f.n, f.m)
    if f.kind == "ptrarr":
        return "%s* %s[%d];" % (f.pointee, f.name, f.n), "%s*[%d]" % (f.pointee, f.n)
    if f.kind == "nested":
        return "%s_in %s;" % (sname, f.name), "%s_in" % sname
    raise ValueError(f.kind)


def gtype_decl(f, sname):
    if f.kind == "scalar":
        return "%s %s;" % (SCALARS[f.ct][0], f.name)
    if f.kind in ("ptr", "fnptr"):
        return "typename Cfg::P %s;" % f.name
    if f.kind == "arr":
        return "%s %s[%d];" % (SCALARS[f.ct][0], f.name, f.n)
    if f.kind == "arr2":
        return "%s %s[%d][%d];" % (SCALARS[f.ct][0], f.name, f.n, f.m)
    if f.kind == "ptrarr":
        return "typename Cfg::P %s[%d];" % (f.name, f.n)
    if f.kind == "nested":
        return "G%s_in<Cfg> %s;" % (sname, f.name)


def layout(fields, abi, inner_fields):
    """returns (leaves [(path, off, size)], size, align) by the usual C rules"""
    off, maxal = 0, 1
    leaves = []

    def place(sz, al):
        nonlocal off, maxal
        off = (off + al - 1) // al * al
        o = off
        off += sz
        maxal = max(maxal, al)
        return o
    for f in fields:
        if f.kind == "scalar":
            s = size_of(f.ct, abi)
            leaves.append((f.name, place(s, s), s))
        elif f.kind in ("ptr", "fnptr"):
            s = ABIS[abi]["P"]
            leaves.append((f.name, place(s, s), s))
        elif f.kind == "arr":
            s = size_of(f.ct, abi)
            o = place(s * f.n, s)
            for i in range(f.n):
                leaves.append(("%s[%d]" % (f.name, i), o + i * s, s))
        elif f.kind == "arr2":
            s = size_of(f.ct, abi)
            o = place(s * f.n * f.m, s)
            for i in range(f.n):
                for j in range(f.m):
                    leaves.append(("%s[%d][%d]" % (f.name, i, j), o + (i * f.m + j) * s, s))
        elif f.kind == "ptrarr":
            s = ABIS[abi]["P"]
            o = place(s * f.n, s)
            for i in range(f.n):
                leaves.append(("%s[%d]" % (f.name, i), o + i * s, s))
        elif f.kind == "nested":
            il, isz, ial = layout(inner_fields, abi, None)
            o = place(isz, ial)
            for (p, lo, ls) in il:
                leaves.append(("%s.%s" % (f.name, p), o + lo, ls))
    size = (off + maxal - 1) // maxal * maxal
    return leaves, size, maxal


def leaf_paths(fields, inner_fields):
    out = []
    for f in fields:
        if f.kind in ("scalar", "ptr", "fnptr"):
            out.append(f.name)
        elif f.kind in ("arr", "ptrarr"):
            out += ["%s[%d]" % (f.name, i) for i in range(f.n)]
        elif f.kind == "arr2":
            out += ["%s[%d][%d]" % (f.name, i, j) for i in range(f.n) for j in range(f.m)]
        elif f.kind == "nested":
            out += ["%s.%s" % (f.name, p) for p in leaf_paths(inner_fields, None)]
    return out


def gen_struct(k, rnd, path):
    sname = "S%d" % k
    lib = "s%d" % k
    nfields = rnd.randint(3, 14)
    inner = random_fields(rnd, rnd.randint(2, 5), False, "i")
    fields = random_fields(rnd, nfields, True, "m")
    if k % 6 == 1:  # whatever the seed draws, some structs of every family carry an enumeration over a 64-bit type
        fields.insert(rnd.randint(0, len(fields)), Field("scalar", "m%d" % len(fields), ct="c08::E64"))
    # the reflection macros use f and g as parameter names: no field may be called f or g (names are m<i>/i<i>)
    has_nested = any(f.kind == "nested" for f in fields)
    o = ["// generated by gen/structs.py -- struct %s" % sname, "#pragma once"]
    o.append("namespace %s {" % lib)
    if has_nested:
        o.append("struct %s_in { %s };" % (sname, " ".join(ctype_decl(f, sname)[0] for f in inner)))
        o.append("template<typename Cfg> struct G%s_in { %s };" % (sname, " ".join(gtype_decl(f, sname) for f in inner)))
    o.append("struct %s { %s };" % (sname, " ".join(ctype_decl(f, sname)[0] for f in fields)))
    o.append("template<typename Cfg> struct G%s { %s };" % (sname, " ".join(gtype_decl(f, sname) for f in fields)))
    o.append("}")
    o.append("using %s::%s;" % (lib, sname))
    if has_nested:
        o.append("using %s::%s_in;" % (lib, sname))

    def refl(cls, fs):
        parts = " g() ".join("f(%s, %s, FIELD_NORMAL, ##__VA_ARGS__)" % (ctype_decl(f, sname)[1], f.name) for f in fs)
        return "#define sandbox_fields_reflection_%s_class_%s(f, g, ...) %s g()" % (lib, cls, parts)
    if has_nested:
        o.append(refl(sname + "_in", inner))
    o.append(refl(sname, fields))
    classes = (["f(%s_in, %s, ##__VA_ARGS__)" % (sname, lib)] if has_nested else []) + ["f(%s, %s, ##__VA_ARGS__)" % (sname, lib)]
    o.append("#define sandbox_fields_reflection_%s_allClasses(f, ...) %s" % (lib, " ".join(classes)))
    o.append("rlbox_load_structs_from_library(%s);" % lib)
    paths = leaf_paths(fields, inner)
    o.append("namespace c08 {")
    o.append("template<> struct Traits<%s> {" % sname)
    o.append("  template<typename Cfg> using G = %s::G%s<Cfg>;" % (lib, sname))
    o.append('  static const char* name() { return "%s"; }' % sname)
    o.append("  template<typename Cfg, typename F> static void for_leaves(tainted<%s, Sbx>& t, G<Cfg>& g, F&& f) { %s }" %
             (sname, " ".join('f("%s", t.%s, g.%s);' % (p, p, p) for p in paths)))
    o.append("  template<typename Cfg, typename F> static void for_leaf_pairs(tainted<%s, Sbx>& a, tainted<%s, Sbx>& b, F&& f) { %s }" %
             (sname, sname, " ".join('f("%s", a.%s, b.%s);' % (p, p, p) for p in paths)))
    o.append("  template<typename F> static void for_plain_pairs(const %s& a, const %s& b, F&& f) { %s }" %
             (sname, sname, " ".join('f("%s", a.%s, b.%s);' % (p, p, p) for p in paths)))
    o.append("  template<typename Cfg, typename F> static void for_leaf_addresses(tainted_volatile<%s, Sbx>& v, F&& f) { %s }" %
             (sname, " ".join('f("%s", reinterpret_cast<uintptr_t>(std::addressof(v.%s)));' % (p, p) for p in paths)))
    o.append("  template<typename Cfg> static const Layout& layout() {")
    for abi in ABIS:
        lv, sz, al = layout(fields, abi, inner)
        o.append("    if constexpr (std::is_same_v<Cfg, rlbox::%s>) { static const Layout l{ %d, %d, { %s } }; return l; }" %
                 (abi, sz, al, ", ".join('{ "%s", %d, %d }' % x for x in lv)))
    o.append("  }")
    o.append("  template<typename Cfg> static G<Cfg>& seen() { static G<Cfg> s; return s; }")
    o.append("  template<typename Cfg> static G<Cfg>& ret() { static G<Cfg> s; return s; }")
    o.append("  template<typename Cfg> static typename Cfg::I g_take(G<Cfg> s) { seen<Cfg>() = s; world::GEvent e; e.fn = \"take\"; world::glog.push_back(e); return 0; }")
    o.append("  template<typename Cfg> static G<Cfg> g_ret() { return ret<Cfg>(); }")
    o.append("  template<typename Cfg> static void invoke_take(Wd::sbx& sb, tainted<%s, Sbx>& t) { Wd::invoke<int(%s)>(sb, \"take_%s\", t); }" % (sname, sname, sname))
    o.append("  template<typename Cfg> static tainted<%s, Sbx> invoke_ret(Wd::sbx& sb) { return Wd::invoke<%s()>(sb, \"ret_%s\"); }" % (sname, sname, sname))
    o.append("  static void add_exports(vsbx_library& lib) { lib.add(\"take_%s\", reinterpret_cast<void*>(&g_take<c08::Cfg>)); lib.add(\"ret_%s\", reinterpret_cast<void*>(&g_ret<c08::Cfg>)); }" % (sname, sname))
    o.append("};")
    o.append("static RegAdder reg_%s(\"%s\", &run_struct<%s>, &Traits<%s>::add_exports);" % (sname, sname, sname, sname))
    o.append("}")
    with open(path, "w") as fh:
        fh.write("\n".join(o) + "\n")
    return dict(name=sname, fields=len(fields), leaves=len(paths), nested=has_nested,
                kinds=sorted(set(f.kind + (":" + f.ct if f.kind in ("scalar", "arr", "arr2") else "") for f in fields)))
