"""Form corpus generator for C01 / C02 (python3 stdlib only).

A form is ONE line: FORM(id, "tag", "description") { body }.  Tags:
  n  normal: any plain (non-wrapper, non-hint) result / evaluated plain condition is a violation
  z  null test of a tainted pointer: a plain bool is allowed
  u  explicit unwrapper (control): plain result expected
  v  comparison with a sandbox-resident operand: the result must be a hint
  r  C02 raw-pointer / foreign form: if it runs without aborting the backend event
     counters and the guest-call counter must show that nothing entered the sandbox
  g  C02 control (well-formed registration etc.)
"""

BINOPS = ["+", "-", "*", "/", "%", "^", "&", "|", "<<", ">>"]
CMPOPS = ["==", "!=", "<", "<=", ">", ">="]
LOGOPS = ["&&", "||"]
TYPES_BASE = ["bool", "char", "int", "unsigned", "long", "unsigned long long", "E3", "float", "double", "pint", "ppint", "fnp"]
TYPES_EXT = TYPES_BASE + ["short", "unsigned char", "cpchar"]
PTRS = ("pint", "ppint", "fnp", "cpchar")


def decl(w, ty, name="a"):
    if w == "T":
        return "auto %s = e.T_<%s>();" % (name, ty)
    if w == "V":
        return "auto& %s = e.V<%s>();" % (name, ty)
    if w == "O":
        return "auto %s = e.O<%s>();" % (name, ty)
    raise ValueError(w)


def c01_forms(extended):
    types = TYPES_EXT if extended else TYPES_BASE
    out = []

    def add(tag, desc, body):
        out.append((tag, desc.replace('"', "'"), body))
    for w in ("T", "V", "O"):
        for ty in types:
            d = decl(w, ty)
            isptr = ty in PTRS
            ztag = "z" if (w == "T" and isptr) else "n"
            wn = {"T": "tainted", "V": "tainted_volatile", "O": "tainted_opaque"}[w]
            what = "%s<%s>" % (wn, ty)
            pl = "%s p = e.plain<%s>();" % (ty, ty)
            # unary
            for u in ["-a", "~a", "+a", "*a", "&a", "++a", "a++", "--a", "a--"]:
                add("n", "unary %s on %s" % (u, what), "%s sink(e, %s);" % (d, u))
            # !a on a sandbox-resident bool or pointer is the comparison a == false / a == nullptr: hint only (tag v)
            add(ztag if w == "T" else ("v" if w == "V" else "n"), "unary !a on %s" % what, "%s sink(e, !a);" % d)
            # binary, comparison, logical
            for op in BINOPS + CMPOPS + LOGOPS:
                vtag = "v" if (w == "V" and op in CMPOPS) else "n"
                add(vtag, "binary a %s plain on %s" % (op, what), "%s %s sink(e, a %s p);" % (d, pl, op))
                add(vtag, "binary plain %s a on %s" % (op, what), "%s %s sink(e, p %s a);" % (d, pl, op))
                add(vtag, "binary a %s tainted on %s" % (op, what), "%s auto b = e.T_<%s>(); sink(e, a %s b);" % (d, ty, op))
                add("v" if op in CMPOPS else "n", "binary a %s volatile on %s" % (op, what), "%s auto& b = e.V<%s>(); sink(e, a %s b);" % (d, ty, op))
            if isptr:
                for op in ["==", "!="]:
                    add("z" if w == "T" else ("v" if w == "V" else "n"), "nullcmp a %s nullptr on %s" % (op, what), "%s sink(e, a %s nullptr);" % (d, op))
                    add("n", "nullcmp nullptr %s a on %s" % (op, what), "%s sink(e, nullptr %s a);" % (d, op))
                add("n", "binary a + int on %s" % what, "%s sink(e, a + 1);" % d)
                add("n", "subscript a[0] on %s" % what, "%s sink(e, a[0]);" % d)
                add("n", "subscript a[tainted] on %s" % what, "%s auto i = e.T_<int>(); sink(e, a[i]);" % d)
                add("n", "cast reinterpret_cast<char*>(a) on %s" % what, "%s sink(e, reinterpret_cast<char*>(a));" % d)
                add("n", "cast reinterpret_cast<uintptr_t>(a) on %s" % what, "%s sink(e, reinterpret_cast<uintptr_t>(a));" % d)
                add("n", "arrow a->UNSAFE_unverified-free member on %s" % what, "%s sink(e, a.operator->());" % d)
            for op in BINOPS:
                add("n", "compound a %s= plain on %s" % (op, what), "%s %s sink(e, a %s= p);" % (d, pl, op))
            # conversion contexts
            add(ztag if ty != "bool" and False else ("n"), "init plain x = a on %s" % what, "%s %s x = a; sink(e, x);" % (d, ty))
            add("n", "init plain x(a) on %s" % what, "%s %s x(a); sink(e, x);" % (d, ty))
            add("n", "init plain x{a} on %s" % what, "%s %s x{a}; sink(e, x);" % (d, ty))
            add("n", "assign plain x = a on %s" % what, "%s %s x{}; x = a; sink(e, x);" % (d, ty))
            add(ztag, "init bool x = a on %s" % what, "%s bool x = a; sink(e, x);" % d)
            add(ztag, "cast static_cast<bool>(a) on %s" % what, "%s sink(e, static_cast<bool>(a));" % d)
            add("n", "cast static_cast<T>(a) on %s" % what, "%s sink(e, static_cast<%s>(a));" % (d, ty))
            add("n", "cast (T)a on %s" % what, "%s sink(e, (%s)a);" % (d, ty))
            add("n", "cast (long)a on %s" % what, "%s sink(e, (long)a);" % d)
            add("n", "argument takes<T>(a) on %s" % what, "%s sink(e, takes<%s>(a));" % (d, ty))
            add("n", "return a from plain function on %s" % what, "%s sink(e, [&]() -> %s { return a; }());" % (d, ty))
            add(ztag, "condition if(a) on %s" % what, "%s if (a) cond(e, true); else cond(e, false);" % d)
            add(ztag, "condition while(a) on %s" % what, "%s while (a) { cond(e, true); break; }" % d)
            add(ztag, "condition a?x:y on %s" % what, "%s cond(e, a ? true : false);" % d)
            add("n", "condition switch(a) on %s" % what, "%s switch (a) { default: cond(e, true); }" % d)
            add("n", "subscript plainarray[a] on %s" % what, "%s sink(e, canary_target[a]);" % d)
            add("n", "condition if(!a) on %s" % what if not (w == "T" and isptr) else "condition if(!a) on %s" % what, "%s if (!a) cond(e, true); else cond(e, false);" % d) if not (w == "T" and isptr) else add("z", "condition if(!a) on %s" % what, "%s if (!a) cond(e, true); else cond(e, false);" % d)
            for m in ["get_raw_value()", "get_raw_value_ref()", "get_raw_sandbox_value()", "get_sandbox_value_ref()", "data"]:
                add("n", "member a.%s on %s" % (m, what), "%s sink(e, a.%s);" % (d, m))
            # explicit unwrappers (controls)
            add("u", "unwrap UNSAFE_unverified on %s" % what, "%s sink(e, a.UNSAFE_unverified());" % d)
            add("u", "unwrap UNSAFE_sandboxed on %s" % what, "%s sink(e, a.UNSAFE_sandboxed(e.sb));" % d)
            if not isptr:
                add("u", "unwrap unverified_safe_because on %s" % what, "%s sink(e, a.unverified_safe_because(\"r\"));" % d)
                add("u", "unwrap copy_and_verify on %s" % what, "%s sink(e, a.copy_and_verify([](%s v) { return v; }));" % (d, ty))
            else:
                add("u", "unwrap copy_and_verify_address on %s" % what, "%s sink(e, a.copy_and_verify_address([](uintptr_t v) { return v; }));" % d)
            # derived wrappers stay wrapped
            add("n", "convert to tainted on %s" % what, "%s tainted<%s, S> t = a; sink(e, t);" % (d, ty))
    # a hint (the result of a comparison with sandbox-resident data) as an operand: the result must stay a hint
    for w in ("T", "V"):
        for ty in ("bool", "int", "char", "long"):
            d = decl(w, ty)
            wn = {"T": "tainted", "V": "tainted_volatile"}[w]
            for hn, hacc in (("tainted_boolean_hint", "auto h = e.HB();"), ("tainted_int_hint", "auto h = e.HI();")):
                for op in CMPOPS + LOGOPS + ["+", "&", "|", "^"]:
                    add("v", "hintoperand a %s %s on %s<%s>" % (op, hn, wn, ty), "%s %s sink(e, a %s h);" % (d, hacc, op))
                    add("v", "hintoperand %s %s a on %s<%s>" % (hn, op, wn, ty), "%s %s sink(e, h %s a);" % (d, hacc, op))
    for hn, hacc in (("tainted_boolean_hint", "auto h = e.HB();"), ("tainted_int_hint", "auto h = e.HI();")):
        for op in CMPOPS + LOGOPS:
            add("v", "hintoperand hint %s hint (%s)" % (op, hn), "%s auto h2 = h; sink(e, h %s h2);" % (hacc, op))
            add("v", "hintoperand hint %s plain (%s)" % (op, hn), "%s sink(e, h %s true);" % (hacc, op))
            add("v", "hintoperand plain %s hint (%s)" % (op, hn), "%s sink(e, true %s h);" % (hacc, op))
    # arrays and structs
    for w, acc in (("tainted", "auto a = e.Tarr();"), ("tainted_volatile", "auto& a = e.Varr();")):
        what = "%s<int[4]>" % w
        add("n", "subscript a[1] on %s" % what, "%s sink(e, a[1]);" % acc)
        add("n", "init int x = a[1] on %s" % what, "%s int x = a[1]; sink(e, x);" % acc)
        add("n", "init plain array from a on %s" % what, "%s std::array<int, 4> x = a; sink(e, x);" % acc)
        add("n", "unary *a on %s" % what, "%s sink(e, *a);" % acc)
        add("n", "condition if(a) on %s" % what, "%s if (a) cond(e, true); else cond(e, false);" % acc)
        add("n", "binary a == a on %s" % what, "%s sink(e, a == a);" % acc)
        add("n", "member a.data on %s" % what, "%s sink(e, a.data);" % acc)
        add("u", "unwrap UNSAFE_unverified on %s" % what, "%s sink(e, a.UNSAFE_unverified());" % acc)
        add("u", "unwrap copy_and_verify on %s" % what, "%s sink(e, a.copy_and_verify([](std::array<int, 4> v) { return v; }));" % acc)
    for w, acc in (("tainted", "auto a = e.Tps();"), ("tainted_volatile", "auto& a = e.Vps();")):
        what = "%s<PS>" % w
        add("n", "field a.a on %s" % what, "%s sink(e, a.a);" % acc)
        add("n", "init long x = a.a on %s" % what, "%s long x = a.a; sink(e, x);" % acc)
        add("n", "init PS x = a on %s" % what, "%s PS x = a; sink(e, x);" % acc)
        add("n", "condition if(a.a) on %s" % what, "%s if (a.a) cond(e, true); else cond(e, false);" % acc)
        add("z" if w == "tainted" else "n", "condition if(a.c) on %s" % what, "%s if (a.c) cond(e, true); else cond(e, false);" % acc)
        add("v" if w == "tainted_volatile" else "n", "binary a.a == 1 on %s" % what, "%s sink(e, a.a == 1);" % acc)
        add("n", "unary &a on %s" % what, "%s sink(e, &a);" % acc)
        add("u", "unwrap UNSAFE_unverified on %s" % what, "%s sink(e, a.UNSAFE_unverified().a);" % acc)
        add("u", "unwrap copy_and_verify on %s" % what, "%s sink(e, a.copy_and_verify([](tainted<PS, S> v) { return v.UNSAFE_unverified(); }).a);" % acc)
    # callbacks, app pointers
    for nm, acc in (("sandbox_callback", "auto& a = e.CB();"), ("app_pointer", "auto& a = e.AP();")):
        for body, dsc in [("sink(e, *a);", "unary *a"), ("sink(e, !a);", "unary !a"), ("sink(e, a + 1);", "binary a + 1"), ("sink(e, a == nullptr);", "binary a == nullptr"),
                          ("fnp x = a; sink(e, x);", "init fnp x = a"), ("pint x = a; sink(e, x);", "init pint x = a"), ("void* x = a; sink(e, x);", "init void* x = a"),
                          ("bool x = a; sink(e, x);", "init bool x = a"), ("if (a) cond(e, true); else cond(e, false);", "condition if(a)"), ("sink(e, a(1));", "call a(1)"),
                          ("sink(e, (long)a);", "cast (long)a"), ("sink(e, a.get_raw_value());", "member a.get_raw_value()"), ("sink(e, a.get_raw_sandbox_value());", "member a.get_raw_sandbox_value()"),
                          ("sink(e, a.callback);", "member a.callback"), ("sink(e, a.idx);", "member a.idx"), ("sink(e, a[0]);", "subscript a[0]")]:
            add("n", "%s on %s" % (dsc, nm), "%s %s" % (acc, body))
        add("u", "unwrap UNSAFE_unverified on %s" % nm, "%s sink(e, a.UNSAFE_unverified());" % acc)
        add("u", "unwrap UNSAFE_sandboxed on %s" % nm, "%s sink(e, a.UNSAFE_sandboxed(e.sb));" % acc)
    # hints
    for nm, acc, pt in (("tainted_boolean_hint", "auto a = e.HB();", "bool"), ("tainted_int_hint", "auto a = e.HI();", "int")):
        add("n", "hint copy_and_verify on %s" % nm, "%s sink(e, a.copy_and_verify([](%s v) { return v; }));" % (acc, pt))
        add("n", "hint copy_and_verify(no verifier) on %s" % nm, "%s sink(e, a.copy_and_verify());" % acc)
        add("n", "init plain x = a on %s" % nm, "%s %s x = a; sink(e, x);" % (acc, pt))
        add("n", "condition if(a) on %s" % nm, "%s if (a) cond(e, true); else cond(e, false);" % acc)
        add("n", "cast static_cast<bool>(a) on %s" % nm, "%s sink(e, static_cast<bool>(a));" % acc)
        add("n", "binary a == true on %s" % nm, "%s sink(e, a == true);" % acc)
        add("n", "binary a && true on %s" % nm, "%s sink(e, a && true);" % acc)
        add("n", "unary !a on %s" % nm, "%s sink(e, !a);" % acc)
        add("n", "member a.val on %s" % nm, "%s sink(e, a.val);" % acc)
        add("n", "convert hint to tainted<bool> on %s" % nm, "%s tainted<bool, S> t = a; sink(e, t);" % acc)
        add("u", "unwrap unverified_safe_because on %s" % nm, "%s sink(e, a.unverified_safe_because(\"r\"));" % acc)
        add("u", "unwrap UNSAFE_unverified on %s" % nm, "%s sink(e, a.UNSAFE_unverified());" % acc)
    return out


def c02_forms(extended):
    out = []

    def add(tag, desc, body):
        out.append((tag, desc.replace('"', "'"), body))
    ptr_srcs = [("raw int*", "int* rp = e.raw();"), ("raw const int*", "const int* rp = e.raw();"), ("raw void*", "void* rp = e.raw();"),
                ("raw char*", "char* rp = reinterpret_cast<char*>(e.raw());")]
    for sn, sd in ptr_srcs:
        for tt in (["pint", "const int*", "void*", "char*", "cpchar"] if extended else ["pint", "void*", "cpchar"]):
            add("r", "init tainted<%s> = %s" % (tt, sn), "%s tainted<%s, S> t = rp; sink(e, t);" % (sd, tt))
            add("r", "init tainted<%s>(%s)" % (tt, sn), "%s tainted<%s, S> t(rp); sink(e, t);" % (sd, tt))
            add("r", "init tainted<%s>{%s}" % (tt, sn), "%s tainted<%s, S> t{rp}; sink(e, t);" % (sd, tt))
            add("r", "assign tainted<%s> = %s" % (tt, sn), "%s tainted<%s, S> t = nullptr; t = rp; sink(e, t);" % (sd, tt))
            add("r", "store volatile<%s> = %s" % (tt, sn), "%s auto& v = *Wd::tptr<%s>(e.sb, e.off<pint>()); v = rp; sink(e, v);" % (sd, tt))
            add("r", "invoke(echo_ptr, %s) as %s" % (sn, tt), "%s sink(e, Wd::invoke<%s(%s)>(e.sb, \"echo_ptr\", rp));" % (sd, tt, tt))
        add("r", "store struct field ps->c = %s" % sn, "%s e.Vps().c = rp; sink(e, e.Vps().c);" % sd)
        add("r", "store tainted struct field t.c = %s" % sn, "%s auto t = e.Tps(); t.c = rp; sink(e, t.c);" % sd)
        add("r", "compound tainted<int> + %s" % sn, "%s sink(e, e.T_<int>() + rp);" % sd)
        add("r", "compound tainted<long> + %s" % sn, "%s sink(e, e.T_<long>() + rp);" % sd)
        add("r", "compound tainted<unsigned long long> + %s" % sn, "%s sink(e, e.T_<unsigned long long>() + rp);" % sd)
        add("r", "compound volatile<int> + %s" % sn, "%s sink(e, e.V<int>() + rp);" % sd)
        add("r", "compound %s + tainted<int>" % sn, "%s sink(e, rp + e.T_<int>());" % sd)
        add("r", "compound tainted<int> - %s" % sn, "%s sink(e, e.T_<int>() - rp);" % sd)
        add("r", "compound tainted<pint> + %s" % sn, "%s sink(e, e.T_<pint>() + rp);" % sd)
        add("r", "compare tainted<pint> == %s" % sn, "%s sink(e, e.T_<pint>() == rp);" % sd)
        add("r", "compound tainted<int> += %s" % sn, "%s auto t = e.T_<int>(); t += rp; sink(e, t);" % sd)
    # arrays of raw pointers
    add("r", "init tainted<pint[2]> element = raw", "tainted<pint[2], S> t; t[0] = e.raw(); t[1] = nullptr; sink(e, t[0]);")
    add("r", "init tainted<pint[2]> = std::array of raw", "std::array<pint, 2> ra{ e.raw(), e.raw() }; tainted<pint[2], S> t = ra; sink(e, t[0]);")
    add("r", "init tainted<pint[2]> = C array of raw", "pint ra[2] = { e.raw(), e.raw() }; tainted<pint[2], S> t = ra; sink(e, t[0]);")
    add("r", "store volatile<pint[2]> = std::array of raw", "std::array<pint, 2> ra{ e.raw(), e.raw() }; auto& v = *Wd::tptr<pint[2]>(e.sb, e.off<pint>()); v = ra; sink(e, v[0]);")
    add("r", "store volatile<pint[2]> element = raw", "auto& v = *Wd::tptr<pint[2]>(e.sb, e.off<pint>()); v[1] = e.raw(); sink(e, v[1]);")
    # std::array / C arrays of raw pointers into integer arrays and pointer arrays of every width
    for et in ["unsigned long long", "long long", "unsigned long", "long", "unsigned int", "double", "pint", "void*", "cpchar"]:
        add("r", "store volatile<%s[2]> = std::array of raw pointers" % et,
            "std::array<pint, 2> ra{ e.raw(), e.raw() }; auto& v = *Wd::tptr<%s[2]>(e.sb, 512); v = ra; sink(e, v[0]);" % et)
        add("r", "store volatile<%s[2]> = C array of raw pointers" % et,
            "pint ra[2] = { e.raw(), e.raw() }; auto& v = *Wd::tptr<%s[2]>(e.sb, 512); v = ra; sink(e, v[0]);" % et)
        add("r", "init tainted<%s[2]> = std::array of raw pointers" % et,
            "std::array<pint, 2> ra{ e.raw(), e.raw() }; tainted<%s[2], S> t = ra; sink(e, t[0]);" % et)
    add("r", "store volatile<unsigned long long[2][2]> = nested std::array of raw pointers",
        "std::array<std::array<pint, 2>, 2> ra{{ {{ e.raw(), e.raw() }}, {{ e.raw(), e.raw() }} }}; auto& v = *Wd::tptr<unsigned long long[2][2]>(e.sb, 512); v = ra; sink(e, v[0][0]);")
    add("r", "store struct array field = std::array of raw pointers", "std::array<pint, 2> ra{ e.raw(), e.raw() }; auto& v = *Wd::tptr<unsigned long long[2]>(e.sb, 512); v = ra; sink(e, v[1]);")
    # the two run-time entry points with function-pointer typed arguments, swept over the same addresses as the data-pointer forms
    add("x", "entry-point sweep with function-pointer arguments", "{ mon::Rng r(mon::seed() * 53 + 3); c02_entry_points_t<fnp>(e, r, \"(function-pointer)\"); mon::hit(\"entry-point-sweep-with-function-pointers\"); }")
    # raw function pointers
    add("r", "init tainted<fnp> = raw function", "fnp f = &plain_fn; tainted<fnp, S> t = f; sink(e, t);")
    add("r", "store volatile<fnp> = raw function", "fnp f = &plain_fn; e.V<fnp>() = f; sink(e, e.V<fnp>());")
    add("r", "invoke(take_fn, raw function)", "sink(e, Wd::invoke<fnp(fnp)>(e.sb, \"take_fn\", &plain_fn));")
    add("r", "store struct fn field = raw function", "auto& v = e.V<fnp>(); v = &plain_fn; sink(e, v);")
    # wrappers of another sandbox type
    for ty in ["int", "long", "pint"]:
        add("r", "init tainted<%s,S> = tainted<%s,other>" % (ty, ty), "tainted<%s, S> t = e.NT<%s>(); sink(e, t);" % (ty, ty)) if ty != "pint" else None
        add("r", "store volatile<%s> = tainted<%s,other>" % (ty, ty), "e.V<%s>() = e.NT<%s>(); sink(e, e.V<%s>());" % (ty, ty, ty)) if ty != "pint" else None
    add("r", "invoke(echo_int, tainted<int,other>)", "sink(e, Wd::invoke<int(int)>(e.sb, \"echo_int\", e.NT<int>()));")
    add("r", "invoke(echo_int, opaque<int,other>)", "sink(e, Wd::invoke<int(int)>(e.sb, \"echo_int\", e.NT<int>().to_opaque()));")
    add("r", "invoke on other sandbox with tainted<int,S>", "sink(e, e.nsb.INTERNAL_invoke_with_func_ptr<int(int)>(\"n\", reinterpret_cast<void*>(&plain_fn), e.T_<int>()));")
    add("g", "invoke(echo_int, tainted<int,S>) control", "sink(e, Wd::invoke<int(int)>(e.sb, \"echo_int\", e.T_<int>()));")
    add("g", "invoke(echo_ptr, nullptr) control", "sink(e, Wd::invoke<pint(pint)>(e.sb, \"echo_ptr\", nullptr));")
    add("g", "invoke(echo_int, plain int) control", "sink(e, Wd::invoke<int(int)>(e.sb, \"echo_int\", 5));")
    add("r", "invoke(echo_int, std::string)", "std::string s = \"x\"; sink(e, Wd::invoke<int(int)>(e.sb, \"echo_int\", s));")
    add("r", "invoke(echo_int, struct by value unwrapped)", "PS s{ 1, 'a', e.raw() }; sink(e, Wd::invoke<int(PS)>(e.sb, \"echo_int\", s));")
    # callback signatures
    for nm in ["cb_noparam", "cb_wrongsbx", "cb_plainparam", "cb_arrayparam", "cb_plainret", "cb_refparam", "cb_rawptrret", "cb_secondsbx", "cb_plainptrparam",
               "cb_constrefparam", "cb_opaquerefparam", "cb_opaquemutrefparam", "cb_opaquervalrefparam", "cb_opaqueptrrefparam", "cb_opaquerefret", "cb_constrefret",
               "cb_sbxbyvalue", "cb_volatileparam"]:
        add("r", "register_callback(%s)" % nm, "auto c = e.sb.register_callback(%s); sink_cb(e, c);" % nm)
    add("g", "register_callback(well-formed) control", "auto c = e.sb.register_callback(cb_good2); sink_cb(e, c);")
    add("g", "register_callback(opaque params) control", "auto c = e.sb.register_callback(cb_good_opaque); sink_cb(e, c);")
    # function-pointer type mismatches: "a callback or sandbox function address can be stored or passed only where the
    # function-pointer type matches" -- tag f: completing is the violation
    FA = "auto fa = e.sb.INTERNAL_get_sandbox_function_name<long(long)>(\"echo_int\");"
    FP = "auto fp = e.nsb.UNSAFE_accept_pointer(e.raw());"
    add("f", "store volatile<fnp> = callback of other type", "auto c = e.sb.register_callback(cb_long); e.V<fnp>() = c; sink(e, e.V<fnp>());")
    add("f", "invoke(take_fn, callback of other type)", "auto c = e.sb.register_callback(cb_long); sink(e, Wd::invoke<fnp(fnp)>(e.sb, \"take_fn\", c));")
    add("f", "store volatile<fnp> = function address of other type", FA + " e.V<fnp>() = fa; sink(e, e.V<fnp>());")
    add("f", "store volatile<fnp> = volatile function address of other type", FA + " auto& w = *Wd::tptr<long (*)(long)>(e.sb, 768); w = fa; e.V<fnp>() = w; sink(e, e.V<fnp>());")
    add("f", "init tainted<fnp> = function address of other type", FA + " tainted<fnp, S> t = fa; sink(e, t);")
    add("f", "assign tainted<fnp> = function address of other type", FA + " tainted<fnp, S> t = nullptr; t = fa; sink(e, t);")
    add("f", "invoke(take_fn, function address of other type)", FA + " sink(e, Wd::invoke<fnp(fnp)>(e.sb, \"take_fn\", fa));")
    add("f", "invoke(take_fn, opaque function address of other type)", FA + " sink(e, Wd::invoke<fnp(fnp)>(e.sb, \"take_fn\", fa.to_opaque()));")
    add("f", "store volatile<cpchar> = function address", FA + " auto& v = *Wd::tptr<cpchar>(e.sb, e.off<cpchar>()); v = fa; sink(e, v);")
    add("f", "store volatile<bool> = function address", FA + " auto& v = *Wd::tptr<bool>(e.sb, 776); v = fa; sink(e, v);")
    add("f", "store volatile<bool> = callback", "auto& v = *Wd::tptr<bool>(e.sb, 776); v = e.CB(); sink(e, v);")
    add("f", "store volatile<long> = callback", "auto& v = *Wd::tptr<long>(e.sb, 784); v = e.CB(); sink(e, v);")
    add("f", "store struct fn field = function address of other type", FA + " auto& v = e.V<fnp>(); v = fa; sink(e, v);")
    add("r", "init tainted<fnp> = callback", "tainted<fnp, S> t = e.CB(); sink(e, t);")
    # arrays of function pointers of another type, arrays of other extents
    FA2 = FA + " tainted<long (*[2])(long), S> ta; ta[0] = fa; ta[1] = fa;"
    add("f", "store volatile<fnp[2]> = tainted array of function addresses of other type", FA2 + " auto& v = *Wd::tptr<fnp[2]>(e.sb, 800); v = ta; sink(e, v[0]);")
    add("f", "store volatile<cpchar[2]> = tainted array of function addresses", FA2 + " auto& v = *Wd::tptr<cpchar[2]>(e.sb, 800); v = ta; sink(e, v[0]);")
    add("f", "store volatile<fnp[2]> = volatile array of function addresses of other type", FA2 + " auto& w = *Wd::tptr<long (*[2])(long)>(e.sb, 832); w = ta; auto& v = *Wd::tptr<fnp[2]>(e.sb, 800); v = w; sink(e, v[0]);")
    add("f", "store volatile<pint[3]> = tainted<pint[2]> (extents differ)", "tainted<pint[2], S> ta; ta[0] = nullptr; ta[1] = nullptr; auto& v = *Wd::tptr<pint[3]>(e.sb, 800); v = ta; sink(e, v[0]);")
    add("f", "invoke(echo_bool, callback) (pointer-to-bool)", "sink(e, Wd::invoke<bool(bool)>(e.sb, \"echo_int\", e.CB()));")
    add("f", "invoke(echo_int, function address) (pointer as integer)", FA + " sink(e, Wd::invoke<int(int)>(e.sb, \"echo_int\", fa));")
    # structs / std::arrays of structs that contain raw pointers, and foreign wrappers, into integer arrays
    add("r", "store volatile<unsigned long long[2]> = array of structs holding raw pointers", "struct Hd { int* p; }; Hd h[2] = { { e.raw() }, { e.raw() } }; auto& v = *Wd::tptr<unsigned long long[2]>(e.sb, 512); v = h; sink(e, v[0]);")
    # (round 18) element types that are neither fundamental nor classes: unions and pointers to members
    add("r", "store volatile<unsigned long long[2]> = array of unions holding raw pointers", "union Hu { int* p; unsigned long long id; }; Hu h[2]; h[0].p = e.raw(); h[1].p = e.raw(); auto& v = *Wd::tptr<unsigned long long[2]>(e.sb, 512); v = h; sink(e, v[0]);")
    add("r", "store volatile<unsigned long long[2]> = std::array of unions holding raw pointers", "union Hu { int* p; unsigned long long id; }; std::array<Hu, 2> h; h[0].p = e.raw(); h[1].p = e.raw(); auto& v = *Wd::tptr<unsigned long long[2]>(e.sb, 512); v = h; sink(e, v[0]);")
    add("r", "init tainted<unsigned long long[2]> = array of unions holding raw pointers", "union Hu { int* p; unsigned long long id; }; Hu h[2]; h[0].p = e.raw(); h[1].p = e.raw(); tainted<unsigned long long[2], S> t; t = h; auto& v = *Wd::tptr<unsigned long long[2]>(e.sb, 512); v = t; sink(e, v[0]);")
    add("f", "store volatile<unsigned long long[2]> = array of pointers to members", "struct Wm { int m; }; int Wm::* h[2] = { &Wm::m, &Wm::m }; auto& v = *Wd::tptr<unsigned long long[2]>(e.sb, 512); v = h; sink(e, v[0]);")
    add("r", "store volatile<unsigned long long[2]> = std::array of structs holding raw pointers", "struct Hd { int* p; }; std::array<Hd, 2> h{ { { e.raw() }, { e.raw() } } }; auto& v = *Wd::tptr<unsigned long long[2]>(e.sb, 512); v = h; sink(e, v[0]);")
    add("r", "store volatile<unsigned long long[2]> = array of tainted<pint,other>", FP + " tainted<pint, NS> h[2] = { fp, fp }; auto& v = *Wd::tptr<unsigned long long[2]>(e.sb, 512); v = h; sink(e, v[0]);")
    # the bulk helpers with arrays of raw pointers, and with wrappers of another sandbox type
    add("r", "copy_memory_or_grant_access(array of raw char*)", "char* arr[2] = { reinterpret_cast<char*>(e.raw()), reinterpret_cast<char*>(e.raw()) }; bool c = false; auto t = copy_memory_or_grant_access(e.sb, arr, 2, false, c); sink(e, t);")
    add("r", "copy_memory_or_grant_access(array of raw double*)", "double* arr[2] = { reinterpret_cast<double*>(e.raw()), reinterpret_cast<double*>(e.raw()) }; bool c = false; auto t = copy_memory_or_grant_access(e.sb, arr, 2, false, c); sink(e, t);")
    add("f", "memcpy(dest, tainted<char*,other> source)", "auto fsrc = e.nsb.UNSAFE_accept_pointer(reinterpret_cast<char*>(e.raw())); auto d = Wd::tptr<char>(e.sb, 512); rlbox::memcpy(e.sb, d, fsrc, 4u); sink(e, d);")
    add("f", "memcmp(dest, tainted<char*,other>)", "auto fsrc = e.nsb.UNSAFE_accept_pointer(reinterpret_cast<char*>(e.raw())); auto d = Wd::tptr<char>(e.sb, 512); auto h = rlbox::memcmp(e.sb, d, fsrc, 4u); (void)h; sink(e, d);")
    add("f", "memset(dest, tainted<int,other>, n)", "auto d = Wd::tptr<char>(e.sb, 512); rlbox::memset(e.sb, d, e.NT<int>(), 4u); sink(e, d);")
    add("f", "memset(dest, 0, tainted<unsigned,other>)", "auto d = Wd::tptr<char>(e.sb, 512); rlbox::memset(e.sb, d, 0, e.NT<unsigned int>()); sink(e, d);")
    add("f", "compound volatile<int> += tainted<int,other>", "e.V<int>() += e.NT<int>(); sink(e, e.V<int>());")
    add("f", "compound tainted<int> + tainted<int,other>", "sink(e, e.T_<int>() + e.NT<int>());")
    add("f", "compound tainted<pint> + tainted<int,other>", "sink(e, e.T_<pint>() + e.NT<int>());")
    add("f", "index tainted<pint>[tainted<int,other>]", "auto p = Wd::tptr<int>(e.sb, 512); sink(e, p[e.NT<int>()]);")
    # round 9: a number of another sandbox type selects / becomes data of this sandbox without any unwrapping call
    add("f", "store through p[tainted<int,other>] (foreign value selects the cell)", "auto p = Wd::tptr<int>(e.sb, 512); p[e.NT<int>()] = 1; sink(e, p);")
    add("f", "store through arr[tainted<int,other>] (tainted array)", "tainted<int[4], S> a; a[e.NT<int>()] = 1; sink(e, a[0]);")
    add("f", "store volatile<bool> = (tainted<unsigned> == tainted<unsigned,other>)", "e.V<bool>() = (e.T_<unsigned int>() == e.NT<unsigned int>()); sink(e, e.V<bool>());")
    add("f", "store volatile<bool> = (tainted<int> < tainted<int,other>)", "e.V<bool>() = (e.T_<int>() < e.NT<int>()); sink(e, e.V<bool>());")
    add("f", "compare tainted<pint> == tainted<pint,other>", FP + " auto p = Wd::tptr<int>(e.sb, 512); e.V<bool>() = (p != fp); sink(e, e.V<bool>());")
    # round 17: the same foreign operands as CONST-qualified named objects (const locals, const& parameters, std::as_const): a
    # trait that recognises wrappers of another sandbox type must not be defeated by a cv-qualifier on the operand
    add("f", "memcmp(dest, const tainted<char*,other> source)", "const auto fsrc = e.nsb.UNSAFE_accept_pointer(reinterpret_cast<char*>(e.raw())); auto d = Wd::tptr<char>(e.sb, 512); auto h = rlbox::memcmp(e.sb, d, fsrc, 4u); (void)h; sink(e, d);")
    add("f", "memcmp(const tainted<char*,other> dest, source)", "const auto fdst = e.nsb.UNSAFE_accept_pointer(reinterpret_cast<char*>(e.raw())); auto d = Wd::tptr<char>(e.sb, 512); auto h = rlbox::memcmp(e.sb, fdst, d, 4u); (void)h; sink(e, d);")
    add("f", "memcmp(dest, source, const tainted<unsigned,other> count)", "const auto fn = e.NT<unsigned int>(); auto d = Wd::tptr<char>(e.sb, 512); auto d2 = Wd::tptr<char>(e.sb, 640); auto h = rlbox::memcmp(e.sb, d, d2, fn); (void)h; sink(e, d);")
    add("f", "memcpy(dest, const tainted<char*,other> source)", "const auto fsrc = e.nsb.UNSAFE_accept_pointer(reinterpret_cast<char*>(e.raw())); auto d = Wd::tptr<char>(e.sb, 512); rlbox::memcpy(e.sb, d, fsrc, 4u); sink(e, d);")
    add("f", "memcpy(dest, source, const tainted<unsigned,other> count)", "const auto fn = e.NT<unsigned int>(); auto d = Wd::tptr<char>(e.sb, 512); auto d2 = Wd::tptr<char>(e.sb, 640); rlbox::memcpy(e.sb, d, d2, fn); sink(e, d);")
    add("f", "memset(dest, const tainted<int,other>, n)", "const auto fv = e.NT<int>(); auto d = Wd::tptr<char>(e.sb, 512); rlbox::memset(e.sb, d, fv, 4u); sink(e, d);")
    add("f", "memset(dest, 0, const tainted<unsigned,other>)", "const auto fn = e.NT<unsigned int>(); auto d = Wd::tptr<char>(e.sb, 512); rlbox::memset(e.sb, d, 0, fn); sink(e, d);")
    add("f", "compound volatile<int> += const tainted<int,other>", "const auto fv = e.NT<int>(); e.V<int>() += fv; sink(e, e.V<int>());")
    add("f", "tainted<int> + const tainted<int,other>", "const auto fv = e.NT<int>(); sink(e, e.T_<int>() + fv);")
    add("f", "const tainted<int,other> + tainted<int> (foreign operand on the left)", "const auto fv = e.NT<int>(); sink(e, fv + e.T_<int>());")
    add("f", "index tainted<pint>[const tainted<int,other>]", "const auto fv = e.NT<int>(); auto p = Wd::tptr<int>(e.sb, 512); sink(e, p[fv]);")
    add("f", "store volatile<bool> = (tainted<int> < const tainted<int,other>)", "const auto fv = e.NT<int>(); e.V<bool>() = (e.T_<int>() < fv); sink(e, e.V<bool>());")
    add("f", "store volatile<int> = const tainted<int,other>", "const auto fv = e.NT<int>(); e.V<int>() = fv; sink(e, e.V<int>());")
    add("f", "invoke(echo_int, const tainted<int,other>)", "const auto fv = e.NT<int>(); sink(e, Wd::invoke<int(int)>(e.sb, \"echo_int\", fv));")
    # round 12: the "address of a sandbox function" API asked for something that is not a function -- the result would be a
    # tainted DATA pointer that no range check has ever seen
    add("f", "function-address API with an object type: INTERNAL_get_sandbox_function_name<int>(exported symbol)", "auto t = e.sb.INTERNAL_get_sandbox_function_name<int>(\"echo_int\"); sink(e, t);")
    add("f", "function-address API with an object type: INTERNAL_get_sandbox_function_ptr<int>(application address)", "auto t = e.sb.INTERNAL_get_sandbox_function_ptr<int>(e.raw()); sink(e, t);")
    add("f", "function-address API with a function-pointer OBJECT type (pointer to pointer)", "auto t = e.sb.INTERNAL_get_sandbox_function_ptr<fnp>(e.raw()); sink(e, t);")
    add("g", "function-address API with a function type (control)", "auto t = e.sb.INTERNAL_get_sandbox_function_name<int(int)>(\"echo_int\"); sink(e, t);")
    # a class object that converts to a raw pointer as the right operand of tainted number + x: the sum is a raw pointer
    add("f", "tainted<long> + std::reference_wrapper<int*> (sum is an application pointer)", "int* rp = e.raw(); std::reference_wrapper<int*> ref(rp); auto t = e.T_<long>() + ref; sink(e, t);")
    add("f", "tainted<int> + handle class convertible to int* (sum is an application pointer)", "struct Hd { int* p; operator int*() const { return p; } }; Hd h{ e.raw() }; auto t = e.T_<int>() + h; sink(e, t);")
    # pointers held by a wrapper of ANOTHER sandbox type (here: a noop sandbox, whose pointers are application addresses)
    add("r", "store volatile<pint> = tainted<pint,other>", FP + " e.V<pint>() = fp; sink(e, e.V<pint>());")
    add("r", "init tainted<pint,S> = tainted<pint,other>", FP + " tainted<pint, S> t = fp; sink(e, t);")
    add("r", "assign tainted<pint,S> = tainted<pint,other>", FP + " tainted<pint, S> t = nullptr; t = fp; sink(e, t);")
    add("r", "invoke(echo_ptr, tainted<pint,other>)", FP + " sink(e, Wd::invoke<pint(pint)>(e.sb, \"echo_ptr\", fp));")
    add("r", "invoke(echo_ptr, opaque<pint,other>)", FP + " sink(e, Wd::invoke<pint(pint)>(e.sb, \"echo_ptr\", fp.to_opaque()));")
    add("r", "store struct field ps->c = tainted<pint,other>", FP + " e.Vps().c = fp; sink(e, e.Vps().c);")
    add("r", "register_callback(returns opaque of other sandbox)", "auto c = e.sb.register_callback(cb_foreign_opaque_ret); sink_cb(e, c);")
    add("r", "register_callback(takes opaque of other sandbox)", "auto c = e.sb.register_callback(cb_foreign_opaque_param); sink_cb(e, c);")
    add("g", "store volatile<fnp> = callback of same type control", "e.V<fnp>() = e.CB(); sink(e, e.V<fnp>());")
    add("g", "invoke(take_fn, callback of same type) control", "sink(e, Wd::invoke<fnp(fnp)>(e.sb, \"take_fn\", e.CB()));")
    add("g", "store volatile<fnp> = function address of same type control", "auto fa = e.sb.INTERNAL_get_sandbox_function_name<int(int)>(\"echo_int\"); e.V<fnp>() = fa; sink(e, e.V<fnp>());")
    return [o for o in out if o]


def number(forms, base=1):
    return [(base + i, 'FORM(%d, "%s", "%s") { %s }' % (base + i, tag, desc, body)) for i, (tag, desc, body) in enumerate(forms)]
