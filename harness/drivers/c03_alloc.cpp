// C03, "allocating": the sandbox's allocator is sandboxed code -- whatever representation it answers with, the tainted pointer
// malloc_in_sandbox (and the copy path of copy_memory_or_grant_access, which allocates through it) hands to the application is
// null or inside THIS sandbox, or the call aborts.  Backend: the model with the base+offset translation of the in-repo test
// backend (nothing is confined by the translation itself) and mask-based 2-argument membership, two live instances, so that
// an answer can designate application memory, the other instance, or a range that starts inside and ends outside.
#include "world.hpp"

using namespace rlbox;
using Cfg = vsbx_ilp32m;
using Wd = world::W<Cfg>;
using S = Wd::S;

static uint64_t n_ok = 0, n_abort = 0;
static void report(const char* op, const std::string& d) { mon::violation(mon::fmt("C03/allocation/%s/outside-without-abort", op), d); }

int main(int argc, char** argv)
{
  mon::init("C03", argc, argv);
  mon::require("allocation/answers-judged");
  vsbx_library lib;
  lib.id = 1;
  Wd::sbx a, b;
  a.create_sandbox(&lib);
  b.create_sandbox(&lib);
  const uintptr_t base = Wd::base(a), size = Wd::size(a), obase = Wd::base(b);
  mon::Rng rng(mon::seed() * 17 + 3);
  std::vector<int64_t> answers = { int64_t(size), int64_t(size) + 64, int64_t(size) * 2 + 8, int64_t(size) - 2, int64_t(size) - 4, (int64_t(1) << 31) + 16, 0xfffffff0,
                                   int64_t(obase) - int64_t(base) + 128, int64_t(obase) - int64_t(base) + int64_t(size) - 4, 8, int64_t(size) / 2 };
  for (int i = 0; i < mon::tier(20, 400); i++) answers.push_back(static_cast<int64_t>(rng() & 0xffffffffu));
  S::unconfined_translation = true;
  for (int64_t ans : answers) {
    uint64_t rep = static_cast<uint64_t>(ans) & 0xffffffffu;
    if (rep == 0) continue;
    for (int op = 0; op < 3; op++) {
      const char* opn = op == 0 ? "malloc_in_sandbox<int>" : op == 1 ? "malloc_in_sandbox<int>(4)" : "copy_memory_or_grant_access";
      S::hostile_malloc_repr = rep;
      uintptr_t got = 0;
      mon::ctx("allocation/%s | the allocator answers %llu (region size %llu)", opn, (unsigned long long)rep, (unsigned long long)size);
      bool ab = mon::aborts([&] {
        if (op == 0) got = reinterpret_cast<uintptr_t>(a.malloc_in_sandbox<int>().UNSAFE_unverified());
        else if (op == 1) got = reinterpret_cast<uintptr_t>(a.malloc_in_sandbox<int>(4).UNSAFE_unverified());
        else { static char buf[16] = "0123456789abcde"; bool copied = false; got = reinterpret_cast<uintptr_t>(copy_memory_or_grant_access(a, buf, 16, false, copied).UNSAFE_unverified()); }
      });
      S::hostile_malloc_repr = 0;
      mon::evals();
      mon::distinct(mon::mix(rep, op));
      if (ab) { n_abort++; continue; }
      // C03 is about the address (an object that starts in the last bytes and straddles the end is the open finding of C03)
      bool inside = got == 0 || (got >= base && got - base < size);
      if (inside) { n_ok++; continue; }
      report(opn, mon::fmt("the sandbox's allocator answered with the representation %llu; %s returned the tainted pointer %p = base%+lld (region is %llu bytes; the other live instance is at base%+lld) without aborting",
                           (unsigned long long)rep, opn, (void*)got, (long long)(got - base), (unsigned long long)size, (long long)(obase - base)));
    }
  }
  S::unconfined_translation = false;
  mon::hit("allocation/answers-judged", n_ok + n_abort);
  mon::hit("allocation/aborted", n_abort);
  b.destroy_sandbox();
  a.destroy_sandbox();
  return mon::finish();
}
