// C18: distinct sandboxes can be used from distinct threads without
// interference.  ThreadSanitizer build; every thread runs PRNG operation
// sequences on its own instance(s) of the same backend type (create, malloc,
// example-based pointer stores/loads, pointer arithmetic, invocation with
// callbacks, register/unregister, app pointers, destroy, re-create) and checks
// its results against the single-threaded oracle.  Monitor state is per thread
// (merged after join) so the monitor adds no happens-before edges.
#ifdef C18_LOCK_WRAPPER
#  include "lockwrap.hpp"
#endif

#include "backends.hpp"
#include "cbpool.hpp"

#include <atomic>
#include <thread>

#ifdef RLBOX_EMBEDDER_PROVIDES_TLS_STATIC_VARIABLES
// the embedder-provided thread-local storage configuration of the noop and dylib backends
RLBOX_NOOP_SANDBOX_STATIC_VARIABLES();
RLBOX_DYLIB_SANDBOX_STATIC_VARIABLES();
#endif

using namespace rlbox;
using MCfg = vsbx_ilp32f; // FINDER style: every example-based translation walks the shared registry
using VS = rlbox_vsbx_sandbox<MCfg>;
using MW = world::W<MCfg>;

static int32_t mg_add(int32_t a, int32_t b) { return a + b; }
template<int L> static int32_t mg_lib_id() { return L; }
static int32_t mg_call_cb(uint32_t cb, int32_t x) { return VS::current()->call_indirect<int32_t, int32_t>(cb, x); }
static long n_add(long a, long b) { return a + b; }
static int n_call_cb(int (*cb)(int), int x) { return cb(x); }
static int n_lib_id() { return 1; }
BE_NATIVE(add_q, n_add); BE_NATIVE(call_cb_q, n_call_cb); BE_NATIVE(lib_id_q, n_lib_id);

struct TResult
{
  std::vector<std::pair<std::string, std::string>> viol;
  uint64_t ops = 0, creates = 0, destroys = 0, xlate = 0, invokes = 0, callbacks = 0, regs = 0;
  bool aborted = false;
};

static void worker_unblock_preemption();
template<typename B>
static void worker(int tid, uint64_t seed, int steps, TResult* out, std::atomic<int>* start_gate)
{
  using sbx = rlbox_sandbox<B>;
  using CB = sandbox_callback<int (*)(int), B>;
  constexpr bool foreign = be::BT<B>::foreign;
  mon::Rng rng(seed);
  const auto& fns = cbpool::pool<B, 24>();
  auto bad = [&](const char* cls, const std::string& d) { if (out->viol.size() < 5) out->viol.push_back({ mon::fmt("C18/%s/logic/%s", be::BT<B>::name(), cls), mon::fmt("thread %d: %s", tid, d.c_str()) }); };
  worker_unblock_preemption();
  start_gate->fetch_sub(1);
  while (start_gate->load() > 0) std::this_thread::yield(); // (a bare spin starves the other threads under valgrind's serialising scheduler)
  constexpr int NI = 2;
  std::unique_ptr<sbx> box[NI];
  std::unique_ptr<CB> cb[NI];
  int lib[NI] = { 0, 0 };
  int cbfn[NI] = { -1, -1 };
  for (int s = 0; s < steps; s++) {
    int i = rng.below(NI);
    out->ops++;
    if (!box[i]) {
      box[i] = std::make_unique<sbx>();
      lib[i] = rng.below(2);
      be::BT<B>::create(*box[i], lib[i]);
      out->creates++;
      continue;
    }
    sbx& sb = *box[i];
    // none of these operations may abort when a thread runs alone; an abort here is interference (or a defect) and is
    // recorded, after which this thread stops
    try {
    switch (rng.below(9)) {
      case 0: { // destroy (re-created later)
        cb[i].reset();
        cbfn[i] = -1;
        sb.destroy_sandbox();
        box[i].reset();
        out->destroys++;
        break;
      }
      case 1: { // allocation
        auto p = sb.template malloc_in_sandbox<int>(4);
        if (!p) { if constexpr (foreign) sb.get_sandbox_impl()->brk = 512; break; }
        if (!sb.is_pointer_in_sandbox_memory(p.UNSAFE_unverified())) bad("allocation-outside-own-sandbox", "");
        *p = 7;
        if ((*p).UNSAFE_unverified() != 7) bad("memory-access", "stored 7, read something else");
        sb.free_in_sandbox(p);
        break;
      }
      case 2:
      case 3: { // example-based pointer store / load (walks the registry with the FINDER model)
        auto cell = sb.template malloc_in_sandbox<int*>();
        auto tgt = sb.template malloc_in_sandbox<int>(8);
        if (!cell || !tgt) { if constexpr (foreign) sb.get_sandbox_impl()->brk = 512; break; }
        auto t2 = tgt + static_cast<int>(rng.below(8));
        *cell = t2;
        tainted<int*, B> back = *cell;
        out->xlate++;
        if (back.UNSAFE_unverified() != t2.UNSAFE_unverified()) bad("pointer-translated-relative-to-another-sandbox", mon::fmt("stored %p, loaded %p", (void*)t2.UNSAFE_unverified(), (void*)back.UNSAFE_unverified()));
        if constexpr (foreign) {
          uint32_t repr = MW::rd<uint32_t>(sb, reinterpret_cast<uintptr_t>(cell.UNSAFE_unverified()) - MW::base(sb));
          if (repr != reinterpret_cast<uintptr_t>(t2.UNSAFE_unverified()) - MW::base(sb)) bad("wrong-representation-stored", mon::fmt("%u", repr));
        }
        break;
      }
      case 4: { // invocation
        long a = static_cast<long>(rng.below(1000)), b = static_cast<long>(rng.below(1000));
        long r = be::BT<B>::template invoke<long(long, long)>(sb, "add_q", a, b).UNSAFE_unverified();
        long want = a + b + ((std::is_same_v<B, rlbox_dylib_sandbox> && lib[i]) ? 1000 : 0);
        out->invokes++;
        if (r != want) bad("invoke-wrong-result-or-library", mon::fmt("%ld+%ld -> %ld (library %d)", a, b, r, lib[i] + 1));
        if constexpr (!std::is_same_v<B, rlbox_noop_sandbox>) {
          int id = be::BT<B>::template invoke<int()>(sb, "lib_id_q").UNSAFE_unverified();
          if (id != lib[i] + 1) bad("invoke-reached-wrong-library", mon::fmt("instance over library %d answered %d", lib[i] + 1, id));
        }
        break;
      }
      case 5: { // register / unregister churn
        if (cb[i]) { cb[i].reset(); cbfn[i] = -1; }
        else { cbfn[i] = rng.below(24); cb[i] = std::make_unique<CB>(sb.register_callback(fns[cbfn[i]])); }
        out->regs++;
        break;
      }
      case 6: { // callback through the sandbox
        if (!cb[i]) break;
        cbpool::runlog.reset();
        int x = static_cast<int>(rng.below(100));
        int r = be::BT<B>::template invoke<int(int (*)(int), int)>(sb, "call_cb_q", *cb[i], x).UNSAFE_unverified();
        out->callbacks++;
        if (cbpool::runlog.runs != 1 || cbpool::runlog.last_fn != cbfn[i] || cbpool::runlog.sandbox != &sb || r != x + cbfn[i])
          bad("callback-saw-wrong-sandbox-or-function", mon::fmt("ran f%d %d time(s), sandbox %s", cbpool::runlog.last_fn, cbpool::runlog.runs, cbpool::runlog.sandbox == &sb ? "own" : "OTHER"));
        break;
      }
      case 7: { // app pointer
        static thread_local int target;
        auto ap = sb.get_app_pointer(&target);
        if (sb.lookup_app_ptr(ap.to_tainted()) != &target) bad("app-pointer-lookup", "");
        break;
      }
      default: { // pointer arithmetic + membership
        auto p = sb.template malloc_in_sandbox<long>(16);
        if (!p) { if constexpr (foreign) sb.get_sandbox_impl()->brk = 512; break; }
        auto q = p + 5;
        q -= 2;
        if (reinterpret_cast<uintptr_t>(q.UNSAFE_unverified()) - reinterpret_cast<uintptr_t>(p.UNSAFE_unverified()) != 3 * sizeof(tainted_volatile<long, B>)) bad("pointer-arithmetic", "");
        break;
      }
    }
    } catch (const std::exception& ex) {
      bad("operation-aborted-although-it-succeeds-single-threaded", mon::fmt("step %d: %s", s, ex.what()));
      out->aborted = true;
      break;
    }
  }
  if (out->aborted) return; // state of this thread's sandboxes is unknown after an abort: leave them
  for (int i = 0; i < NI; i++) {
    cb[i].reset();
    if (box[i]) { box[i]->destroy_sandbox(); out->destroys++; }
  }
}

// Hand-off: a sandbox belongs to whichever thread uses it, not to the thread that happened to call create_sandbox on it (a
// pool of sandboxes created up front and given to workers; a worker's sandbox torn down by the main thread after join).  At
// every moment each instance is used by exactly one thread, thread start and join order the hand-over, and every thread must
// observe what it would observe running alone with the same instances.
template<typename B>
static void exercise_handed_over(rlbox_sandbox<B>& sb, int libidx, mon::Rng& rng, TResult* out, const char* who)
{
  constexpr bool foreign = be::BT<B>::foreign;
  auto bad = [&](const char* cls, const std::string& d) { if (out->viol.size() < 5) out->viol.push_back({ mon::fmt("C18/%s/hand-over/%s", be::BT<B>::name(), cls), mon::fmt("%s: %s", who, d.c_str()) }); };
  try {
    for (int k = 0; k < 8; k++) {
      auto cell = sb.template malloc_in_sandbox<int*>();
      auto tgt = sb.template malloc_in_sandbox<int>(8);
      if (!cell || !tgt) { bad("allocation-failed", ""); return; }
      auto t2 = tgt + static_cast<int>(rng.below(8));
      *cell = t2;
      tainted<int*, B> back = *cell;
      out->xlate++;
      if (back.UNSAFE_unverified() != t2.UNSAFE_unverified()) bad("pointer-translated-relative-to-another-sandbox", mon::fmt("stored %p, loaded %p", (void*)t2.UNSAFE_unverified(), (void*)back.UNSAFE_unverified()));
      long a = static_cast<long>(rng.below(1000)), b = static_cast<long>(rng.below(1000));
      long r = be::BT<B>::template invoke<long(long, long)>(sb, "add_q", a, b).UNSAFE_unverified();
      long want = a + b + ((std::is_same_v<B, rlbox_dylib_sandbox> && libidx) ? 1000 : 0);
      out->invokes++;
      if (r != want) bad("invoke-wrong-result-or-library", mon::fmt("%ld+%ld -> %ld", a, b, r));
      (void)foreign;
      sb.free_in_sandbox(tgt);
      sb.free_in_sandbox(cell);
      out->ops += 4;
    }
    sb.destroy_sandbox();
    out->destroys++;
  } catch (const std::runtime_error& e) {
    bad("operation-aborted-on-a-thread-other-than-the-creator", e.what());
  }
}

template<typename B>
static void handoff(int nthreads, int rounds, uint64_t seed)
{
  using sbx = rlbox_sandbox<B>;
  mon::ctx("threads/%s | hand-over of sandboxes between the creating and the using thread, %d threads", be::BT<B>::name(), nthreads);
  TResult tot;
  for (int r = 0; r < rounds; r++) {
    std::vector<std::unique_ptr<sbx>> made(nthreads), back(nthreads);
    std::vector<TResult> res(nthreads);
    for (int t = 0; t < nthreads; t++) { made[t] = std::make_unique<sbx>(); be::BT<B>::create(*made[t], t & 1); tot.creates++; }
    std::vector<std::thread> th;
    for (int t = 0; t < nthreads; t++)
      th.emplace_back([&, t] {
        mon::Rng rng(seed * 77 + r * 131 + t);
        exercise_handed_over<B>(*made[t], t & 1, rng, &res[t], "sandbox created by the main thread, used and destroyed by a worker");
        back[t] = std::make_unique<sbx>();
        be::BT<B>::create(*back[t], (t + 1) & 1);
        res[t].creates++;
      });
    for (auto& t : th) t.join();
    for (int t = 0; t < nthreads; t++) {
      mon::Rng rng(seed * 79 + r * 137 + t);
      exercise_handed_over<B>(*back[t], (t + 1) & 1, rng, &res[t], "sandbox created by a worker, used and destroyed by the main thread after join");
      for (auto& v : res[t].viol) mon::violation(v.first, v.second);
      tot.ops += res[t].ops; tot.creates += res[t].creates; tot.destroys += res[t].destroys; tot.xlate += res[t].xlate; tot.invokes += res[t].invokes;
    }
    // an aborted destroy leaves the object half torn down: do not run its destructor logic further (leak it)
    for (int t = 0; t < nthreads; t++) { if (!res[t].viol.empty()) { made[t].release(); back[t].release(); } }
  }
  mon::evals(tot.ops);
  mon::hit("handed-over-sandbox-operations", tot.ops);
  mon::hit("handed-over-sandboxes-destroyed-by-another-thread", tot.destroys);
}

template<typename B>
static void run(int nthreads, int steps, uint64_t seed)
{
  handoff<B>(nthreads, 3, seed);
  std::vector<TResult> res(nthreads);
  std::vector<std::thread> th;
  // set once, before the workers exist: a crash in any of them is attributed to this workload (the thread-local operations
  // never crash when a thread runs alone)
  mon::ctx("threads/%s | %d threads, %d operations each", be::BT<B>::name(), nthreads, steps);
  std::atomic<int> gate{ nthreads };
  for (int t = 0; t < nthreads; t++) th.emplace_back(worker<B>, t, seed * 1000 + t, steps, &res[t], &gate);
  for (auto& t : th) t.join();
  TResult tot;
  for (auto& r : res) {
    for (auto& v : r.viol) mon::violation(v.first, v.second);
    tot.ops += r.ops; tot.creates += r.creates; tot.destroys += r.destroys; tot.xlate += r.xlate; tot.invokes += r.invokes; tot.callbacks += r.callbacks; tot.regs += r.regs;
  }
  mon::evals(tot.ops);
  mon::hit("thread-operations", tot.ops);
  mon::hit("creates-and-destroys", tot.creates + tot.destroys);
  mon::hit("example-based-translations", tot.xlate);
  mon::hit("invocations", tot.invokes);
  mon::hit("callbacks", tot.callbacks);
  mon::distinct(mon::mix(mon::mix(nthreads, seed), std::hash<std::string>()(be::BT<B>::name())));
  mon::distinct(mon::mix(tot.ops, tot.creates));
  mon::sample(mon::fmt("{\"backend\":\"%s\",\"threads\":%d,\"steps_per_thread\":%d,\"creates\":%llu,\"destroys\":%llu,\"translations\":%llu,\"invocations\":%llu,\"callbacks\":%llu}", be::BT<B>::name(), nthreads, steps,
                       (unsigned long long)tot.creates, (unsigned long long)tot.destroys, (unsigned long long)tot.xlate, (unsigned long long)tot.invokes, (unsigned long long)tot.callbacks));
}

// Preemption mode (uninstrumented build only): all threads are pinned to one CPU and a profiling timer delivers a signal
// every ~137 us of CPU time whose handler yields.  Threads are then suspended at arbitrary instructions -- also between two
// atomic operations that no race detector objects to -- while the others run whole time slices, which turns
// check-then-use windows of a few instructions into schedules that actually occur.  Oracles: the thread-local ones.
#include <sched.h>
#include <csignal>
#include <ctime>
#include <sys/time.h>
static volatile uint64_t g_preemptions = 0;
static void preempt_handler(int) { g_preemptions = g_preemptions + 1; sched_yield(); }
static bool g_preempt_mode = false;
static void enable_preemption(long usec)
{
  g_preempt_mode = true;
  cpu_set_t set;
  CPU_ZERO(&set);
  CPU_SET(sched_getcpu(), &set);
  sched_setaffinity(0, sizeof set, &set); // inherited by the workers created later
  struct sigaction sa;
  memset(&sa, 0, sizeof sa);
  sa.sa_handler = preempt_handler;
  sa.sa_flags = SA_RESTART;
  sigaction(SIGPROF, &sa, nullptr);
  // the main thread only joins: keep the signal away from it (workers unblock it for themselves)
  sigset_t m;
  sigemptyset(&m);
  sigaddset(&m, SIGPROF);
  pthread_sigmask(SIG_BLOCK, &m, nullptr);
  // high-resolution interval timer (the profiling itimers only have tick resolution)
  struct sigevent sev;
  memset(&sev, 0, sizeof sev);
  sev.sigev_notify = SIGEV_SIGNAL;
  sev.sigev_signo = SIGPROF;
  timer_t tm;
  if (timer_create(CLOCK_MONOTONIC, &sev, &tm) == 0) {
    itimerspec its{ { 0, usec * 1000 }, { 0, usec * 1000 } };
    timer_settime(tm, 0, &its, nullptr);
  }
}
static void worker_unblock_preemption()
{
  if (!g_preempt_mode) return;
  sigset_t m;
  sigemptyset(&m);
  sigaddset(&m, SIGPROF);
  pthread_sigmask(SIG_UNBLOCK, &m, nullptr);
}

int main(int argc, char** argv)
{
  mon::init("C18", argc, argv);
  if (const char* e = getenv("VERIF_C18_PREEMPT")) { enable_preemption(atol(e) > 0 ? atol(e) : 137); mon::hit("preemption-mode-runs"); }
  mon::require("thread-operations");
  mon::require("creates-and-destroys");
  static vsbx_library lib[2];
  lib[0].id = 1; lib[1].id = 2;
  lib[0].add("add_q", reinterpret_cast<void*>(&mg_add)); lib[0].add("call_cb_q", reinterpret_cast<void*>(&mg_call_cb)); lib[0].add("lib_id_q", reinterpret_cast<void*>(&mg_lib_id<1>));
  lib[1].add("add_q", reinterpret_cast<void*>(&mg_add)); lib[1].add("call_cb_q", reinterpret_cast<void*>(&mg_call_cb)); lib[1].add("lib_id_q", reinterpret_cast<void*>(&mg_lib_id<2>));
  be::BT<VS>::libs[0] = &lib[0]; be::BT<VS>::libs[1] = &lib[1];
  int which = argc > 1 ? atoi(argv[1]) : 0;
  int nthreads = argc > 2 ? atoi(argv[2]) : 4;
  int rep = argc > 3 ? atoi(argv[3]) : 0;
  int steps = mon::tier(6000, 40000);
  if (const char* e = getenv("VERIF_C18_STEPS")) steps = atoi(e); // helgrind runs
  uint64_t seed = mon::seed() * 47 + 18 + rep * 7919 + nthreads;
  if (which == 0) run<VS>(nthreads, steps, seed);
  else if (which == 1) run<rlbox_noop_sandbox>(nthreads, steps, seed);
  else run<rlbox_dylib_sandbox>(nthreads, steps / 2, seed);
  if (g_preemptions) mon::extra_num("forced_preemptions", g_preemptions);
#ifdef C18_LOCK_WRAPPER
  mon::extra_num("lock_acquisitions", c18::acquisitions.load());
  mon::extra_num("contended_shared_acquisitions", c18::contended_shared.load());
  mon::extra_num("contended_unique_acquisitions", c18::contended_unique.load());
  mon::hit("contended-lock-acquisitions", c18::contended_shared.load() + c18::contended_unique.load());
#endif
  return mon::finish();
}
