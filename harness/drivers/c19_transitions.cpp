// C19: transition notifications bracket every boundary crossing and stay
// balanced, also when a crossing ends by an abort surfaced as an exception.
// Online pushdown checker fed by RLBOX_TRANSITION_ACTION_IN/OUT, compared with
// the driver's own call tree; timing vector checked per sandbox.
// Build variants: -DHOOK_IN, -DHOOK_OUT, -DHOOK_TIME in any combination.
#include <cstdint>
#include <string>
#include <vector>

namespace c19 {
struct Ev { bool in; int kind; std::string name; void* ptr; void* state; };
inline std::vector<Ev> trace;
void hook(bool in, int kind, const char* name, void* ptr, void* state);
}
#ifdef HOOK_IN
#  define RLBOX_TRANSITION_ACTION_IN(type, func_name, func_ptr, state) ::c19::hook(true, static_cast<int>(type), func_name, func_ptr, state)
#endif
#ifdef HOOK_OUT
#  define RLBOX_TRANSITION_ACTION_OUT(type, func_name, func_ptr, state) ::c19::hook(false, static_cast<int>(type), func_name, func_ptr, state)
#endif
#ifdef HOOK_TIME
#  define RLBOX_MEASURE_TRANSITION_TIMES
#endif

#include "backends.hpp"

void c19::hook(bool in, int kind, const char* name, void* ptr, void* state) { trace.push_back({ in, kind, name ? name : "", ptr, state }); }

using namespace rlbox;
using MCfg = CFG;
using VS = rlbox_vsbx_sandbox<MCfg>;
using MP = typename MCfg::P;
template<typename T> using MG = ref::guest_t<MCfg, T>;

static uint64_t n_trees = 0, n_trace_ok = 0, n_abort_runs = 0, n_timing_ok = 0, n_caught = 0, n_dtor_unwind = 0;
static void report(const char* backend, const char* what, const char* cls, const std::string& d) { mon::violation(mon::fmt("C19/%s/%s/%s", backend, what, cls), d); }

// ------------------------------------------------------------------ the tree
struct InvNode { int sbx; std::vector<int> cbs; bool dtor = false; };  // tokens of the callbacks the guest makes; dtor: made from a destructor
struct CbNode { std::vector<int> invs; int chg = -1; bool catches = false; int dtor_inv = -1; }; // invocations made from the callback body; chg >= 0: the body first switches its sandbox's transition state
static std::vector<InvNode> g_inv;
static std::vector<CbNode> g_cb;
enum Phase { P_NONE, P_ARG, P_BODY, P_RESULT, P_CBARG };
// which conversions can abort depends on the ABI: invocation arguments / callback results narrow where the guest long is
// narrower than the host's; callback arguments narrow where the guest int is WIDER than the host's
template<typename B> constexpr bool narrows_to_guest() { if constexpr (be::BT<B>::foreign) return sizeof(ref::guest_t<CFG, long>) < sizeof(long); else return false; }
template<typename B> constexpr bool narrows_to_app() { if constexpr (be::BT<B>::foreign) return sizeof(ref::guest_t<CFG, int>) > sizeof(int); else return false; }
static Phase g_abort_phase = P_NONE;
static int g_abort_at = -1;

static int gen_inv(mon::Rng& rng, int depth, int& budget);
static int gen_cb(mon::Rng& rng, int depth, int& budget)
{
  int tok = g_cb.size();
  g_cb.push_back({});
  if (rng.below(4) == 0) g_cb[tok].chg = 1 + static_cast<int>(rng.below(62));
  g_cb[tok].catches = rng.below(3) == 0; // this callback body catches an abort of the invocations it makes and carries on
  if (rng.below(4) == 0 && budget > 0) {
    // a local object of the callback body whose destructor makes a (leaf, never failing) invocation: it runs on normal return
    // and also while an abort is unwinding through the body
    g_cb[tok].dtor_inv = static_cast<int>(g_inv.size());
    g_inv.push_back({ static_cast<int>(rng.below(2)), {}, true });
    budget--;
  }
  if (depth > 0) {
    int n = rng.below(10) < 7 ? 1 + rng.below(2) : 0;
    for (int i = 0; i < n && budget > 0; i++) { int id = gen_inv(rng, depth - 1, budget); g_cb[tok].invs.push_back(id); }
  }
  return tok;
}
static int gen_inv(mon::Rng& rng, int depth, int& budget)
{
  int id = g_inv.size();
  g_inv.push_back({ static_cast<int>(rng.below(2)), {} });
  budget--;
  int n = depth > 0 ? 1 + rng.below(3) : rng.below(2);
  for (int i = 0; i < n && budget > 0; i++) { int t = gen_cb(rng, depth, budget); g_inv[id].cbs.push_back(t); }
  return id;
}

// ---------------------------------------------------------------- backends
template<typename B> struct Ctx
{
  static inline rlbox_sandbox<B>* box[2] = { nullptr, nullptr };
  static inline sandbox_callback<long (*)(int), B>* cb[2] = { nullptr, nullptr };
  static inline void* sym[2] = { nullptr, nullptr }; // address the backend calls for "run_node"
};
// transition states: one pool per sandbox; the application may switch a sandbox's state at any time (here: from callback
// bodies, i.e. while invocations are in flight) and every notification must carry the state current at that moment
static char g_state_pool[2][64];
static int g_sim_state[2] = { 0, 0 };
static int sbx_of(const void* st) { auto c = static_cast<const char*>(st); return (c >= g_state_pool[0] && c < g_state_pool[0] + 64) ? 0 : ((c >= g_state_pool[1] && c < g_state_pool[1] + 64) ? 1 : -1); }
static int idx_of(const void* st) { int s = sbx_of(st); return s < 0 ? -1 : static_cast<int>(static_cast<const char*>(st) - g_state_pool[s]); }
static void* sim_state(int s) { return &g_state_pool[s][g_sim_state[s]]; }

// guest: makes the callbacks of node `id`
static MG<int> mg_run_node(MP cb, MG<long> id)
{
  MG<int> sum = 0;
  for (int tok : g_inv[static_cast<int>(id)].cbs) {
    MG<int> arg = static_cast<MG<int>>(tok);
    // a guest whose int is wider than the application's can pass a value the callback's int parameter cannot hold
    if constexpr (sizeof(MG<int>) > sizeof(int)) { if (g_abort_phase == P_CBARG && g_abort_at == tok) arg = (static_cast<MG<int>>(1) << 40) + tok; }
    sum += static_cast<MG<int>>(VS::current()->template call_indirect<MG<long>, MG<int>>(cb, arg));
  }
  return sum;
}
static int n_run_node(long (*cb)(int), long id)
{
  int sum = 0;
  for (int tok : g_inv[static_cast<int>(id)].cbs) sum += static_cast<int>(cb(tok));
  return sum;
}
BE_NATIVE(run_node, n_run_node);

template<typename B> static void run_inv(int id);
template<typename B, int Me>
static tainted<long, B> the_cb(rlbox_sandbox<B>&, tainted<int, B> tok)
{
  int t = tok.UNSAFE_unverified();
  struct DtorInv { int id; ~DtorInv() { if (id >= 0) { if (std::uncaught_exceptions() > 0) n_dtor_unwind++; run_inv<B>(id); } } } dtor_guard{ g_cb[t].dtor_inv };
  if (g_abort_phase == P_BODY && g_abort_at == t) rlbox::detail::dynamic_check(false, "injected abort in callback body");
  if (g_cb[t].chg >= 0) Ctx<B>::box[Me]->set_transition_state(&g_state_pool[Me][g_cb[t].chg]);
  for (int id : g_cb[t].invs) {
    if (g_cb[t].catches) { try { run_inv<B>(id); } catch (const std::exception&) { n_caught++; } }
    else run_inv<B>(id);
  }
  tainted<long, B> r = 1;
  if (g_abort_phase == P_RESULT && g_abort_at == t) r = static_cast<long>(1) << 40; // not representable in a 32-bit guest long
  return r;
}
template<typename B>
static void run_inv(int id)
{
  int s = g_inv[id].sbx;
  long arg = id;
  if (g_abort_phase == P_ARG && g_abort_at == id) arg = (static_cast<long>(1) << 40) + id; // unrepresentable argument
  be::BT<B>::template invoke<int(long (*)(int), long)>(*Ctx<B>::box[s], "run_node", *Ctx<B>::cb[s], arg);
}

// ------------------------------------------------- expected trace (simulation)
struct Abort {};
template<typename B> static void sim_cb(int tok, int s, std::vector<c19::Ev>& out, void* key[2]);
template<typename B>
static void sim_inv(int id, std::vector<c19::Ev>& out, void* key[2])
{
  int s = g_inv[id].sbx;
  out.push_back({ true, 0, "run_node", Ctx<B>::sym[s], sim_state(s) });
  try {
    // conversion aborts (unrepresentable argument / result) exist only where the guest ABI is narrower than the host's
    if (g_abort_phase == P_ARG && g_abort_at == id && narrows_to_guest<B>()) throw Abort{};
    for (int tok : g_inv[id].cbs) sim_cb<B>(tok, s, out, key);
  } catch (Abort&) {
    out.push_back({ false, 0, "run_node", Ctx<B>::sym[s], sim_state(s) });
    throw;
  }
  out.push_back({ false, 0, "run_node", Ctx<B>::sym[s], sim_state(s) });
}
template<typename B>
static void sim_cb(int tok, int s, std::vector<c19::Ev>& out, void* key[2])
{
  out.push_back({ false, 1, "", key[s], sim_state(s) });
  bool dtor_done = false;
  try {
    // the callback crossing is announced before its arguments are converted: an argument the application type cannot hold
    // ends the crossing (OUT ... IN) without running the body -- and without running the destructors of the body's locals
    if (g_abort_phase == P_CBARG && g_abort_at == tok && narrows_to_app<B>()) { dtor_done = true; throw Abort{}; }
    if (g_abort_phase == P_BODY && g_abort_at == tok) throw Abort{};
    if (g_cb[tok].chg >= 0) g_sim_state[s] = g_cb[tok].chg;
    for (int id : g_cb[tok].invs) {
      if (g_cb[tok].catches) { try { sim_inv<B>(id, out, key); } catch (Abort&) {} }
      else sim_inv<B>(id, out, key);
    }
    // the body's locals die before the interceptor converts the result
    if (g_cb[tok].dtor_inv >= 0) { dtor_done = true; sim_inv<B>(g_cb[tok].dtor_inv, out, key); }
    if (g_abort_phase == P_RESULT && g_abort_at == tok && narrows_to_guest<B>()) throw Abort{};
  } catch (Abort&) {
    if (g_cb[tok].dtor_inv >= 0 && !dtor_done) sim_inv<B>(g_cb[tok].dtor_inv, out, key); // destructor runs while the abort unwinds
    out.push_back({ true, 1, "", key[s], sim_state(s) });
    throw;
  }
  out.push_back({ true, 1, "", key[s], sim_state(s) });
}

static std::string evstr(const c19::Ev& e)
{
  return mon::fmt("%s(%s%s%s,s%d.st%d)", e.in ? "IN" : "OUT", e.kind == 0 ? "INV" : "CB", e.name.empty() ? "" : ":", e.name.c_str(), sbx_of(e.state), idx_of(e.state));
}
static std::string trstr(const std::vector<c19::Ev>& t)
{
  std::string s;
  for (size_t i = 0; i < t.size() && i < 60; i++) s += evstr(t[i]) + " ";
  if (t.size() > 60) s += "...";
  return s;
}

template<typename B>
static void one_run(const char* bn, void* key[2], bool expect_abort_possible, mon::Rng& rng)
{
  (void)rng;
  // expected full trace
  std::vector<c19::Ev> full;
  bool sim_aborted = false;
  for (int s = 0; s < 2; s++) { g_sim_state[s] = 0; Ctx<B>::box[s]->set_transition_state(&g_state_pool[s][0]); }
  try { sim_inv<B>(0, full, key); } catch (Abort&) { sim_aborted = true; }
  std::vector<c19::Ev> want;
  for (auto& e : full) {
#ifndef HOOK_IN
    if (e.in) continue;
#endif
#ifndef HOOK_OUT
    if (!e.in) continue;
#endif
    want.push_back(e);
  }
  c19::trace.clear();
#ifdef HOOK_TIME
  for (int s = 0; s < 2; s++) Ctx<B>::box[s]->clear_transition_times();
#endif
  mon::ctx("%s/tree | %zu invocations %zu callbacks abort phase %d at %d", bn, g_inv.size(), g_cb.size(), (int)g_abort_phase, g_abort_at);
  bool ab = mon::aborts([&] { run_inv<B>(0); });
  mon::evals();
  std::string desc = mon::fmt("tree with %zu invocations / %zu callbacks, abort injected: %s at %d", g_inv.size(), g_cb.size(),
                              g_abort_phase == P_NONE ? "none" : (g_abort_phase == P_ARG ? "argument conversion of invocation" : (g_abort_phase == P_BODY ? "body of callback" : (g_abort_phase == P_RESULT ? "result conversion of callback" : "argument conversion of callback"))), g_abort_at);
  if (ab != sim_aborted) {
    if (!expect_abort_possible && sim_aborted) return; // this backend cannot produce the injected abort (host ABI): not a case
    report(bn, "abort-injection", "abort-did-not-surface-as-expected", desc + mon::fmt(": aborted=%d expected=%d", ab, sim_aborted));
    return;
  }
  if (sim_aborted) n_abort_runs++;
  // ---- online pushdown check of the observed trace
  {
    std::vector<c19::Ev> stack;
    bool bad = false;
    std::string why;
    for (auto& e : c19::trace) {
#if defined(HOOK_IN) && defined(HOOK_OUT)
      bool opens = (e.kind == 0) ? e.in : !e.in; // invocation opens with IN, callback opens with OUT
      if (opens) {
        if (e.kind == 1 && (stack.empty() || stack.back().kind != 0)) { bad = true; why = "callback crossing outside an invocation"; break; }
        stack.push_back(e);
      } else {
        if (stack.empty() || stack.back().kind != e.kind || stack.back().ptr != e.ptr || sbx_of(stack.back().state) != sbx_of(e.state) || stack.back().name != e.name) { bad = true; why = "closing notification does not match the innermost open crossing: " + evstr(e); break; }
        stack.pop_back();
      }
#else
      (void)e;
#endif
    }
    if (!bad && !stack.empty()) { bad = true; why = mon::fmt("%zu crossings never closed", stack.size()); }
    if (bad) { report(bn, "trace-grammar", sim_aborted ? "unbalanced-after-abort" : "unbalanced", desc + ": " + why + "; observed " + trstr(c19::trace)); return; }
  }
  // ---- exact comparison with the driver's own call tree
  bool same = want.size() == c19::trace.size();
  for (size_t i = 0; same && i < want.size(); i++) {
    auto &a = want[i], &b = c19::trace[i];
    same = a.in == b.in && a.kind == b.kind && a.name == b.name && a.ptr == b.ptr && a.state == b.state;
  }
  if (!same) {
    report(bn, "trace-vs-call-tree", sim_aborted ? "mismatch-after-abort" : "mismatch", desc + ": expected " + trstr(want) + " observed " + trstr(c19::trace));
    return;
  }
  n_trace_ok++;
#ifdef HOOK_TIME
  // one timing record per crossing of each sandbox, in completion order
  for (int s = 0; s < 2; s++) {
    std::vector<c19::Ev> closes;
    for (auto& e : full) {
      bool closing = (e.kind == 0) ? !e.in : e.in;
      if (closing && sbx_of(e.state) == s) closes.push_back(e);
    }
    auto& tt = Ctx<B>::box[s]->process_and_get_transition_times();
    bool ok = tt.size() == closes.size();
    for (size_t i = 0; ok && i < closes.size(); i++) {
      bool inv = tt[i].invoke == rlbox_transition::INVOKE;
      ok = inv == (closes[i].kind == 0) && tt[i].ptr == closes[i].ptr && (inv ? (tt[i].name && closes[i].name == tt[i].name) : tt[i].name == nullptr) && tt[i].time >= 0;
    }
    if (!ok) { report(bn, "timing-records", sim_aborted ? "mismatch-after-abort" : "mismatch", desc + mon::fmt(": sandbox %d has %zu timing records for %zu crossings", s, tt.size(), closes.size())); return; }
    n_timing_ok++;
  }
#endif
}

// The transition state belongs to the sandbox object: set once, it is what every notification of every later crossing
// carries, also in later incarnations of the object (destroy_sandbox / create_sandbox), until the application sets another.
static uint64_t n_incarnation_ok = 0;
template<typename B, int Slot>
static tainted<long, B> leaf_cb(rlbox_sandbox<B>&, tainted<int, B>) { return 1; }
template<typename B>
static void incarnations(const char* bn)
{
  static char once_state;
  rlbox_sandbox<B> c;
  be::BT<B>::create(c, 0);
  c.set_transition_state(&once_state);
  for (int inc = 0; inc < 4; inc++) {
    mon::ctx("%s/incarnations | transition state set once, incarnation %d of the sandbox object", bn, inc);
    if (inc) {
      c.destroy_sandbox();
      be::BT<B>::create(c, inc & 1);
    }
    auto cbk = c.register_callback(leaf_cb<B, 7>);
    g_inv.clear(); g_cb.clear();
    g_inv.push_back({ 0, { 0, 1 } });
    g_cb.push_back({}); g_cb.push_back({});
    g_abort_phase = P_NONE; g_abort_at = -1;
    c19::trace.clear();
    be::BT<B>::template invoke<int(long (*)(int), long)>(c, "run_node", cbk, 0L);
    mon::evals();
    size_t want = 0;
#ifdef HOOK_IN
    want += 3;
#endif
#ifdef HOOK_OUT
    want += 3;
#endif
    bool ok = c19::trace.size() == want;
    for (auto& e : c19::trace) ok = ok && e.state == &once_state;
    if (!ok) {
      std::string got;
      for (auto& e : c19::trace) got += mon::fmt("%s(%s,%s) ", e.in ? "IN" : "OUT", e.kind == 0 ? "INV" : "CB", e.state == &once_state ? "state" : (e.state ? "OTHER" : "null"));
      report(bn, "incarnations", "notification-without-the-sandbox-state", mon::fmt("incarnation %d: %zu notifications (expected %zu): %s", inc, c19::trace.size(), want, got.c_str()));
      return;
    }
    n_incarnation_ok++;
#ifdef HOOK_TIME
    c.process_and_get_transition_times().clear();
#endif
  }
  c.destroy_sandbox();
}

template<typename B>
static void run_backend(mon::Rng& rng)
{
  const char* bn = be::BT<B>::name();
  incarnations<B>(bn);
  rlbox_sandbox<B> a, b;
  be::BT<B>::create(a, 0);
  be::BT<B>::create(b, 1);
  a.set_transition_state(&g_state_pool[0][0]);
  b.set_transition_state(&g_state_pool[1][0]);
  {
    auto ca = a.register_callback(the_cb<B, 0>);
    auto cb = b.register_callback(the_cb<B, 1>);
    Ctx<B>::box[0] = &a; Ctx<B>::box[1] = &b; Ctx<B>::cb[0] = &ca; Ctx<B>::cb[1] = &cb;
    Ctx<B>::sym[0] = be::BT<B>::symbol(a, "run_node");
    Ctx<B>::sym[1] = be::BT<B>::symbol(b, "run_node");
    void* key[2] = { reinterpret_cast<void*>(&the_cb<B, 0>), reinterpret_cast<void*>(&the_cb<B, 1>) };
    int trees = mon::tier(40, 3000);
    for (int t = 0; t < trees; t++) {
      g_inv.clear(); g_cb.clear();
      int budget = 14;
      gen_inv(rng, mon::tier(3, 5), budget);
      n_trees++;
      uint64_t fp = g_inv.size() * 131 + g_cb.size();
      for (auto& n : g_inv) fp = mon::mix(fp, n.sbx * 17 + n.cbs.size());
      mon::distinct(mon::mix(fp, std::hash<std::string>()(bn)));
      if (t < 2) mon::sample(mon::fmt("{\"backend\":\"%s\",\"invocations\":%zu,\"callbacks\":%zu,\"abort_positions\":%zu}", bn, g_inv.size(), g_cb.size(), g_inv.size() + 2 * g_cb.size()));
      // the abort-free run
      g_abort_phase = P_NONE; g_abort_at = -1;
      one_run<B>(bn, key, true, rng);
      // one run per node and phase with an abort injected there
      // (on a foreign ABI that does not narrow towards the guest the out-of-range values of these two phases are representable
      // and would only surface later, as an abort of some other conversion: not driven there)
      constexpr bool to_guest_phases = narrows_to_guest<B>() || !be::BT<B>::foreign;
      if constexpr (to_guest_phases)
        for (size_t id = 0; id < g_inv.size(); id++) { if (g_inv[id].dtor) continue; g_abort_phase = P_ARG; g_abort_at = id; one_run<B>(bn, key, narrows_to_guest<B>(), rng); }
      for (size_t tok = 0; tok < g_cb.size(); tok++) {
        g_abort_phase = P_BODY; g_abort_at = tok; one_run<B>(bn, key, true, rng);
        if constexpr (to_guest_phases) { g_abort_phase = P_RESULT; g_abort_at = tok; one_run<B>(bn, key, narrows_to_guest<B>(), rng); }
        if constexpr (narrows_to_app<B>()) { g_abort_phase = P_CBARG; g_abort_at = tok; one_run<B>(bn, key, true, rng); }
      }
    }
  }
  b.destroy_sandbox();
  a.destroy_sandbox();
}

int main(int argc, char** argv)
{
  mon::init("C19", argc, argv);
  mon::require("trace-equals-call-tree");
  mon::require("abort-injected-runs");
  mon::Rng rng(mon::seed() * 31 + 19 + mon::slice());
  static vsbx_library lib[2];
  for (int l = 0; l < 2; l++) { lib[l].id = l + 1; lib[l].add("run_node", reinterpret_cast<void*>(&mg_run_node)); be::BT<VS>::libs[l] = &lib[l]; }
  int which = argc > 1 ? atoi(argv[1]) : -1;
  if (which < 0 || which == 0) run_backend<VS>(rng);
  if (which < 0 || which == 1) run_backend<rlbox_noop_sandbox>(rng);
  mon::hit("trace-equals-call-tree", n_trace_ok);
  mon::hit("abort-injected-runs", n_abort_runs);
  mon::hit("timing-records-exact", n_timing_ok);
  mon::hit("state-carried-across-incarnations", n_incarnation_ok);
  mon::hit("aborts-caught-inside-a-callback-and-execution-continued", n_caught);
  mon::hit("invocations-made-from-a-destructor-while-an-abort-unwinds", n_dtor_unwind);
  mon::extra_num("call_trees", n_trees);
  std::string cfg;
#ifdef HOOK_IN
  cfg += "IN ";
#endif
#ifdef HOOK_OUT
  cfg += "OUT ";
#endif
#ifdef HOOK_TIME
  cfg += "TIMING";
#endif
  mon::hit("config/" + cfg);
  return mon::finish();
}
