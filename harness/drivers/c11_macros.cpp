// C11 through the DOCUMENTED spellings of a call.  The other C11 drivers go through INTERNAL_invoke_with_func_name/_ptr, which
// is what the public macros expand to; the macros themselves - sandbox.invoke_sandbox_function(f, ...), sandbox_invoke(sandbox,
// f, ...), sandbox.get_sandbox_function_address(f), sandbox_function_address(sandbox, f) - decide WHICH name is looked up and
// with WHICH type the call is made.  "calls exactly the function that was named" and "the tainted address obtained for a
// sandbox function is the backend's function-pointer representation of that same function" must hold for every spelling, also
// when the library's header renames an entry point with an object-like macro (zlib: #define gzopen gzopen64; OpenSSL: #define
// SSLv23_method TLS_method): the function that is named is then the one a plain call `f(args)` in the same translation unit
// would call - the one decltype(f), against which RLBox type-checks and converts the arguments, belongs to.
//
// Built twice: dynamic lookup (model backend by name in a vsbx_library; dylib backend over the guest shared objects) and
// RLBOX_USE_STATIC_CALLS (noop backend).
#ifdef C11M_STATIC
#  define RLBOX_USE_STATIC_CALLS() rlbox_noop_sandbox_lookup_symbol
#endif
#include "backends.hpp"

using namespace rlbox;

// ---- the sandboxed library's header, as the application sees it
extern "C" {
int api(int x);              // legacy entry point, still exported
long api_v2(long a, long b); // current entry point
long plain_fn(long a);       // not renamed (control)
}
#define api api_v2

static uint64_t n_ok = 0;
static void bad(const char* be, const char* spelling, const char* cls, const std::string& d) { mon::violation(mon::fmt("C11/%s/macro-spelling/%s/%s", be, spelling, cls), d); }

// which guest function ran last: 1 = legacy api(int), 2 = api_v2(long,long), 3 = plain_fn
static thread_local int g_ran = 0;
static thread_local long g_a0 = 0, g_a1 = 0;

#ifdef C11M_STATIC
// noop backend: the "library" is linked into the application
#  undef api
extern "C" int api(int x) { g_ran = 1; g_a0 = x; return x; }
#  define api api_v2
extern "C" long api_v2(long a, long b) { g_ran = 2; g_a0 = a; g_a1 = b; return a * 1000 + b; }
extern "C" long plain_fn(long a) { g_ran = 3; g_a0 = a; return a + 7; }
#else
using MCfg = vsbx_ilp32;
using VS = rlbox_vsbx_sandbox<MCfg>;
template<typename T> using MG = ref::guest_t<MCfg, T>;
static MG<int> mg_api(MG<int> x) { g_ran = 1; g_a0 = x; return x; }
static MG<long> mg_api_v2(MG<long> a, MG<long> b) { g_ran = 2; g_a0 = a; g_a1 = b; return a * 1000 + b; }
static MG<long> mg_plain(MG<long> a) { g_ran = 3; g_a0 = a; return a + 7; }
#endif

template<typename B>
static void judge_call(const char* be, const char* spelling, int want_fn, long want_ret, long got_ret, bool aborted)
{
  mon::evals();
  if (aborted) { bad(be, spelling, "legal-call-aborted", ""); return; }
  if (g_ran != want_fn) {
    bad(be, spelling, "another-function-than-the-one-named-ran",
        mon::fmt("the call names function %d (1 = legacy api(int), 2 = api_v2(long,long), 3 = plain_fn); function %d ran with arguments (%ld, %ld) and the application received %ld", want_fn, g_ran, g_a0, g_a1, got_ret));
    return;
  }
  if (got_ret != want_ret) { bad(be, spelling, "result-not-faithful", mon::fmt("%ld, expected %ld", got_ret, want_ret)); return; }
  n_ok++;
}

template<typename B, typename Create>
static void run(const char* be, Create&& create, bool has_log)
{
  rlbox_sandbox<B> sb;
  create(sb);
  auto ran_of_guest = [&]() {
    if constexpr (std::is_same_v<B, rlbox_dylib_sandbox>) {
    // dylib: the guest reports through its log: fn 20 = legacy api, 21 = api_v2, 22 = plain_fn
    int n = sb.template INTERNAL_invoke_with_func_name<int()>("guest_log_count").UNSAFE_unverified();
    g_ran = 0;
    if (n > 0) {
      long fn = sb.template INTERNAL_invoke_with_func_name<long(int, int)>("guest_log_get", n - 1, 1).UNSAFE_unverified();
      g_a0 = sb.template INTERNAL_invoke_with_func_name<long(int, int)>("guest_log_get", n - 1, 2).UNSAFE_unverified();
      g_a1 = sb.template INTERNAL_invoke_with_func_name<long(int, int)>("guest_log_get", n - 1, 3).UNSAFE_unverified();
      g_ran = fn == 20 ? 1 : (fn == 21 ? 2 : (fn == 22 ? 3 : 0));
    }
    sb.template INTERNAL_invoke_with_func_name<void()>("guest_log_clear");
    }
  };
  (void)has_log;
  for (int round = 0; round < mon::tier(3, 40); round++) {
    long a = 2 + round, b = 3 + round;
    long r = 0;
    bool ab;
    // renamed entry point, member spelling
    mon::ctx("%s/macro-spelling | sandbox.invoke_sandbox_function(api, %ld, %ld) with '#define api api_v2'", be, a, b);
    g_ran = 0;
    ab = mon::aborts([&] { r = sb.invoke_sandbox_function(api, a, b).UNSAFE_unverified(); });
    ran_of_guest();
    judge_call<B>(be, "invoke_sandbox_function(renamed)", 2, a * 1000 + b, r, ab);
    // renamed entry point, free spelling
    mon::ctx("%s/macro-spelling | sandbox_invoke(sandbox, api, %ld, %ld) with '#define api api_v2'", be, a, b);
    g_ran = 0;
    ab = mon::aborts([&] { r = sandbox_invoke(sb, api, a, b).UNSAFE_unverified(); });
    ran_of_guest();
    judge_call<B>(be, "sandbox_invoke(renamed)", 2, a * 1000 + b, r, ab);
    // control: a function that is not renamed, both spellings
    mon::ctx("%s/macro-spelling | plain_fn(%ld), both spellings", be, a);
    g_ran = 0;
    ab = mon::aborts([&] { r = sb.invoke_sandbox_function(plain_fn, a).UNSAFE_unverified(); });
    ran_of_guest();
    judge_call<B>(be, "invoke_sandbox_function(plain)", 3, a + 7, r, ab);
    g_ran = 0;
    ab = mon::aborts([&] { r = sandbox_invoke(sb, plain_fn, a).UNSAFE_unverified(); });
    ran_of_guest();
    judge_call<B>(be, "sandbox_invoke(plain)", 3, a + 7, r, ab);
    // the address of the named function: both spellings must give the representation of api_v2, and invoking through
    // nothing else than that address must reach api_v2
    mon::ctx("%s/macro-spelling | get_sandbox_function_address(api) / sandbox_function_address(sandbox, api)", be);
    using F2 = long (*)(long, long);
    tainted<F2, B> t1 = nullptr, t2 = nullptr, tw = nullptr;
    ab = mon::aborts([&] {
      t1 = sb.get_sandbox_function_address(api);
      t2 = sandbox_function_address(sb, api);
#ifdef C11M_STATIC
      tw = sb.template INTERNAL_get_sandbox_function_ptr<long(long, long)>(reinterpret_cast<void*>(&api_v2));
#else
      tw = sb.template INTERNAL_get_sandbox_function_name<long(long, long)>("api_v2");
#endif
    });
    mon::evals();
    if (ab) { bad(be, "function-address", "legal-request-aborted", ""); continue; }
    auto raw = [&](tainted<F2, B> t) { return reinterpret_cast<uintptr_t>(t.UNSAFE_unverified()); };
    if (raw(t1) != raw(tw)) bad(be, "get_sandbox_function_address(renamed)", "address-of-another-function", mon::fmt("%#lx, the function named is at %#lx", (unsigned long)raw(t1), (unsigned long)raw(tw)));
    else n_ok++;
    if (raw(t2) != raw(tw)) bad(be, "sandbox_function_address(renamed)", "address-of-another-function", mon::fmt("%#lx, the function named is at %#lx", (unsigned long)raw(t2), (unsigned long)raw(tw)));
    else n_ok++;
    mon::distinct(mon::mix(std::hash<std::string>()(be), round));
  }
  sb.destroy_sandbox();
}

int main(int argc, char** argv)
{
  mon::init("C11", argc, argv);
  mon::require("named-function-reached-through-the-documented-spellings");
#ifdef C11M_STATIC
  run<rlbox_noop_sandbox>("noop-static-calls", [](rlbox_sandbox<rlbox_noop_sandbox>& s) { s.create_sandbox(); }, false);
#else
  static vsbx_library lib;
  lib.id = 1;
  lib.add("api", reinterpret_cast<void*>(&mg_api));
  lib.add("api_v2", reinterpret_cast<void*>(&mg_api_v2));
  lib.add("plain_fn", reinterpret_cast<void*>(&mg_plain));
  int which = argc > 1 ? atoi(argv[1]) : -1;
  if (which < 0 || which == 0) run<VS>("model", [&](rlbox_sandbox<VS>& s) { s.create_sandbox(&lib); }, false);
  if (which < 0 || which == 1) run<rlbox_dylib_sandbox>("dylib", [](rlbox_sandbox<rlbox_dylib_sandbox>& s) { s.create_sandbox(getenv("VERIF_GUEST1")); }, true);
#endif
  mon::hit("named-function-reached-through-the-documented-spellings", n_ok);
  return mon::finish();
}
