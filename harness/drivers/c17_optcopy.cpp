// C17/C20 under optimised builds (g++ -O2, g++ -O3, clang -O2; no sanitizer): copies of tainted fixed-size arrays and of
// tainted_opaque values, then element access by index.  The library reaches elements of wrapped arrays through pointers of
// another class type; if the compiler's type-based alias analysis is allowed to believe that, whole-array copies look dead
// and vanish.  Oracle: the elements read (written) through operator[] are those of the array, for every element type.
#include "world.hpp"
#ifndef PROP_ID
#define PROP_ID "C17"
#endif

using namespace rlbox;
using Cfg = vsbx_ilp32;
using Wd = world::W<Cfg>;
using S = Wd::S;

static uint64_t n_ok = 0;
static void report(const char* op, const char*, const std::string& d) { mon::violation(mon::fmt(PROP_ID "/optimised-build/%s/elements-differ", op), d); }

template<typename T, size_t K>
__attribute__((noinline)) static void read_copy(tainted<T (*)[K], S> p, T* out)
{
  tainted<T[K], S> snapshot = *p;
  tainted<T[K], S> copy = snapshot;
  for (size_t i = 0; i < K; i++) out[i] = copy[i].copy_and_verify([](T v) { return v; });
}
template<typename T, size_t K> struct AppState { tainted_opaque<T[K], S> saved; };
template<typename T, size_t K>
__attribute__((noinline)) static void read_opaque(tainted<T (*)[K], S> p, T* out)
{
  AppState<T, K> st;
  tainted<T[K], S> snapshot = *p;
  st.saved = snapshot.to_opaque();
  tainted<T[K], S> back = from_opaque(st.saved);
  for (size_t i = 0; i < K; i++) out[i] = back[i].copy_and_verify([](T v) { return v; });
}
template<typename T, size_t K>
__attribute__((noinline)) static void write_copy(tainted<T (*)[K], S> dst, const T* in)
{
  tainted<T[K], S> a;
  for (size_t i = 0; i < K; i++) a[i] = in[i];
  tainted<T[K], S> copy = a;
  *dst = copy;
}
template<typename T, size_t K>
__attribute__((noinline)) static void index_tainted(tainted<T (*)[K], S> p, T* out, tainted<size_t, S> base)
{
  tainted<T[K], S> snapshot = *p;
  tainted<T[K], S> copy;
  copy = snapshot;
  for (size_t i = 0; i < K; i++) out[(i + 1) % K] = copy[(base + i + 1) % K].UNSAFE_unverified();
}

template<typename T, size_t K>
static void one(Wd::sbx& sb, mon::Rng& rng, const char* tn)
{
  using G = ref::guest_t<Cfg, T>;
  for (int round = 0; round < mon::tier(50, 2000); round++) {
    uint64_t off = 4096 + 64 * rng.below(512);
    T want[K], got[K];
    G* cell = reinterpret_cast<G*>(Wd::base(sb) + off);
    for (size_t i = 0; i < K; i++) { want[i] = static_cast<T>(static_cast<G>(1000 + 7 * i + rng.below(90))); cell[i] = static_cast<G>(want[i]); got[i] = T(); }
    auto p = Wd::tptr<T[K]>(sb, off);
    auto cmp = [&](const char* op) {
      mon::evals();
      bool same = true;
      for (size_t i = 0; i < K; i++) same = same && got[i] == want[i];
      if (same) { n_ok++; return; }
      std::string g, w;
      for (size_t i = 0; i < K; i++) { g += mon::fmt("%lld ", (long long)got[i]); w += mon::fmt("%lld ", (long long)want[i]); }
      report(op, tn, mon::fmt("%s[%zu]: the array holds {%s}, read through the copy: {%s}", tn, K, w.c_str(), g.c_str()));
    };
    mon::ctx("optimised-build/copy-then-index/%s | round %d", tn, round);
    read_copy<T, K>(p, got); cmp("copy-then-index");
    for (auto& x : got) x = T();
    mon::ctx("optimised-build/opaque-then-index/%s | round %d", tn, round);
    read_opaque<T, K>(p, got); cmp("opaque-then-index");
    for (auto& x : got) x = T();
    mon::ctx("optimised-build/assign-then-tainted-index/%s | round %d", tn, round);
    index_tainted<T, K>(p, got, static_cast<size_t>(K * rng.below(3))); cmp("assign-then-tainted-index");
    // write direction: elements set through operator[], array copied, stored; the guest image must hold them
    uint64_t off2 = 40960 + 64 * rng.below(256);
    auto q = Wd::tptr<T[K]>(sb, off2);
    mon::ctx("optimised-build/index-write-then-copy/%s | round %d", tn, round);
    write_copy<T, K>(q, want);
    G* cell2 = reinterpret_cast<G*>(Wd::base(sb) + off2);
    for (size_t i = 0; i < K; i++) got[i] = static_cast<T>(cell2[i]);
    cmp("index-write-then-copy");
  }
  mon::distinct(mon::mix(std::hash<std::string>()(tn), K));
}

int main(int argc, char** argv)
{
  mon::init(PROP_ID, argc, argv);
  mon::require("optimised-build/elements-identical");
  mon::Rng rng(mon::seed() * 67 + 17);
  vsbx_library lib;
  lib.id = 1;
  Wd::sbx sb;
  sb.create_sandbox(&lib);
  one<int, 8>(sb, rng, "int");
  one<long, 8>(sb, rng, "long");
  one<char, 8>(sb, rng, "char");
  one<short, 5>(sb, rng, "short");
  one<double, 3>(sb, rng, "double");
  one<unsigned long long, 4>(sb, rng, "unsigned long long");
  mon::hit("optimised-build/elements-identical", n_ok);
#if defined(__clang__)
  mon::sample("{\"compiler\":\"clang\"}");
#else
  mon::sample("{\"compiler\":\"gcc\"}");
#endif
  sb.destroy_sandbox();
  return mon::finish();
}
