// C04: pointer representation conversion is faithful, null-preserving and
// per-sandbox.  k simultaneously live instances created/destroyed in PRNG
// order; every pointer-carrying position; oracle = independent arithmetic on
// the owning instance's base; guest side read from raw memory / guest log.
#include "ptrpos.hpp"

using namespace pp;

static uint64_t n_toapp_ok = 0, n_tosbx_ok = 0, n_null_ok = 0;

static void report(const char* dir, const char* pos, const char* cls, const std::string& d)
{
  mon::violation(mon::fmt("C04/%s/%s/%s", dir, pos, cls), d);
}

static std::vector<std::unique_ptr<Inst>> live;
static vsbx_library lib1;

static const char* whose(uintptr_t a)
{
  static thread_local char buf[64];
  for (size_t i = 0; i < live.size(); i++)
    if (live[i]->inside(a)) { snprintf(buf, sizeof buf, "inside live instance #%zu", i); return buf; }
  return a == 0 ? "null" : "outside every live sandbox";
}

static void check_toapp(Inst& in, size_t which, ToApp pos, uint64_t off, int idx)
{
  mon::ctx("to-app/%s | instance %zu of %zu off=%llu", toapp_name[pos], which, live.size(), (unsigned long long)off);
  uintptr_t got = 0;
  bool ab = mon::aborts([&] { got = to_app(in, pos, off, idx); });
  mon::evals();
  if (off == 0) {
    if (ab || got != 0) report("to-app", toapp_name[pos], "zero-not-null", mon::fmt("%s: representation 0 became %p (%s), aborted=%d", Cfg::name, (void*)got, whose(got), ab));
    else n_null_ok++;
    return;
  }
  uintptr_t want = in.base + off;
  if (ab) report("to-app", toapp_name[pos], "spurious-abort", mon::fmt("%s: representation %llu in instance %zu/%zu aborted", Cfg::name, (unsigned long long)off, which, live.size()));
  else if (got != want)
    report("to-app", toapp_name[pos], (got != 0 && !in.inside(got)) ? "translated-relative-to-other-base" : "wrong-address",
           mon::fmt("%s: representation %llu read in instance %zu/%zu (base %p) became %p = base%+lld (%s)", Cfg::name, (unsigned long long)off, which, live.size(), (void*)in.base,
                    (void*)got, (long long)(got - in.base), whose(got)));
  else n_toapp_ok++;
}

static void check_tosbx(Inst& in, size_t which, ToSbx pos, uint64_t off, int idx)
{
  mon::ctx("to-sandbox/%s | instance %zu of %zu off=%llu", tosbx_name[pos], which, live.size(), (unsigned long long)off);
  uint64_t got = 0;
  vsbx_ev.outside_ptr_to_sandbox = 0;
  bool ab = mon::aborts([&] { got = to_sbx(in, pos, off ? in.base + off : 0, idx); });
  mon::evals();
  if (off == 0) {
    if (ab || got != 0) report("to-sandbox", tosbx_name[pos], "null-not-zero", mon::fmt("%s: null became representation %llu, aborted=%d", Cfg::name, (unsigned long long)got, ab));
    else n_null_ok++;
    return;
  }
  if (ab) report("to-sandbox", tosbx_name[pos], "spurious-abort", mon::fmt("%s: address base+%llu of instance %zu/%zu aborted", Cfg::name, (unsigned long long)off, which, live.size()));
  else if (got != off)
    report("to-sandbox", tosbx_name[pos], "wrong-representation",
           mon::fmt("%s: address base+%llu of instance %zu/%zu (base %p) reached the guest side as %llu (0x%llx)", Cfg::name, (unsigned long long)off, which, live.size(),
                    (void*)in.base, (unsigned long long)got, (unsigned long long)got));
  else n_tosbx_ok++;
}

// function pointers: table representations <-> addresses, per instance
static void fn_positions(Inst& in, size_t which)
{
  sbx& sb = *in.sb;
  using fn_t = int* (*)(int*);
  auto cell = Wd::tptr<fn_t>(sb, Inst::CELL);
  const char* names[] = { "echo_ptr", "call_cb_ptr", "take_struct", "ret_struct", "deref" };
  for (uint32_t k = 0; k < 5; k++) {
    mon::ctx("fn-pointer/%s | instance %zu", names[k], which);
    // to-application: the table index designates the k-th export of THIS instance's library
    Wd::wr<P>(sb, Inst::CELL, static_cast<P>(S::EXPORT_TABLE_BASE + k));
    tainted<fn_t, S> t = *cell;
    void* want = lib1.exports.at(names[k]).internal_addr;
    mon::evals(2);
    if (reinterpret_cast<void*>(t.UNSAFE_unverified()) != want)
      report("to-app", "load-function-pointer-cell", "wrong-address", mon::fmt("%s: table representation %u loaded as %p, export %s is %p", Cfg::name, S::EXPORT_TABLE_BASE + k, reinterpret_cast<void*>(t.UNSAFE_unverified()), names[k], want));
    else n_toapp_ok++;
    // to-sandbox: store it back (example path) and through the context path
    Wd::wr<P>(sb, Inst::CELL, static_cast<P>(0x5a5a5a5a));
    *cell = t;
    uint64_t back = Wd::rd<P>(sb, Inst::CELL), ctxr = static_cast<uint64_t>(t.UNSAFE_sandboxed(sb));
    if (back != S::EXPORT_TABLE_BASE + k || ctxr != S::EXPORT_TABLE_BASE + k)
      report("to-sandbox", "store-function-pointer-cell", "wrong-representation", mon::fmt("%s: export %s stored as %llu / %llu, table representation is %u", Cfg::name, names[k], (unsigned long long)back, (unsigned long long)ctxr, S::EXPORT_TABLE_BASE + k));
    else n_tosbx_ok++;
  }
  // a DATA pointer whose pointee is a function pointer (the address of a callback slot in sandbox memory): it is translated
  // like every other data pointer -- relative to the region, never through the function table -- on every path
  {
    const uint64_t off = Inst::CELL2;
    tainted<fn_t*, S> dp = Wd::tptr<fn_t>(sb, off);
    mon::ctx("pointer-to-function-pointer/UNSAFE_sandboxed | instance %zu", which);
    uint64_t rep = static_cast<uint64_t>(dp.UNSAFE_sandboxed(sb));
    mon::evals();
    if (rep != off) report("to-sandbox", "UNSAFE_sandboxed", "pointer-to-function-pointer/wrong-representation", mon::fmt("%s: the address base+%llu of a function-pointer cell has the representation %llu", Cfg::name, (unsigned long long)off, (unsigned long long)rep));
    else n_tosbx_ok++;
    mon::ctx("pointer-to-function-pointer/invoke-argument-and-result | instance %zu", which);
    world::glog.clear();
    uintptr_t backaddr = 0;
    bool ab = mon::aborts([&] { backaddr = reinterpret_cast<uintptr_t>(Wd::invoke<fn_t*(fn_t*)>(sb, "echo_ptr", dp).UNSAFE_unverified()); });
    mon::evals(2);
    if (ab || world::glog.size() != 1 || world::glog[0].a[0] != off)
      report("to-sandbox", "invoke-argument", "pointer-to-function-pointer/wrong-representation", mon::fmt("%s: base+%llu reached the guest as %llu%s", Cfg::name, (unsigned long long)off, world::glog.empty() ? 0ull : (unsigned long long)world::glog[0].a[0], ab ? " (aborted)" : ""));
    else n_tosbx_ok++;
    if (!ab && backaddr != in.base + off) report("to-app", "invoke-result", "pointer-to-function-pointer/wrong-address", mon::fmt("%s: representation %llu came back as base%+lld", Cfg::name, (unsigned long long)off, (long long)(backaddr - in.base)));
    else n_toapp_ok++;
    mon::ctx("pointer-to-function-pointer/assign_raw_pointer | instance %zu", which);
    Wd::wr<P>(sb, Inst::CELL, static_cast<P>(0x5a5a5a5a));
    bool ab2 = mon::aborts([&] { Wd::tptr<fn_t*>(sb, Inst::CELL)->assign_raw_pointer(sb, reinterpret_cast<fn_t*>(in.base + off)); });
    mon::evals();
    if (ab2 || Wd::rd<P>(sb, Inst::CELL) != off) report("to-sandbox", "assign_raw_pointer-volatile", "pointer-to-function-pointer/wrong-representation", mon::fmt("%s: cell holds %llu for base+%llu", Cfg::name, (unsigned long long)Wd::rd<P>(sb, Inst::CELL), (unsigned long long)off));
    else n_tosbx_ok++;
  }
  // callback trampoline and null
  Wd::wr<P>(sb, Inst::CELL, static_cast<P>(0x5a5a5a5a));
  *Wd::tptr<int* (*)(int*)>(sb, Inst::CELL) = in.cb;
  uint64_t tr = Wd::rd<P>(sb, Inst::CELL);
  if (tr != static_cast<uint64_t>(in.cb.UNSAFE_sandboxed(sb)) || !in.sb->get_sandbox_impl()->slot_live(tr)) report("to-sandbox", "store-callback-cell", "wrong-representation", mon::fmt("%llu", (unsigned long long)tr));
  else n_tosbx_ok++;
  Wd::wr<P>(sb, Inst::CELL, 0);
  tainted<fn_t, S> nt = *cell;
  if (nt.UNSAFE_unverified() != nullptr) report("to-app", "load-function-pointer-cell", "zero-not-null", "");
  else n_null_ok++;
  *cell = nullptr;
  if (Wd::rd<P>(sb, Inst::CELL) != 0) report("to-sandbox", "store-function-pointer-cell", "null-not-zero", "");
  else n_null_ok++;
  // a typed null function pointer with the sandbox at hand (argument path, UNSAFE_sandboxed): 0, not a table lookup of null
  {
    tainted<fn_t, S> nfp = nullptr;
    uint64_t r = 1;
    vsbx_ev.unknown_fn_to_sandbox = 0;
    bool ab = mon::aborts([&] { r = static_cast<uint64_t>(nfp.UNSAFE_sandboxed(sb)); });
    mon::evals();
    if (ab || r != 0 || vsbx_ev.unknown_fn_to_sandbox) report("to-sandbox", "UNSAFE_sandboxed", "null-function-pointer-not-zero", mon::fmt("%s: representation %llu%s%s", Cfg::name, (unsigned long long)r, ab ? " (aborted)" : "", vsbx_ev.unknown_fn_to_sandbox ? "; the backend was asked to translate the null function pointer" : ""));
    else n_null_ok++;
    vsbx_ev.unknown_fn_to_sandbox = 0;
  }
  mon::evals(4);
}

static std::vector<uint64_t> sample_offsets(Inst& in, mon::Rng& rng, int nrand)
{
  std::vector<uint64_t> o = { 0, 1, 2, 3, 4, 7, 8, 15, 16, 255, 256, 4095, 4096, 4097, in.size / 2 - 1, in.size / 2, in.size / 2 + 1, in.size - 4097, in.size - 4096,
                              in.size - 9, in.size - 8, in.size - 5, in.size - 4, in.size - 3, in.size - 2, in.size - 1 };
  for (uint64_t b = 1; b < in.size; b <<= 1) { o.push_back(b - 1); o.push_back(b); o.push_back(b + 1); }
  if (in.size > (size_t(1) << 31)) for (uint64_t d = 0; d < 16; d++) { o.push_back((uint64_t(1) << 31) + d * 4093); o.push_back(in.size - 1 - d * 65537); o.push_back(0x80000000ull - 1 - d); o.push_back(0xFFFF0000ull + d); }
  for (int i = 0; i < nrand; i++) o.push_back(rng.below(in.size));
  return o;
}

int main(int argc, char** argv)
{
  mon::init("C04", argc, argv);
  mon::require("to-app-address-exact");
  mon::require("to-sandbox-representation-exact");
  mon::require("null-preserved");
  mon::require("several-instances-live");
  mon::Rng rng(mon::seed() * 7 + 4 + mon::slice());
  fill_library(lib1, 1);
  // "big": 4 GiB regions (first MiB and last page committed): offsets >= 2^31 and near 2^32 exercise the full width of the representation
  bool big = argc > 1 && !strcmp(argv[1], "big");
  if (big) { S::region_size = size_t(1) << 32; S::commit_size = size_t(1) << 20; mon::hit("four-gib-region-runs"); }

  int rounds = mon::tier(24, 400);
  uint64_t registry_orders = 0;
  for (int round = 0; round < rounds; round++) {
    // churn the set of live instances: destroy some (any order), create some
    while (!live.empty() && rng.below(3) == 0) live.erase(live.begin() + rng.below(live.size()));
    size_t target = 1 + rng.below(big ? 4 : 8);
    while (live.size() < target) live.insert(live.begin() + rng.below(live.size() + 1), std::make_unique<Inst>(&lib1));
    while (live.size() > target) live.erase(live.begin() + rng.below(live.size()));
    if (live.size() > 1) mon::hit("several-instances-live");
    registry_orders++;
    for (size_t w = 0; w < live.size(); w++) {
      Inst& in = *live[w];
      fn_positions(in, w);
      auto offs = sample_offsets(in, rng, mon::tier(40, 400));
      for (uint64_t off : offs) {
        int idx = rng.below(4);
        mon::distinct(mon::mix(mon::mix(round, w), mon::mix(off, live.size())));
        for (int p = 0; p < A_NTOAPP; p++) check_toapp(in, w, static_cast<ToApp>(p), off, idx);
        // scratch area itself is used by the positions: keep target addresses
        // anywhere (stores do not touch the target, only the cells)
        for (int p = 0; p < S_NTOSBX; p++) check_tosbx(in, w, static_cast<ToSbx>(p), off, idx);
      }
    }
    // exhaustive: every offset of the region through the cell store/load
    // positions of one PRNG-chosen live instance per round
    if (!big && round < mon::tier(2, 8)) {
      size_t w = rng.below(live.size());
      Inst& in = *live[w];
      sbx& sb = *in.sb;
      mon::ctx("exhaustive-cell | instance %zu of %zu", w, live.size());
      auto cell = Wd::tptr<int*>(sb, Inst::CELL);
      uint64_t bad = 0;
      for (uint64_t off = 1; off < in.size; off++) {
        Wd::wr<P>(sb, Inst::CELL, static_cast<P>(off));
        tainted<int*, S> q = *cell;
        uintptr_t a = addr_of(q);
        Wd::wr<P>(sb, Inst::CELL, 0);
        *cell = q;
        uint64_t back = Wd::rd<P>(sb, Inst::CELL);
        uint64_t ctxr = static_cast<uint64_t>(q.UNSAFE_sandboxed(sb));
        if (a != in.base + off || back != off || ctxr != off) {
          if (bad++ < 3)
            report("round-trip", "cell", "not-faithful", mon::fmt("%s: representation %llu -> address base%+lld -> representation %llu (example path) / %llu (context path)", Cfg::name,
                                                                   (unsigned long long)off, (long long)(a - in.base), (unsigned long long)back, (unsigned long long)ctxr));
        }
      }
      mon::evals(in.size - 1);
      mon::distinct_counted(in.size - 1);
      n_toapp_ok += in.size - 1 - bad;
      n_tosbx_ok += in.size - 1 - bad;
      mon::hit("exhaustive-offset-sweeps");
    }
  }
  live.clear();
  mon::hit("to-app-address-exact", n_toapp_ok);
  mon::hit("to-sandbox-representation-exact", n_tosbx_ok);
  mon::hit("null-preserved", n_null_ok);
  mon::extra_num("live_set_configurations", registry_orders);
  mon::sample(mon::fmt("{\"abi\":\"%s\",\"positions_to_app\":%d,\"positions_to_sandbox\":%d,\"rounds\":%d}", Cfg::name, (int)A_NTOAPP, (int)S_NTOSBX, rounds));
  return mon::finish();
}
