// C07: sandbox-memory accesses use exactly the bytes and encoding of the
// sandbox ABI.  Stores: whole-region byte diff against snapshot (+) reference
// encoding; loads: value decoded from exactly the footprint bytes (surrounding
// bytes random); under ASan everything outside the footprint is poisoned during
// the access; objects at the first and last bytes of the region (guard pages).
#include "world.hpp"
#include "memmon.hpp"

using namespace rlbox;
using ref::i128;
using Cfg = CFG;
using Wd = world::W<Cfg>;
using S = Wd::S;
using P = typename Cfg::P;

enum E32 { EV_A = 0, EV_B = 1, EV_C = 77, EV_D = 0x7fffffff };
namespace ref { template<> struct tname<E32> { static constexpr const char* v = "enum E32"; }; }

struct MS { char c; long l; short s; unsigned long long ull; double d; int* p; bool b; unsigned char uc; long arr[2]; float fl; int (*fn)(int); E32 e; unsigned short us; };
struct GMS { char c; typename Cfg::L l; typename Cfg::S s; std::make_unsigned_t<typename Cfg::LL> ull; double d; P p; bool b; unsigned char uc; typename Cfg::L arr[2]; float fl; P fn; E32 e; std::make_unsigned_t<typename Cfg::S> us; };
#define sandbox_fields_reflection_c07_class_MS(f, g, ...)                                                                      \
  f(char, c, FIELD_NORMAL, ##__VA_ARGS__) g() f(long, l, FIELD_NORMAL, ##__VA_ARGS__) g() f(short, s, FIELD_NORMAL, ##__VA_ARGS__) g() \
  f(unsigned long long, ull, FIELD_NORMAL, ##__VA_ARGS__) g() f(double, d, FIELD_NORMAL, ##__VA_ARGS__) g()                      \
  f(int*, p, FIELD_NORMAL, ##__VA_ARGS__) g() f(bool, b, FIELD_NORMAL, ##__VA_ARGS__) g()                                         \
  f(unsigned char, uc, FIELD_NORMAL, ##__VA_ARGS__) g() f(long[2], arr, FIELD_NORMAL, ##__VA_ARGS__) g()                          \
  f(float, fl, FIELD_NORMAL, ##__VA_ARGS__) g() f(int (*)(int), fn, FIELD_NORMAL, ##__VA_ARGS__) g()                               \
  f(E32, e, FIELD_NORMAL, ##__VA_ARGS__) g() f(unsigned short, us, FIELD_NORMAL, ##__VA_ARGS__) g()
#define sandbox_fields_reflection_c07_allClasses(f, ...) f(MS, c07, ##__VA_ARGS__)
rlbox_load_structs_from_library(c07);

static memmon::Region R;
static Wd::sbx* SB;
static uint64_t n_store_ok = 0, n_load_ok = 0;

static void report(const char* op, const char* tn, const char* cls, const std::string& d) { mon::violation(mon::fmt("C07/%s/%s/%s", op, tn, cls), d); }

template<typename T> using G = ref::guest_t<Cfg, T>;

template<typename T>
static void encode(unsigned char* out, T v)
{
  if constexpr (std::is_floating_point_v<T>) std::memcpy(out, &v, sizeof(T));
  else if constexpr (std::is_enum_v<T>) memmon::enc_int(out, sizeof(T), static_cast<i128>(static_cast<std::underlying_type_t<T>>(v)));
  else memmon::enc_int(out, sizeof(G<T>), ref::val(v));
}
template<typename T>
static bool same_val(T a, T b) { return std::memcmp(&a, &b, sizeof(T)) == 0; }
template<typename T>
static std::string vstr(T v)
{
  if constexpr (std::is_floating_point_v<T>) return mon::fmt("%a", (double)v);
  else if constexpr (std::is_enum_v<T>) return std::to_string((long long)v);
  else return mon::i128s(ref::val(v));
}

// values representable on both sides
template<typename T>
static std::vector<T> values(mon::Rng& rng, int nrand)
{
  std::vector<T> out;
  if constexpr (std::is_same_v<T, bool>) out = { false, true };
  else if constexpr (std::is_enum_v<T>) out = { EV_A, EV_B, EV_C, EV_D };
  else if constexpr (std::is_floating_point_v<T>) {
    out = { T(0), T(-0.0), T(1.5), T(-2.25), std::numeric_limits<T>::max(), std::numeric_limits<T>::denorm_min(), std::numeric_limits<T>::infinity() };
    for (int i = 0; i < nrand; i++) { T x; uint64_t b = rng(); std::memcpy(&x, &b, sizeof(T)); if (x == x) out.push_back(x); }
  } else {
    for (T v : ref::boundaries<T>()) if (ref::fits<G<T>>(ref::val(v))) out.push_back(v);
    for (int i = 0; i < nrand; i++) { T v = static_cast<T>(rng.interesting()); if (ref::fits<G<T>>(ref::val(v))) out.push_back(v); }
    // every byte of the guest encoding non-trivial
    for (int i = 0; i < 4; i++) { G<T> g = static_cast<G<T>>(rng() | 0x8181818181818181ull); if (ref::fits<T>(ref::val(g))) out.push_back(static_cast<T>(g)); }
  }
  return out;
}

template<typename T>
static std::vector<uint64_t> offsets(mon::Rng& rng, size_t footprint)
{
  std::vector<uint64_t> o;
  size_t al = alignof(G<T>) > 8 ? 8 : alignof(G<T>);
  if constexpr (std::is_floating_point_v<T> || std::is_enum_v<T>) al = alignof(T);
  o.push_back(0);                      // first object of the region
  o.push_back(R.size - footprint);     // object ending at the last byte (guard page behind it)
  o.push_back(8);
  o.push_back(R.size - footprint - 8 + ((footprint % 8) ? (8 - footprint % 8) % 8 : 0));
  for (int i = 0; i < mon::tier(3, 12); i++) o.push_back(4096 + 8 * rng.below((R.size - 8192) / 8));
#if !MON_ASAN
  // plain build: every alignment 0..15 (unaligned accesses are outside what
  // UBSan's alignment check accepts, so they are only driven here)
  uint64_t b = 8192 + 16 * rng.below(1000);
  for (int a = 0; a < 16; a++) o.push_back(b + a);
  (void)al;
#else
  for (int i = 0; i < 4; i++) o.push_back(20000 + al * rng.below(1000));
#endif
  std::vector<uint64_t> out;
  for (auto x : o) {
#if MON_ASAN
    if (x % al) x -= x % al;
#endif
    if (x + footprint <= R.size) out.push_back(x);
  }
  return out;
}

static bool g_abort_permitted = false;
// run `access` with everything but the permitted footprints poisoned; then
// compare the region with snapshot (+) expected bytes at off
template<typename F>
static bool store_case(const char* op, const char* tn, uint64_t off, const unsigned char* expect, size_t len, F&& access, const std::string& what, uint64_t roff = 0, size_t rlen = 0)
{
  mon::ctx("store/%s/%s | off=%llu %s", op, tn, (unsigned long long)off, what.c_str());
  R.snapshot();
  R.poison_except2(off, len, roff, rlen);
  bool ab = mon::aborts(access);
  R.unpoison();
  mon::evals();
  if (ab && g_abort_permitted) { n_store_ok++; return true; } // C16 lets an update abort when the promoted result does not fit the cell
  if (ab) { report(op, tn, "spurious-abort", mon::fmt("%s: store at offset %llu (%s) aborted", Cfg::name, (unsigned long long)off, what.c_str())); return false; }
  int64_t d = R.diff(off, expect, len);
  if (d >= 0) {
    bool infoot = static_cast<uint64_t>(d) >= off && static_cast<uint64_t>(d) < off + len;
    report(op, tn, infoot ? "wrong-encoding" : "bytes-outside-footprint-changed",
           mon::fmt("%s: store of %s at offset %llu: footprint is %zu bytes, expected image %s, memory holds %s; first differing byte at offset %lld", Cfg::name, what.c_str(),
                    (unsigned long long)off, len, memmon::hex(expect, len).c_str(), memmon::hex(R.mem() + off, len).c_str(), (long long)d));
    return false;
  }
  n_store_ok++;
  return true;
}

template<typename T, typename F>
static void load_case(const char* op, uint64_t off, size_t len, T expect, F&& access, const char* tn = nullptr)
{
  if (!tn) tn = ref::name<T>();
  mon::ctx("load/%s/%s | off=%llu v=%s", op, tn, (unsigned long long)off, vstr(expect).c_str());
  R.snapshot();
  R.poison_except(off, len);
  T got{};
  bool ab = mon::aborts([&] { got = access(); });
  R.unpoison();
  mon::evals();
  if (ab) { report(op, tn, "spurious-abort", mon::fmt("%s: load at offset %llu aborted", Cfg::name, (unsigned long long)off)); return; }
  if (R.diff_none() >= 0) report(op, tn, "load-modified-memory", mon::fmt("%s: load at offset %llu changed sandbox memory", Cfg::name, (unsigned long long)off));
  if (!same_val(got, expect))
    report(op, tn, "wrong-decoding", mon::fmt("%s: %zu-byte footprint %s at offset %llu decodes to %s under the sandbox ABI, load returned %s", Cfg::name, len, memmon::hex(R.mem() + off, len).c_str(),
                                              (unsigned long long)off, vstr(expect).c_str(), vstr(got).c_str()));
  else n_load_ok++;
}

template<typename T>
static void scalar(mon::Rng& rng)
{
  const char* tn = ref::name<T>();
  constexpr size_t gs = std::is_enum_v<T> ? sizeof(T) : sizeof(G<T>);
  auto vs = values<T>(rng, mon::tier(4, 60));
  for (uint64_t off : offsets<T>(rng, gs)) {
    auto p = Wd::tptr<T>(*SB, off);
    for (T v : vs) {
      unsigned char img[16];
      encode<T>(img, v);
      std::string what = mon::fmt("%s %s", tn, vstr(v).c_str());
      mon::distinct(mon::mix(mon::mix(std::hash<std::string>()(tn), off), std::hash<std::string>()(vstr(v))));
      R.randomize(rng, int64_t(off) - 64, int64_t(off + gs) + 64);
      // ---- stores
      store_case("store-plain", tn, off, img, gs, [&] { *p = v; }, what);
      R.randomize(rng, off, off + gs);
      tainted<T, S> tv = v;
      store_case("store-tainted", tn, off, img, gs, [&] { *p = tv; }, what);
      R.randomize(rng, off, off + gs);
      store_case("store-index0", tn, off, img, gs, [&] { p[0] = v; }, what);
      // from another sandbox cell (volatile to volatile)
      {
        uint64_t qoff = (off < R.size / 2) ? R.size / 2 + 1024 : 1024;
        auto q = Wd::tptr<T>(*SB, qoff);
        std::memcpy(R.mem() + qoff, img, gs);
        R.randomize(rng, off, off + gs);
        store_case("store-from-volatile", tn, off, img, gs, [&] { *p = *q; }, what, qoff, gs);
      }
      // ---- loads (surroundings random, footprint = reference encoding)
      R.randomize(rng, int64_t(off) - 64, int64_t(off + gs) + 64);
      std::memcpy(R.mem() + off, img, gs);
      load_case<T>("load-to-tainted", off, gs, v, [&] { tainted<T, S> t = *p; return t.UNSAFE_unverified(); });
      load_case<T>("load-unverified", off, gs, v, [&] { return (*p).UNSAFE_unverified(); });
      load_case<T>("load-copy_and_verify-volatile", off, gs, v, [&] { return (*p).copy_and_verify([](T x) { return x; }); });
      load_case<T>("load-copy_and_verify-pointer", off, gs, v, [&] { return p.copy_and_verify([](std::unique_ptr<T> x) { return *x; }); });
      load_case<T>("load-copy_and_verify_range-1", off, gs, v, [&] { return p.copy_and_verify_range([](std::unique_ptr<T[]> x) { return x[0]; }, 1); });
      // the same pointer with a cv-qualified pointee (programs of the pinned tree: they have to stay programs)
      load_case<T>("load-copy_and_verify-pointer-to-volatile", off, gs, v, [&] { return sandbox_reinterpret_cast<volatile T*>(p).copy_and_verify([](std::unique_ptr<T> x) { return *x; }); });
      load_case<T>("load-copy_and_verify-pointer-to-const", off, gs, v, [&] { return sandbox_reinterpret_cast<const T*>(p).copy_and_verify([](std::unique_ptr<T> x) { return *x; }); });
      load_case<T>("load-index0", off, gs, v, [&] { tainted<T, S> t = p[0]; return t.UNSAFE_unverified(); });
    }
    // ---- hostile encodings: a bool cell of the sandbox can hold any byte; what reaches the application must be a valid bool
    //      object (0 or 1) or the load must abort -- never an application bool whose byte is 2..255
    if constexpr (std::is_same_v<T, bool>) {
      for (unsigned hb : { 2u, 3u, 0x80u, 0xfeu, 0xffu }) {
        auto judge = [&](const char* op, bool ab, unsigned char got) {
          mon::evals();
          if (!ab && got > 1) report(op, "bool", "invalid-bool-object-delivered", mon::fmt("sandbox cell at base+%llu holds byte 0x%02x: the application received a bool whose byte is 0x%02x (no abort)", (unsigned long long)off, hb, got));
          else n_load_ok++;
        };
        R.mem()[off] = static_cast<unsigned char>(hb);
        unsigned char got = 0;
        mon::ctx("load/hostile-bool/load-to-tainted | off=%llu byte 0x%02x", (unsigned long long)off, hb);
        bool ab = mon::aborts([&] { tainted<bool, S> t = *p; std::memcpy(&got, &t, 1); });
        judge("load-to-tainted/hostile-encoding", ab, got);
        got = 0;
        mon::ctx("load/hostile-bool/copy_and_verify-volatile | off=%llu byte 0x%02x", (unsigned long long)off, hb);
        ab = mon::aborts([&] { (*p).copy_and_verify([&](bool v) { std::memcpy(&got, &v, 1); return 0; }); });
        judge("load-copy_and_verify-volatile/hostile-encoding", ab, got);
        got = 0;
        mon::ctx("load/hostile-bool/copy_and_verify-pointer | off=%llu byte 0x%02x", (unsigned long long)off, hb);
        ab = mon::aborts([&] { p.copy_and_verify([&](std::unique_ptr<bool> v) { std::memcpy(&got, v.get(), 1); return 0; }); });
        judge("load-copy_and_verify-pointer/hostile-encoding", ab, got);
        got = 0;
        mon::ctx("load/hostile-bool/copy_and_verify_range | off=%llu byte 0x%02x", (unsigned long long)off, hb);
        ab = mon::aborts([&] { p.copy_and_verify_range([&](std::unique_ptr<bool[]> v) { std::memcpy(&got, v.get(), 1); return 0; }, 1); });
        judge("load-copy_and_verify_range/hostile-encoding", ab, got);
        got = 0;
        mon::ctx("load/hostile-bool/UNSAFE_sandboxed | off=%llu byte 0x%02x", (unsigned long long)off, hb);
        ab = mon::aborts([&] { bool v = (*p).UNSAFE_sandboxed(*SB); std::memcpy(&got, &v, 1); });
        judge("load-UNSAFE_sandboxed/hostile-encoding", ab, got);
      }
    }
    // ---- read-modify-write forms on integers and floats
    if constexpr (!std::is_enum_v<T> && !std::is_same_v<T, bool>) {
      for (T v : vs) {
        T d = static_cast<T>(1);
        // plain semantics must be defined and representable in the cell
        if constexpr (std::is_integral_v<T>) {
          using Pm = decltype(v + d);
          i128 r = ref::val(static_cast<Pm>(v)) + 1;
          if (std::is_signed_v<Pm> && !ref::fits<Pm>(r)) continue;
        }
        T res = v;
        res += d; // the plain operator: the promoted sum converted back to T (wraps for types narrower than int)
        if constexpr (std::is_integral_v<T>) {
          // the cell must be able to hold the plain result (otherwise the update may abort: judged by C06/C16, not here)
          if (!ref::fits<G<T>>(ref::val(res))) continue;
          g_abort_permitted = !ref::fits<G<T>>(ref::val(static_cast<decltype(v + d)>(v)) + 1);
        }
        unsigned char img0[16], img1[16];
        encode<T>(img0, v);
        encode<T>(img1, res);
        R.randomize(rng, int64_t(off) - 64, int64_t(off + gs) + 64);
        std::memcpy(R.mem() + off, img0, gs);
        store_case("compound-add", tn, off, img1, gs, [&] { *p += d; }, mon::fmt("%s %s += 1", tn, vstr(v).c_str()));
        std::memcpy(R.mem() + off, img0, gs);
        store_case("pre-increment", tn, off, img1, gs, [&] { ++(*p); }, mon::fmt("++ on %s %s", tn, vstr(v).c_str()));
        g_abort_permitted = false;
      }
    }
  }
  // ---- arrays of T: element store, whole-array store/load, range and array copy_and_verify
  constexpr size_t N = 3;
  for (uint64_t off : offsets<T>(rng, gs * N)) {
    auto pa = Wd::tptr<T[N]>(*SB, off);
    auto pe = Wd::tptr<T>(*SB, off);
    for (int round = 0; round < mon::tier(3, 30); round++) {
      T v[N];
      unsigned char img[16 * N];
      for (size_t i = 0; i < N; i++) { v[i] = vs[rng.below(vs.size())]; encode<T>(img + i * gs, v[i]); }
      std::string what = mon::fmt("%s[3] {%s,%s,%s}", tn, vstr(v[0]).c_str(), vstr(v[1]).c_str(), vstr(v[2]).c_str());
      R.randomize(rng, int64_t(off) - 64, int64_t(off + gs * N) + 64);
      tainted<T[N], S> ta;
      for (size_t i = 0; i < N; i++) ta[i] = v[i];
      store_case("store-whole-array", tn, off, img, gs * N, [&] { *pa = ta; }, what);
      size_t k = rng.below(N);
      R.randomize(rng, off, off + gs * N);
      store_case("store-array-element", tn, off + k * gs, img + k * gs, gs, [&] { (*pa)[k] = v[k]; }, what);
      R.randomize(rng, off, off + gs * N);
      store_case("store-pointer-index", tn, off + k * gs, img + k * gs, gs, [&] { pe[k] = v[k]; }, what);
      // loads
      R.randomize(rng, int64_t(off) - 64, int64_t(off + gs * N) + 64);
      std::memcpy(R.mem() + off, img, gs * N);
      for (size_t i = 0; i < N; i++) {
        load_case<T>("load-whole-array", off, gs * N, v[i], [&] { tainted<T[N], S> t = *pa; return t[i].UNSAFE_unverified(); });
        load_case<T>("load-array-element", off + i * gs, gs, v[i], [&] { tainted<T, S> t = (*pa)[i]; return t.UNSAFE_unverified(); });
        load_case<T>("load-copy_and_verify_range-3", off, gs * N, v[i], [&] { return pe.copy_and_verify_range([&](std::unique_ptr<T[]> x) { return x[i]; }, N); });
        if constexpr (!std::is_same_v<T, bool>)
          load_case<T>("load-copy_and_verify-array", off, gs * N, v[i], [&] { return (*pa).copy_and_verify([&](std::array<T, N> x) { return x[i]; }); });
      }
    }
  }
  // ---- multi-dimensional arrays T[2][3]: whole-array store/load, row and element access
  if constexpr (!std::is_enum_v<T>) {
    constexpr size_t A = 2, B = 3, NN = A * B;
    for (uint64_t off : offsets<T>(rng, gs * NN)) {
      auto pm = Wd::tptr<T[A][B]>(*SB, off);
      for (int round = 0; round < mon::tier(2, 20); round++) {
        T v[NN];
        unsigned char img[16 * NN];
        for (size_t i = 0; i < NN; i++) { v[i] = vs[rng.below(vs.size())]; encode<T>(img + i * gs, v[i]); }
        std::string what = mon::fmt("%s[2][3] {%s,%s,%s,%s,%s,%s}", tn, vstr(v[0]).c_str(), vstr(v[1]).c_str(), vstr(v[2]).c_str(), vstr(v[3]).c_str(), vstr(v[4]).c_str(), vstr(v[5]).c_str());
        R.randomize(rng, int64_t(off) - 64, int64_t(off + gs * NN) + 64);
        tainted<T[A][B], S> tm;
        for (size_t i = 0; i < A; i++) for (size_t j = 0; j < B; j++) tm[i][j] = v[i * B + j];
        store_case("store-whole-2d-array", tn, off, img, gs * NN, [&] { *pm = tm; }, what);
        {
          uint64_t qoff = (off < R.size / 2) ? R.size / 2 + 3072 : 3072;
          std::memcpy(R.mem() + qoff, img, gs * NN);
          R.randomize(rng, off, off + gs * NN);
          store_case("store-2d-array-from-volatile", tn, off, img, gs * NN, [&] { *pm = *Wd::tptr<T[A][B]>(*SB, qoff); }, what, qoff, gs * NN);
        }
        size_t i0 = rng.below(A), j0 = rng.below(B), k = i0 * B + j0;
        R.randomize(rng, off, off + gs * NN);
        store_case("store-2d-array-element", tn, off + k * gs, img + k * gs, gs, [&] { (*pm)[i0][j0] = v[k]; }, what);
        R.randomize(rng, int64_t(off) - 64, int64_t(off + gs * NN) + 64);
        std::memcpy(R.mem() + off, img, gs * NN);
        for (size_t i = 0; i < A; i++) for (size_t j = 0; j < B; j++) {
          load_case<T>("load-whole-2d-array", off, gs * NN, v[i * B + j], [&] { tainted<T[A][B], S> t = *pm; return t[i][j].UNSAFE_unverified(); });
          load_case<T>("load-2d-array-element", off + (i * B + j) * gs, gs, v[i * B + j], [&] { tainted<T, S> t = (*pm)[i][j]; return t.UNSAFE_unverified(); });
          load_case<T>("load-2d-array-row", off + i * B * gs, gs * B, v[i * B + j], [&] { tainted<T[B], S> t = (*pm)[i]; return t[j].UNSAFE_unverified(); });
        }
      }
    }
  }
  static int ns = 0;
  if (ns++ < 5) mon::sample(mon::fmt("{\"abi\":\"%s\",\"type\":\"%s\",\"host_bytes\":%zu,\"guest_bytes\":%zu}", Cfg::name, tn, sizeof(T), gs));
}

// ---------------------------------------------------------------- pointers
static tainted<int, S> a_callback(rlbox_sandbox<S>&, tainted<int, S> x) { return x; }
static typename Cfg::I guest_fn(typename Cfg::I x) { return x; }
static char internal_tag;

static void pointers(mon::Rng& rng)
{
  const size_t gs = sizeof(P);
  auto cb = SB->register_callback(a_callback);
  for (uint64_t off : offsets<int*>(rng, gs)) {
    auto pp = Wd::tptr<int*>(*SB, off);
    auto pf = Wd::tptr<int (*)(int)>(*SB, off);
    for (int i = 0; i < mon::tier(6, 60); i++) {
      uint64_t target = 1 + rng.below(R.size - 1);
      unsigned char img[8];
      memmon::enc_int(img, gs, static_cast<i128>(target));
      auto tp = Wd::tptr<int>(*SB, target);
      std::string what = mon::fmt("int* -> offset %llu", (unsigned long long)target);
      R.randomize(rng, int64_t(off) - 64, int64_t(off + gs) + 64);
      store_case("store-tainted", "int*", off, img, gs, [&] { *pp = tp; }, what);
      load_case<uintptr_t>("load-to-tainted", off, gs, Wd::base(*SB) + target, [&] { tainted<int*, S> t = *pp; return reinterpret_cast<uintptr_t>(t.UNSAFE_unverified()); }, "int*");
      load_case<uintptr_t>("load-copy_and_verify_address", off, gs, Wd::base(*SB) + target, [&] { return (*pp).copy_and_verify_address([](uintptr_t a) { return a; }); }, "int*");
      R.randomize(rng, off, off + gs);
      unsigned char zero[8] = { 0 };
      store_case("store-nullptr", "int*", off, zero, gs, [&] { *pp = nullptr; }, "nullptr");
    }
    // function pointers: callback trampoline and sandbox function address
    {
      unsigned char img[8];
      memmon::enc_int(img, gs, static_cast<i128>(static_cast<uint64_t>(cb.UNSAFE_sandboxed(*SB))));
      R.randomize(rng, int64_t(off) - 64, int64_t(off + gs) + 64);
      store_case("store-callback", "int(*)(int)", off, img, gs, [&] { *pf = cb; }, "sandbox_callback");
      auto fa = SB->template INTERNAL_get_sandbox_function_name<int(int)>("guest_fn");
      memmon::enc_int(img, gs, static_cast<i128>(S::EXPORT_TABLE_BASE + 0));
      R.randomize(rng, off, off + gs);
      store_case("store-function-address", "int(*)(int)", off, img, gs, [&] { *pf = fa; }, "sandbox function address");
      // load of the function-pointer cell: exactly the P-sized footprint, decoded through the table
      R.randomize(rng, int64_t(off) - 64, int64_t(off + gs) + 64);
      std::memcpy(R.mem() + off, img, gs);
      load_case<uintptr_t>("load-to-tainted", off, gs, reinterpret_cast<uintptr_t>(&internal_tag), [&] { tainted<int (*)(int), S> t = *pf; return reinterpret_cast<uintptr_t>(t.UNSAFE_unverified()); }, "int(*)(int)");
      unsigned char zero[8] = { 0 };
      R.randomize(rng, off, off + gs);
      store_case("store-nullptr", "int(*)(int)", off, zero, gs, [&] { *pf = nullptr; }, "nullptr");
    }
  }
  // arrays of pointers
  for (uint64_t off : offsets<int*>(rng, gs * 3)) {
    auto pa = Wd::tptr<int* [3]>(*SB, off);
    uint64_t tg[3];
    unsigned char img[24];
    tainted<int* [3], S> ta;
    for (int i = 0; i < 3; i++) {
      tg[i] = rng.below(4) == 0 ? 0 : 1 + rng.below(R.size - 1);
      memmon::enc_int(img + i * gs, gs, static_cast<i128>(tg[i]));
      if (tg[i]) ta[i] = Wd::tptr<int>(*SB, tg[i]); else ta[i] = nullptr;
    }
    R.randomize(rng, int64_t(off) - 64, int64_t(off + gs * 3) + 64);
    store_case("store-whole-array", "int*", off, img, gs * 3, [&] { *pa = ta; }, "int*[3]");
    for (int i = 0; i < 3; i++)
      load_case<uintptr_t>("load-whole-array", off, gs * 3, tg[i] ? Wd::base(*SB) + tg[i] : 0, [&] { tainted<int* [3], S> t = *pa; return reinterpret_cast<uintptr_t>(t[i].UNSAFE_unverified()); }, "int*");
  }
  // multi-dimensional arrays of pointers int*[2][3]: whole store/load, and sandbox-to-sandbox copy (1-D and 2-D)
  for (uint64_t off : offsets<int*>(rng, gs * 6)) {
    auto pm = Wd::tptr<int* [2][3]>(*SB, off);
    uint64_t tg[6];
    unsigned char img[48];
    tainted<int* [2][3], S> tm;
    for (int i = 0; i < 6; i++) {
      tg[i] = rng.below(4) == 0 ? 0 : 1 + rng.below(R.size - 1);
      memmon::enc_int(img + i * gs, gs, static_cast<i128>(tg[i]));
      if (tg[i]) tm[i / 3][i % 3] = Wd::tptr<int>(*SB, tg[i]); else tm[i / 3][i % 3] = nullptr;
    }
    R.randomize(rng, int64_t(off) - 64, int64_t(off + gs * 6) + 64);
    store_case("store-whole-2d-array", "int*", off, img, gs * 6, [&] { *pm = tm; }, "int*[2][3]");
    for (int i = 0; i < 6; i++)
      load_case<uintptr_t>("load-whole-2d-array", off, gs * 6, tg[i] ? Wd::base(*SB) + tg[i] : 0, [&] { tainted<int* [2][3], S> t = *pm; return reinterpret_cast<uintptr_t>(t[i / 3][i % 3].UNSAFE_unverified()); }, "int*");
    // sandbox-to-sandbox: the source image elsewhere in the region, destination randomised
    uint64_t qoff = (off < R.size / 2) ? R.size / 2 + 2048 : 2048;
    std::memcpy(R.mem() + qoff, img, gs * 6);
    R.randomize(rng, off, off + gs * 6);
    store_case("store-2d-array-from-volatile", "int*", off, img, gs * 6, [&] { *pm = *Wd::tptr<int* [2][3]>(*SB, qoff); }, "int*[2][3] = int*[2][3]", qoff, gs * 6);
    R.randomize(rng, off, off + gs * 6);
    store_case("store-array-from-volatile", "int*", off, img, gs * 3, [&] { *Wd::tptr<int* [3]>(*SB, off) = *Wd::tptr<int* [3]>(*SB, qoff); }, "int*[3] = int*[3]", qoff, gs * 3);
  }
  cb.unregister();
}

// ------------------------------------------------------------ struct fields
template<typename T, typename Acc>
static void field(const char* fname, uint64_t soff, size_t foff, mon::Rng& rng, Acc&& acc)
{
  constexpr size_t gs = std::is_enum_v<T> ? sizeof(T) : sizeof(G<T>);
  std::string tn = mon::fmt("MS.%s", fname);
  for (T v : values<T>(rng, mon::tier(2, 20))) {
    unsigned char img[16];
    encode<T>(img, v);
    R.randomize(rng, soff, soff + sizeof(GMS));
    store_case("store-struct-field", tn.c_str(), soff + foff, img, gs, [&] { acc(Wd::tptr<MS>(*SB, soff)) = v; }, mon::fmt("%s %s", ref::name<T>(), vstr(v).c_str()));
    R.randomize(rng, soff, soff + sizeof(GMS));
    std::memcpy(R.mem() + soff + foff, img, gs);
    load_case<T>("load-struct-field", soff + foff, gs, v, [&] { tainted<T, S> t = acc(Wd::tptr<MS>(*SB, soff)); return t.UNSAFE_unverified(); }, tn.c_str());
    // through copy_and_verify of the struct pointer: footprint is the whole struct image
    if constexpr (!std::is_same_v<T, bool>) {
      // the whole struct is read: every other field must hold a value that is
      // valid and representable on the application side (zero is, everywhere)
      std::memset(R.mem() + soff, 0, sizeof(GMS));
      std::memcpy(R.mem() + soff + foff, img, gs);
      // pointer fields must hold representable content for the whole-struct load
      load_case<T>("load-struct-copy_and_verify", soff, sizeof(GMS), v,
                   [&] { return Wd::tptr<MS>(*SB, soff).copy_and_verify([&](std::unique_ptr<tainted<MS, S>> m) { return acc(m.get()).UNSAFE_unverified(); }); }, tn.c_str());
    }
  }
}

static void struct_fields(mon::Rng& rng)
{
  std::vector<uint64_t> soffs = { 0, R.size - sizeof(GMS), 4096 + 8 * rng.below(1000) };
  for (uint64_t soff : soffs) {
    if (soff % alignof(GMS)) soff -= soff % alignof(GMS);
    // integers that narrow under ILP32/NARROW: restrict whole-struct reads to valid images by zeroing first
    std::memset(R.mem() + soff, 0, sizeof(GMS));
    field<char>("c", soff, offsetof(GMS, c), rng, [](auto p) -> auto& { return p->c; });
    field<long>("l", soff, offsetof(GMS, l), rng, [](auto p) -> auto& { return p->l; });
    field<short>("s", soff, offsetof(GMS, s), rng, [](auto p) -> auto& { return p->s; });
    field<unsigned long long>("ull", soff, offsetof(GMS, ull), rng, [](auto p) -> auto& { return p->ull; });
    field<double>("d", soff, offsetof(GMS, d), rng, [](auto p) -> auto& { return p->d; });
    field<bool>("b", soff, offsetof(GMS, b), rng, [](auto p) -> auto& { return p->b; });
    field<unsigned char>("uc", soff, offsetof(GMS, uc), rng, [](auto p) -> auto& { return p->uc; });
    field<float>("fl", soff, offsetof(GMS, fl), rng, [](auto p) -> auto& { return p->fl; });
    field<E32>("e", soff, offsetof(GMS, e), rng, [](auto p) -> auto& { return p->e; });
    field<unsigned short>("us", soff, offsetof(GMS, us), rng, [](auto p) -> auto& { return p->us; });
    field<long>("arr[1]", soff, offsetof(GMS, arr) + sizeof(typename Cfg::L), rng, [](auto p) -> auto& { return p->arr[1]; });
    // the struct loaded as a whole (converting constructor, copy_and_verify on the struct pointer): every field, the data
    // pointer included, must decode exactly as the field-wise loads above do -- relative to THIS sandbox
    for (int round = 0; round < mon::tier(6, 60); round++) {
      GMS img;
      std::memset(&img, 0, sizeof img);
      uint64_t poff = 8 * (1 + rng.below(R.size / 8 - 2));
      img.c = 'q'; img.l = 1234 + round; img.s = -7; img.ull = 99; img.d = 2.5; img.p = static_cast<P>(poff); img.b = true; img.uc = 200; img.arr[0] = 5; img.arr[1] = -6; img.fl = 1.5f; img.fn = 0; img.e = EV_C; img.us = 200;
      std::memcpy(R.mem() + soff, &img, sizeof img);
      auto ps = Wd::tptr<MS>(*SB, soff);
      auto judge_whole = [&](const char* op, tainted<MS, S>& t) {
        mon::evals();
        uintptr_t gotp = reinterpret_cast<uintptr_t>(t.p.UNSAFE_unverified());
        bool ok = gotp == R.base + poff && t.c.UNSAFE_unverified() == 'q' && t.l.UNSAFE_unverified() == 1234 + round && t.s.UNSAFE_unverified() == -7 && t.ull.UNSAFE_unverified() == 99 &&
                  t.d.UNSAFE_unverified() == 2.5 && t.b.UNSAFE_unverified() == true && t.uc.UNSAFE_unverified() == 200 && t.arr[0].UNSAFE_unverified() == 5 && t.arr[1].UNSAFE_unverified() == -6 &&
                  t.fl.UNSAFE_unverified() == 1.5f && t.fn.UNSAFE_unverified() == nullptr && t.e.UNSAFE_unverified() == EV_C && t.us.UNSAFE_unverified() == 200;
        if (ok) { n_load_ok++; return; }
        report(op, "struct MS", "wrong-decoding",
               mon::fmt("%s: whole-struct load of the image at offset %llu: pointer field holds the representation %llu = base+%llu, loaded as %p (base is %p)%s", Cfg::name, (unsigned long long)soff,
                        (unsigned long long)poff, (unsigned long long)poff, (void*)gotp, (void*)R.base, gotp == R.base + poff ? "; another field differs" : ""));
      };
      mon::ctx("load/whole-struct/convert-to-tainted | off=%llu", (unsigned long long)soff);
      { tainted<MS, S> t; bool ab = mon::aborts([&] { t = *ps; }); if (ab) report("load-whole-struct", "struct MS", "spurious-abort", Cfg::name); else judge_whole("load-whole-struct", t); }
      mon::ctx("load/whole-struct/copy_and_verify-pointer | off=%llu", (unsigned long long)soff);
      { tainted<MS, S> t; bool ab = mon::aborts([&] { ps.copy_and_verify([&](std::unique_ptr<tainted<MS, S>> v) { t = *v; return 0; }); }); if (ab) report("load-whole-struct-copy_and_verify", "struct MS", "spurious-abort", Cfg::name); else judge_whole("load-whole-struct-copy_and_verify", t); }
      // the unwrappers applied directly to the sandbox-resident struct (p->UNSAFE_unverified(), (*p).unverified_safe_because):
      // a plain application struct comes back, decoded like the loads above
      auto judge_plain = [&](const char* op, const MS& m) {
        mon::evals();
        uintptr_t gotp = reinterpret_cast<uintptr_t>(m.p);
        bool ok = gotp == R.base + poff && m.c == 'q' && m.l == 1234 + round && m.s == -7 && m.ull == 99 && m.d == 2.5 && m.b == true && m.uc == 200 && m.arr[0] == 5 && m.arr[1] == -6 &&
                  m.fl == 1.5f && m.fn == nullptr && m.e == EV_C && m.us == 200;
        if (ok) { n_load_ok++; return; }
        report(op, "struct MS", "wrong-decoding",
               mon::fmt("%s: image at offset %llu: pointer field holds the representation %llu = base+%llu, delivered as %p (base is %p)%s", Cfg::name, (unsigned long long)soff,
                        (unsigned long long)poff, (unsigned long long)poff, (void*)gotp, (void*)R.base, gotp == R.base + poff ? "; another field differs" : ""));
      };
      mon::ctx("load/whole-struct/UNSAFE_unverified-on-the-cell | off=%llu", (unsigned long long)soff);
      { MS m{}; bool ab = mon::aborts([&] { m = ps->UNSAFE_unverified(); }); if (ab) report("load-whole-struct-unverified", "struct MS", "spurious-abort", Cfg::name); else judge_plain("load-whole-struct-unverified", m); }
      { MS m{}; bool ab = mon::aborts([&] { m = (*ps).unverified_safe_because("monitor"); }); if (ab) report("load-whole-struct-unverified_safe_because", "struct MS", "spurious-abort", Cfg::name); else judge_plain("load-whole-struct-unverified_safe_because", m); }
      // ((*p).UNSAFE_sandboxed(sandbox) on a struct cell is not a program: the member calls an overload that does not exist)
    }
    std::memset(R.mem() + soff, 0, sizeof(GMS));
  }
}

int main(int argc, char** argv)
{
  mon::init("C07", argc, argv);
  mon::require("store-footprint-exact");
  mon::require("load-decoding-exact");
  mon::Rng rng(mon::seed() * 13 + 7 + mon::slice());
  vsbx_library lib;
  lib.id = 1;
  lib.add("guest_fn", reinterpret_cast<void*>(&guest_fn), &internal_tag);
  Wd::sbx sb;
  sb.create_sandbox(&lib);
  SB = &sb;
  R.attach(Wd::base(sb), Wd::size(sb));
  int part = argc > 1 ? atoi(argv[1]) : -1;
  // parts are slices of the type list so the runs are parallel
#define RUN(k, ...) if (part < 0 || part == k) { __VA_ARGS__; }
  RUN(0, scalar<bool>(rng); scalar<char>(rng); scalar<long>(rng); scalar<float>(rng); scalar<char16_t>(rng))
  RUN(1, scalar<signed char>(rng); scalar<unsigned char>(rng); scalar<unsigned long>(rng); scalar<double>(rng); scalar<char32_t>(rng))
  RUN(2, scalar<short>(rng); scalar<unsigned short>(rng); scalar<long long>(rng); scalar<E32>(rng); scalar<wchar_t>(rng))
  RUN(3, scalar<int>(rng); scalar<unsigned int>(rng); scalar<unsigned long long>(rng); pointers(rng); struct_fields(rng))
  // enumerations whose underlying type has another width under this ABI: the sandbox image must have the width the ABI
  // gives the underlying type (a real guest compiled for this ABI lays the enum out like that)
  if (part < 0 || part == 2) {
    enum class EL : long { A = 1, B = 0x1234 };
    enum EUL : unsigned long { UA = 7 };
    mon::ctx("enum-with-abi-dependent-underlying-type | sizes");
    mon::evals(2);
    if (sizeof(tainted_volatile<EL, S>) != sizeof(G<long>) || sizeof(tainted_volatile<EUL, S>) != sizeof(G<unsigned long>))
      report("enum-with-abi-dependent-underlying-type", "enum : long", "sandbox-image-keeps-application-size",
             mon::fmt("%s: enum class EL : long occupies %zu bytes in sandbox memory (stride of tainted<EL*> arithmetic, struct field offsets), the ABI gives long %zu bytes; enum EUL : unsigned long %zu vs %zu",
                      Cfg::name, sizeof(tainted_volatile<EL, S>), sizeof(G<long>), sizeof(tainted_volatile<EUL, S>), sizeof(G<unsigned long>)));
    else n_load_ok++;
  }
  // an enumeration whose underlying type is bool has the values of bool: a hostile byte in such a cell must not reach the
  // application as an object of that type (same oracle as for bool cells above), on every load path including whole arrays
  if (part < 0 || part == 0) {
    enum class Flag : bool { Off = false, On = true };
    for (uint64_t off : { uint64_t(640), uint64_t(Wd::size(sb) - 4) }) {
      auto p = Wd::tptr<Flag>(sb, off);
      auto pa = Wd::tptr<Flag[4]>(sb, off);
      for (unsigned hb : { 2u, 3u, 0x80u, 0xfeu, 0xffu }) {
        for (int pos = 0; pos < 4; pos++) {
          for (int k = 0; k < 4; k++) R.mem()[off + k] = static_cast<unsigned char>(k & 1);
          R.mem()[off + pos] = static_cast<unsigned char>(hb);
          auto judge = [&](const char* op, bool ab, unsigned char got) {
            mon::evals();
            if (!ab && got > 1) report(op, "enum : bool", "invalid-bool-object-delivered", mon::fmt("sandbox cell at base+%llu holds byte 0x%02x: the application received an 'enum class Flag : bool' whose byte is 0x%02x (no abort)", (unsigned long long)(off + pos), hb, got));
            else n_load_ok++;
          };
          unsigned char got = 0;
          bool ab;
          if (pos == 0) {
            mon::ctx("load/hostile-bool-enum/load-to-tainted | off=%llu byte 0x%02x", (unsigned long long)off, hb);
            ab = mon::aborts([&] { tainted<Flag, S> t = *p; std::memcpy(&got, &t, 1); });
            judge("load-to-tainted/hostile-encoding", ab, got);
            got = 0;
            mon::ctx("load/hostile-bool-enum/copy_and_verify-volatile | off=%llu byte 0x%02x", (unsigned long long)off, hb);
            ab = mon::aborts([&] { (*p).copy_and_verify([&](Flag v) { std::memcpy(&got, &v, 1); return 0; }); });
            judge("load-copy_and_verify-volatile/hostile-encoding", ab, got);
            got = 0;
            mon::ctx("load/hostile-bool-enum/copy_and_verify-pointer | off=%llu byte 0x%02x", (unsigned long long)off, hb);
            ab = mon::aborts([&] { p.copy_and_verify([&](std::unique_ptr<Flag> v) { std::memcpy(&got, v.get(), 1); return 0; }); });
            judge("load-copy_and_verify-pointer/hostile-encoding", ab, got);
          }
          got = 0;
          mon::ctx("load/hostile-bool-enum/copy_and_verify_range | off=%llu byte 0x%02x element %d", (unsigned long long)off, hb, pos);
          ab = mon::aborts([&] { p.copy_and_verify_range([&](std::unique_ptr<Flag[]> v) { std::memcpy(&got, v.get() + pos, 1); return 0; }, 4); });
          judge("load-copy_and_verify_range/hostile-encoding", ab, got);
          if (pos == 0) {
            got = 0;
            mon::ctx("load/hostile-bool-enum/UNSAFE_sandboxed | off=%llu byte 0x%02x", (unsigned long long)off, hb);
            ab = mon::aborts([&] { Flag v = (*p).UNSAFE_sandboxed(sb); std::memcpy(&got, &v, 1); });
            judge("load-UNSAFE_sandboxed/hostile-encoding", ab, got);
          }
          got = 0;
          mon::ctx("load/hostile-bool-enum/array-load | off=%llu byte 0x%02x element %d", (unsigned long long)off, hb, pos);
          ab = mon::aborts([&] { tainted<Flag[4], S> a = *pa; std::memcpy(&got, reinterpret_cast<unsigned char*>(&a) + pos, 1); });
          judge("load-array/hostile-encoding", ab, got);
          got = 0;
          mon::ctx("load/hostile-bool-enum/array-element | off=%llu byte 0x%02x element %d", (unsigned long long)off, hb, pos);
          ab = mon::aborts([&] { tainted<Flag, S> t = (*pa)[pos]; std::memcpy(&got, &t, 1); });
          judge("load-array-element/hostile-encoding", ab, got);
        }
      }
    }
  }
  mon::hit("store-footprint-exact", n_store_ok);
  mon::hit("load-decoding-exact", n_load_ok);
  mon::extra("asan_poisoning", MON_ASAN ? "\"on: everything outside the footprint poisoned during each access\"" : "\"off (plain build: all alignments 0..15)\"");
  sb.destroy_sandbox();
  return mon::finish();
}
