// C14, histories that begin before main(): an application-wide sandbox created by a namespace-scope initialiser.  The
// live-sandbox registry is library state with static storage duration too; if it is constructed after the initialiser ran, the
// sandbox that create_sandbox entered is wiped from it.  Judged in main(): the sandbox must be created (a second create aborts),
// found from an address inside its memory (FINDER-style model backend: the registry is on the translation path of every
// pointer-typed load and store), serve allocations, be destroyed without abort, and be creatable again.
#include "world.hpp"
#include "rlbox_noop_sandbox.hpp"

using namespace rlbox;

static int32_t g_add(int32_t a, int32_t b) { return a + b; }
static int n_add(int a, int b) { return a + b; }

// model backend that needs the registry for translation
using MS = rlbox_vsbx_sandbox<vsbx_ilp32f>;
static vsbx_library& model_lib()
{
  static vsbx_library l;
  static bool done = false;
  if (!done) { l.id = 1; l.add("add", reinterpret_cast<void*>(&g_add)); done = true; }
  return l;
}
static rlbox_sandbox<MS> g_model;
static const bool g_model_ready = g_model.create_sandbox(&model_lib());
// in-repo noop backend
static rlbox_sandbox<rlbox_noop_sandbox> g_noop;
static const bool g_noop_ready = g_noop.create_sandbox();

static uint64_t n_ok = 0;
static void bad(const char* be, const char* cls, const std::string& d) { mon::violation(mon::fmt("C14/static-initialisation/%s/%s", be, cls), d); }

template<typename B, typename Create>
static void judge(const char* be, rlbox_sandbox<B>& sb, bool ready, Create&& create_again)
{
  mon::ctx("static-initialisation/%s | created by a namespace-scope initialiser", be);
  mon::evals();
  if (!ready) { bad(be, "create-failed", "create_sandbox() in a namespace-scope initialiser returned false"); return; }
  // created: a second create must abort
  bool ab = mon::aborts([&] { create_again(); });
  mon::evals();
  if (!ab) { bad(be, "second-create-accepted", "the sandbox does not count as created"); return; }
  // serves allocations
  auto p = sb.template malloc_in_sandbox<int>(4);
  mon::evals();
  if (!p) { bad(be, "malloc-returned-null", "between create and destroy"); return; }
  // found from an address inside its memory: a pointer-typed cell goes through the registry on this backend
  auto pp = sb.template malloc_in_sandbox<int*>(1);
  bool ab2 = mon::aborts([&] { *pp = p; tainted<int*, B> q = *pp; if (q.UNSAFE_unverified() != p.UNSAFE_unverified()) throw std::runtime_error("wrong pointer"); });
  mon::evals();
  if (ab2) { bad(be, "not-found-from-an-address-inside-its-memory", "storing/loading a pointer cell of the sandbox aborted: the registry does not know the sandbox"); return; }
  // destroy must succeed, and the object must be creatable again
  bool ab3 = mon::aborts([&] { sb.destroy_sandbox(); });
  mon::evals();
  if (ab3) { bad(be, "destroy-aborted-on-a-created-sandbox", "destroy_sandbox() aborted although create_sandbox() had succeeded and nothing destroyed the sandbox since"); return; }
  bool ab4 = mon::aborts([&] { create_again(); sb.destroy_sandbox(); });
  mon::evals();
  if (ab4) { bad(be, "cannot-be-created-again", "create/destroy after the first destroy aborted"); return; }
  n_ok++;
}

int main(int argc, char** argv)
{
  mon::init("C14", argc, argv);
  mon::require("static-initialisation-history-held");
  (void)n_add;
  judge("model", g_model, g_model_ready, [&] { g_model.create_sandbox(&model_lib()); });
  judge("noop", g_noop, g_noop_ready, [&] { g_noop.create_sandbox(); });
  mon::distinct(1); mon::distinct(2);
  mon::hit("static-initialisation-history-held", n_ok);
  return mon::finish();
}
