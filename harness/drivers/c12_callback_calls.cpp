// C12: a callback call runs exactly the registered function with faithful
// arguments, after any register/unregister history, nested across two live
// sandboxes, for all backends and both TLS configurations.
#include "backends.hpp"
#include "cbpool.hpp"

#include <set>

#ifdef RLBOX_EMBEDDER_PROVIDES_TLS_STATIC_VARIABLES
RLBOX_NOOP_SANDBOX_STATIC_VARIABLES();
RLBOX_DYLIB_SANDBOX_STATIC_VARIABLES();
#  define TLSNAME "embedder-tls"
#else
#  define TLSNAME "library-tls"
#endif

using namespace rlbox;
using ref::i128;
using MCfg = CFG; // model ABI for this binary
using VS = rlbox_vsbx_sandbox<MCfg>;
using MW = world::W<MCfg>;
using MP = typename MCfg::P;
template<typename T> using MG = ref::guest_t<MCfg, T>;

static uint64_t n_call_ok = 0, n_value_ok = 0, n_abort_ok = 0, n_nest_ok = 0;
static void report(const char* backend, const char* what, const char* cls, const std::string& d) { mon::violation(mon::fmt("C12/%s/%s/%s/%s", backend, TLSNAME, what, cls), d); }

// ------------------------------------------------------------- guest code
// model backend (guest types), with hooks to make the guest pass hostile values
static thread_local bool g_arg_on = false;
static thread_local uint64_t g_arg = 0;
template<typename Gt> static Gt arg_or(Gt x) { return g_arg_on ? static_cast<Gt>(g_arg) : x; }
static thread_local uint64_t g_last_ret = 0; // what the guest got back from the callback (widened)

static MG<int> mg_call_cb(MP cb, MG<int> x) { auto r = VS::current()->call_indirect<MG<int>, MG<int>>(cb, arg_or(x)); g_last_ret = MW::widen(r); return r; }
static MG<int> mg_call_cb_twice(MP cb, MG<int> x) { auto s = VS::current(); auto r = s->call_indirect<MG<int>, MG<int>>(cb, x); r += s->call_indirect<MG<int>, MG<int>>(cb, x + 1); return r; }
static MG<long> mg_call_cb_l(MP cb, MG<long> a, char c) { auto r = VS::current()->call_indirect<MG<long>, MG<long>, char>(cb, arg_or(a), c); g_last_ret = MW::widen(r); return r; }
static MP mg_call_cb_p(MP cb, MP p) { auto r = VS::current()->call_indirect<MP, MP>(cb, arg_or(p)); g_last_ret = r; return r; }
static double mg_call_cb_d(MP cb, double d, float f) { auto r = VS::current()->call_indirect<double, double, float>(cb, d, f); g_last_ret = MW::widen(r); return r; }
static void mg_call_cb_v(MP cb, MG<int> x) { VS::current()->call_indirect<void, MG<int>>(cb, arg_or(x)); }
static MG<unsigned long long> mg_call_cb_u(MP cb, MG<unsigned long long> x) { auto r = VS::current()->call_indirect<MG<unsigned long long>, MG<unsigned long long>>(cb, arg_or(x)); g_last_ret = MW::widen(r); return r; }
static MG<int> mg_nest(MP cb, MG<int> d) { auto s = VS::current(); auto r = s->call_indirect<MG<int>, MG<int>>(cb, d); r += s->call_indirect<MG<int>, MG<int>>(cb, -1 - d); return r; }

// noop backend (host types)
static int n_call_cb(int (*cb)(int), int x) { int r = cb(x); g_last_ret = (uint64_t)(int64_t)r; return r; }
static int n_call_cb_twice(int (*cb)(int), int x) { int r = cb(x); r += cb(x + 1); return r; }
static long n_call_cb_l(long (*cb)(long, char), long a, char c) { long r = cb(a, c); g_last_ret = (uint64_t)r; return r; }
static void* n_call_cb_p(void* (*cb)(void*), void* p) { void* r = cb(p); g_last_ret = (uintptr_t)r; return r; }
static double n_call_cb_d(double (*cb)(double, float), double d, float f) { double r = cb(d, f); memcpy(&g_last_ret, &r, 8); return r; }
static void n_call_cb_v(void (*cb)(int), int x) { cb(x); }
static unsigned long long n_call_cb_u(unsigned long long (*cb)(unsigned long long), unsigned long long x) { auto r = cb(x); g_last_ret = r; return r; }
static int n_nest(int (*cb)(int), int d) { int r = cb(d); r += cb(-1 - d); return r; }
BE_NATIVE(call_cb, n_call_cb); BE_NATIVE(call_cb_twice, n_call_cb_twice); BE_NATIVE(call_cb_l, n_call_cb_l); BE_NATIVE(call_cb_p, n_call_cb_p);
BE_NATIVE(call_cb_d, n_call_cb_d); BE_NATIVE(call_cb_v, n_call_cb_v); BE_NATIVE(call_cb_u, n_call_cb_u); BE_NATIVE(nest, n_nest);

// --------------------------------------------------------- application side
struct Seen
{
  bool called = false; int runs = 0; void* sandbox = nullptr;
  long l = 0; char c = 0; uintptr_t p = 0; double d = 0; float f = 0; int i = 0; unsigned long long u = 0;
  long ret_l = 0; uintptr_t ret_p = 0; unsigned long long ret_u = 0;
  void reset() { called = false; runs = 0; sandbox = nullptr; }
};
static thread_local Seen seen;

template<typename B> tainted<long, B> cb_long(rlbox_sandbox<B>& sb, tainted<long, B> a, tainted<char, B> c)
{
  seen.called = true; seen.runs++; seen.sandbox = &sb; seen.l = a.UNSAFE_unverified(); seen.c = c.UNSAFE_unverified();
  tainted<long, B> r = seen.ret_l;
  return r;
}
template<typename B> tainted<int*, B> cb_ptr(rlbox_sandbox<B>& sb, tainted<int*, B> p)
{
  seen.called = true; seen.runs++; seen.sandbox = &sb; seen.p = reinterpret_cast<uintptr_t>(p.UNSAFE_unverified());
  return p;
}
// function-pointer parameter and result (the backend tells function pointers from data pointers by the type it is handed)
using fnp_t = int (*)(int);
template<typename B> tainted<fnp_t, B> cb_fnp(rlbox_sandbox<B>& sb, tainted<fnp_t, B> f)
{
  seen.called = true; seen.runs++; seen.sandbox = &sb; seen.p = reinterpret_cast<uintptr_t>(f.UNSAFE_unverified());
  return f;
}
template<typename B> tainted<double, B> cb_dbl(rlbox_sandbox<B>& sb, tainted<double, B> d, tainted<float, B> f)
{
  seen.called = true; seen.runs++; seen.sandbox = &sb; seen.d = d.UNSAFE_unverified(); seen.f = f.UNSAFE_unverified();
  return d + f;
}
template<typename B> void cb_void(rlbox_sandbox<B>& sb, tainted<int, B> x)
{
  seen.called = true; seen.runs++; seen.sandbox = &sb; seen.i = x.UNSAFE_unverified();
}
template<typename B> tainted<unsigned long long, B> cb_ull(rlbox_sandbox<B>& sb, tainted<unsigned long long, B> x)
{
  seen.called = true; seen.runs++; seen.sandbox = &sb; seen.u = x.UNSAFE_unverified();
  tainted<unsigned long long, B> r = seen.ret_u;
  return r;
}

// nesting across two sandboxes
template<typename B>
struct Nest
{
  using sbx = rlbox_sandbox<B>;
  using CB = sandbox_callback<int (*)(int), B>;
  static inline sbx* box[2] = { nullptr, nullptr };
  static inline CB* cb[2] = { nullptr, nullptr };
  static inline std::vector<std::pair<int, int>> log; // (instance index or -1, argument)
  static inline int throw_at = -1; // the callback called with this argument throws (after logging); its caller's callback catches
  static int which(sbx& s) { return &s == box[0] ? 0 : (&s == box[1] ? 1 : -1); }
  template<int Me>
  static tainted<int, B> fn(sbx& sb, tainted<int, B> d)
  {
    int depth = d.UNSAFE_unverified();
    log.push_back({ which(sb), depth });
    if (depth >= 0 && depth == throw_at) throw std::runtime_error("injected failure inside a nested callback");
    if (depth > 0) {
      // invoke the *other* sandbox from inside this callback
      int other = 1 - Me;
      if (throw_at >= 0) {
        // the failure of the nested invocation is handled here and this callback carries on
        try { be::BT<B>::template invoke<int(int (*)(int), int)>(*box[other], "nest", *cb[other], depth - 1); } catch (const std::exception&) {}
      } else be::BT<B>::template invoke<int(int (*)(int), int)>(*box[other], "nest", *cb[other], depth - 1);
    }
    return d;
  }
};

template<typename B>
static void nesting(mon::Rng& rng)
{
  using N = Nest<B>;
  rlbox_sandbox<B> a, b;
  be::BT<B>::create(a, 0);
  be::BT<B>::create(b, 1);
  {
    auto ca = a.register_callback(N::template fn<0>);
    auto cb = b.register_callback(N::template fn<1>);
    N::box[0] = &a; N::box[1] = &b; N::cb[0] = &ca; N::cb[1] = &cb;
    for (int depth = 0; depth <= 6; depth++) {
      for (int start = 0; start < 2; start++) {
        N::log.clear();
        mon::ctx("%s/nesting | depth %d start %d", be::BT<B>::name(), depth, start);
        be::BT<B>::template invoke<int(int (*)(int), int)>(*N::box[start], "nest", *N::cb[start], depth);
        // expected trace: down start:depth, other:depth-1, ... :0 ; then up: (-1-0) at the innermost ... (-1-depth) at the outermost
        std::vector<std::pair<int, int>> want;
        for (int d = depth, w = start; d >= 0; d--, w = 1 - w) want.push_back({ w, d });
        for (int d = 0; d <= depth; d++) want.push_back({ (depth - d) % 2 == 0 ? start : 1 - start, -1 - d });
        mon::evals();
        mon::distinct(mon::mix(mon::mix(0x9e57, depth), mon::mix(start, std::hash<std::string>()(be::BT<B>::name()))));
        if (N::log != want) {
          std::string g, w;
          for (auto& e : N::log) g += mon::fmt("(%d,%d)", e.first, e.second);
          for (auto& e : want) w += mon::fmt("(%d,%d)", e.first, e.second);
          report(be::BT<B>::name(), "nested-invoke-callback", "callback-saw-wrong-sandbox-or-order",
                 mon::fmt("depth %d from sandbox %d: observed (sandbox,arg) trace %s, expected %s", depth, start, g.c_str(), w.c_str()));
        } else n_nest_ok++;
      }
    }
    // an exception thrown by a nested callback, caught one level up; the enclosing levels then complete normally.
    // (not with the dylib backend: its guest is C code without unwind information)
    if constexpr (!std::is_same_v<B, rlbox_dylib_sandbox>) {
      for (int depth = 1; depth <= 6; depth++)
        for (int t = 0; t < depth; t++)
          for (int start = 0; start < 2; start++) {
            N::log.clear();
            N::throw_at = t;
            mon::ctx("%s/nesting-with-caught-exception | depth %d start %d thrower %d", be::BT<B>::name(), depth, start, t);
            bool ab = mon::aborts([&] { be::BT<B>::template invoke<int(int (*)(int), int)>(*N::box[start], "nest", *N::cb[start], depth); });
            N::throw_at = -1;
            auto who = [&](int d) { return (depth - d) % 2 == 0 ? start : 1 - start; };
            std::vector<std::pair<int, int>> want;
            for (int d = depth; d >= t; d--) want.push_back({ who(d), d });
            for (int d = t + 1; d <= depth; d++) want.push_back({ who(d), -1 - d });
            mon::evals();
            mon::distinct(mon::mix(mon::mix(0x9e58, depth * 8 + t), mon::mix(start, std::hash<std::string>()(be::BT<B>::name()))));
            if (ab || N::log != want) {
              std::string g, w;
              for (auto& e : N::log) g += mon::fmt("(%d,%d)", e.first, e.second);
              for (auto& e : want) w += mon::fmt("(%d,%d)", e.first, e.second);
              report(be::BT<B>::name(), "nested-invoke-callback-after-caught-exception", ab ? "abort" : "callback-saw-wrong-sandbox-or-order",
                     mon::fmt("depth %d from sandbox %d, callback with argument %d throws, its caller catches: observed (sandbox,arg) trace %s, expected %s", depth, start, t, g.c_str(), w.c_str()));
            } else n_nest_ok++;
          }
    }
    (void)rng;
  }
  b.destroy_sandbox();
  a.destroy_sandbox();
}

// ------------------------------------------------ register/unregister churn
template<typename B>
static void churn(mon::Rng& rng)
{
  using sbx = rlbox_sandbox<B>;
  using CB = sandbox_callback<int (*)(int), B>;
  constexpr int CAP = be::BT<B>::CAP;
  constexpr int POOL = 80;
  const auto& fns = cbpool::pool<B, POOL>();
  sbx sb, other;
  be::BT<B>::create(sb, 0);
  be::BT<B>::create(other, 1);
  {
    std::map<int, std::unique_ptr<CB>> live; // function -> owner
    auto other_cb = other.register_callback(fns[POOL - 1]);
    int steps = mon::tier(400, 30000);
    std::string hist;
    for (int s = 0; s < steps; s++) {
      bool grow = live.empty() || (static_cast<int>(live.size()) < CAP && rng.below(100) < (static_cast<int>(live.size()) < CAP - 2 ? 70 : 40));
      if (hist.size() > 300) hist = "(...) ";
      if (grow) {
        int f;
        do { f = rng.below(POOL - 1); } while (live.count(f));
        live[f] = std::make_unique<CB>(sb.register_callback(fns[f]));
        hist += mon::fmt("+f%d ", f);
      } else {
        auto it = live.begin();
        std::advance(it, rng.below(live.size()));
        hist += mon::fmt("-f%d ", it->first);
        live.erase(it);
      }
      // call a few entry points in PRNG order
      for (int k = 0; k < 3 && !live.empty(); k++) {
        auto it = live.begin();
        std::advance(it, rng.below(live.size()));
        int x = static_cast<int>(rng.range(-1000, 1000));
        cbpool::runlog.reset();
        mon::ctx("%s/churn | %s call f%d", be::BT<B>::name(), hist.c_str(), it->first);
        const char* gfn = rng.coin() ? "call_cb" : "call_cb_twice";
        int r = be::BT<B>::template invoke<int(int (*)(int), int)>(sb, gfn, *it->second, x).UNSAFE_unverified();
        bool twice = gfn[7] == '_';
        int want_runs = twice ? 2 : 1;
        int want_r = twice ? (x + it->first) + (x + 1 + it->first) : x + it->first;
        mon::evals();
        if (cbpool::runlog.runs != want_runs || cbpool::runlog.last_fn != it->first || cbpool::runlog.sandbox != &sb || r != want_r ||
            cbpool::runlog.arg != (twice ? x + 1 : x)) {
          report(be::BT<B>::name(), "registered-function-runs", "wrong-function-or-count-or-sandbox-or-value",
                 mon::fmt("history [%s] with %zu of %d entry points in use: %s through the entry point of f%d with %d ran f%d %d time(s) (sandbox %s), last argument %ld, guest got %d (expected %d)", hist.c_str(),
                          live.size(), CAP, gfn, it->first, x, cbpool::runlog.last_fn, cbpool::runlog.runs, cbpool::runlog.sandbox == &sb ? "own" : "OTHER", cbpool::runlog.arg, r, want_r));
          s = steps;
          break;
        }
        n_call_ok++;
      }
      // the other live sandbox has its own table: same slot numbers, other function
      if (rng.below(8) == 0) {
        cbpool::runlog.reset();
        int r = be::BT<B>::template invoke<int(int (*)(int), int)>(other, "call_cb", other_cb, 7).UNSAFE_unverified();
        if (cbpool::runlog.runs != 1 || cbpool::runlog.last_fn != POOL - 1 || cbpool::runlog.sandbox != &other || r != 7 + POOL - 1)
          report(be::BT<B>::name(), "second-sandbox", "wrong-function-or-sandbox", mon::fmt("history [%s]: other sandbox's callback ran f%d with sandbox %s", hist.c_str(), cbpool::runlog.last_fn, cbpool::runlog.sandbox == &other ? "own" : "WRONG"));
        else n_call_ok++;
      }
      if (s % 50 == 0) mon::distinct(mon::mix(std::hash<std::string>()(hist), s));
    }
    if (rng.below(1) == 0) mon::sample_str(std::string(be::BT<B>::name()) + " " TLSNAME ": " + hist.substr(0, 200));
  }
  other.destroy_sandbox();
  sb.destroy_sandbox();
}

// --------------------------------------- argument / result faithfulness
template<typename B>
static void values(mon::Rng& rng)
{
  using sbx = rlbox_sandbox<B>;
  constexpr bool foreign = be::BT<B>::foreign;
  sbx sb;
  be::BT<B>::create(sb, 0);
  {
    auto cl = sb.register_callback(cb_long<B>);
    auto cp = sb.register_callback(cb_ptr<B>);
    auto cd = sb.register_callback(cb_dbl<B>);
    auto cv = sb.register_callback(cb_void<B>);
    auto cu = sb.register_callback(cb_ull<B>);
    auto cf = sb.register_callback(cb_fnp<B>);
    const char* bn = be::BT<B>::name();
    // guest long type (model) or host long
    using GL = std::conditional_t<foreign, MG<long>, long>;
    using GU = std::conditional_t<foreign, MG<unsigned long long>, unsigned long long>;
    std::vector<i128> cand = ref::wide_boundaries();
    for (int i = 0; i < mon::tier(40, 2000); i++) cand.push_back(static_cast<i128>(static_cast<int64_t>(rng.interesting())));
    for (i128 v : cand) {
      // ---- long argument (guest passes g), long result (callback returns r)
      if (ref::fits<GL>(v)) {
        GL g = static_cast<GL>(v);
        bool arg_fits = ref::fits<long>(v);
        seen.reset();
        seen.ret_l = 5;
        g_arg_on = foreign; g_arg = static_cast<uint64_t>(g);
        mon::ctx("%s/values/long-arg | g=%s", bn, mon::i128s(v).c_str());
        bool ab = mon::aborts([&] {
          if constexpr (foreign) be::BT<B>::template invoke<long(long (*)(long, char), long, char)>(sb, "call_cb_l", cl, 0L, 'k');
          else be::BT<B>::template invoke<long(long (*)(long, char), long, char)>(sb, "call_cb_l", cl, static_cast<long>(g), 'k');
        });
        g_arg_on = false;
        mon::evals();
        mon::distinct(mon::mix(0x1a, static_cast<uint64_t>(v)));
        if (arg_fits) {
          if (ab || !seen.called || seen.runs != 1 || seen.l != static_cast<long>(v) || seen.c != 'k' || seen.sandbox != &sb)
            report(bn, "long-char-argument", "not-faithful", mon::fmt("guest passed (%s,'k'): callback %s, saw (%ld,'%c'), aborted=%d", mon::i128s(v).c_str(), seen.called ? "ran" : "did not run", seen.l, seen.c, ab));
          else n_value_ok++;
        } else {
          if (!ab) report(bn, "long-char-argument", "unrepresentable-argument-no-abort", mon::fmt("guest passed %s, callback saw %ld", mon::i128s(v).c_str(), seen.l));
          else n_abort_ok++;
        }
      }
      if (ref::fits<long>(v)) {
        long r = static_cast<long>(v);
        bool ret_fits = ref::fits<GL>(v);
        seen.reset();
        seen.ret_l = r;
        g_last_ret = 0x5555;
        mon::ctx("%s/values/long-result | r=%s", bn, mon::i128s(v).c_str());
        long host_ret = 0;
        bool ab = mon::aborts([&] { host_ret = be::BT<B>::template invoke<long(long (*)(long, char), long, char)>(sb, "call_cb_l", cl, 1L, 'z').UNSAFE_unverified(); });
        if (!foreign) g_last_ret = static_cast<uint64_t>(host_ret); // host-ABI guests hand back what they got
        mon::evals();
        if (ret_fits) {
          if (ab || !seen.called || static_cast<i128>(static_cast<GL>(g_last_ret)) != v)
            report(bn, "long-result", "not-faithful", mon::fmt("callback returned %s: guest got %lld, aborted=%d", mon::i128s(v).c_str(), (long long)static_cast<GL>(g_last_ret), ab));
          else n_value_ok++;
        } else {
          if (!ab) report(bn, "long-result", "unrepresentable-result-no-abort", mon::fmt("callback returned %s, guest got %lld", mon::i128s(v).c_str(), (long long)static_cast<GL>(g_last_ret)));
          else n_abort_ok++;
        }
      }
      // ---- unsigned long long both ways
      if (ref::fits<GU>(v) && ref::fits<unsigned long long>(v)) {
        seen.reset();
        seen.ret_u = static_cast<unsigned long long>(v);
        g_arg_on = foreign; g_arg = static_cast<uint64_t>(v);
        unsigned long long host_ret = 0;
        bool ab = mon::aborts([&] { host_ret = be::BT<B>::template invoke<unsigned long long(unsigned long long (*)(unsigned long long), unsigned long long)>(sb, "call_cb_u", cu, foreign ? 0ull : static_cast<unsigned long long>(v)).UNSAFE_unverified(); });
        g_arg_on = false;
        if (!foreign) g_last_ret = host_ret;
        mon::evals();
        if (ab || seen.u != static_cast<unsigned long long>(v) || g_last_ret != static_cast<uint64_t>(v)) report(bn, "ull-argument-result", "not-faithful", mon::i128s(v));
        else n_value_ok++;
      }
    }
    // ---- pointers (model: representations; host backends: addresses), double/float, void
    for (int i = 0; i < mon::tier(60, 3000); i++) {
      seen.reset();
      uintptr_t want = 0;
      uint64_t back_want = 0;
      mon::ctx("%s/values/pointer | i=%d", bn, i);
      if constexpr (foreign) {
        uint64_t off = (i == 0) ? 0 : 1 + rng.below(MW::size(sb) - 1);
        g_arg_on = true; g_arg = off;
        want = off ? MW::base(sb) + off : 0;
        back_want = off;
        be::BT<B>::template invoke<int*(int* (*)(int*), int*)>(sb, "call_cb_p", cp, nullptr);
        g_arg_on = false;
      } else {
        static int arr[64];
        int* p = (i == 0) ? nullptr : &arr[rng.below(64)];
        want = reinterpret_cast<uintptr_t>(p);
        back_want = want;
        tainted<int*, B> tp = nullptr;
        if (p) tp = sb.UNSAFE_accept_pointer(p);
        auto rp = be::BT<B>::template invoke<int*(int* (*)(int*), int*)>(sb, "call_cb_p", cp, tp);
        g_last_ret = reinterpret_cast<uintptr_t>(rp.UNSAFE_unverified());
      }
      mon::evals();
      if (!seen.called || seen.p != want || g_last_ret != back_want || seen.sandbox != &sb)
        report(bn, "pointer-argument-result", "not-faithful", mon::fmt("expected callback to see %p and guest to get back %llx; saw %p, got %llx", (void*)want, (unsigned long long)back_want, (void*)seen.p, (unsigned long long)g_last_ret));
      else n_value_ok++;
      // function pointer: the guest passes its representation of an export (table index), of a callback slot, or null
      if constexpr (foreign) {
        const vsbx_library* L = be::BT<B>::libs[0];
        int k = (i == 0) ? -1 : static_cast<int>(rng.below(L->order.size()));
        uint64_t repr = k < 0 ? 0 : VS::EXPORT_TABLE_BASE + k;
        uintptr_t wantf = k < 0 ? 0 : reinterpret_cast<uintptr_t>(L->exports.at(L->order[k]).internal_addr);
        seen.reset();
        mon::ctx("%s/values/function-pointer | i=%d export %d", bn, i, k);
        g_arg_on = true; g_arg = repr;
        bool abf = mon::aborts([&] { be::BT<B>::template invoke<fnp_t(fnp_t (*)(fnp_t), fnp_t)>(sb, "call_cb_p", cf, nullptr); });
        g_arg_on = false;
        mon::evals();
        if (abf || !seen.called || seen.p != wantf || g_last_ret != repr || seen.sandbox != &sb)
          report(bn, "function-pointer-argument-result", "not-faithful",
                 mon::fmt("guest passed function-pointer representation %llu (export %d at %p): callback saw %p, guest got back %llu%s", (unsigned long long)repr, k, (void*)wantf, (void*)seen.p,
                          (unsigned long long)g_last_ret, abf ? " (aborted)" : ""));
        else n_value_ok++;
      }
      // double / float
      double d; float f;
      uint64_t db = rng(); uint32_t fb = static_cast<uint32_t>(rng());
      memcpy(&d, &db, 8); memcpy(&f, &fb, 4);
      if (d != d) d = 1.5;
      if (f != f) f = -2.5f;
      seen.reset();
      mon::ctx("%s/values/double | i=%d", bn, i);
      auto rd = be::BT<B>::template invoke<double(double (*)(double, float), double, float)>(sb, "call_cb_d", cd, d, f).UNSAFE_unverified();
      double wantd = d + f;
      mon::evals();
      if (!seen.called || memcmp(&seen.d, &d, 8) || memcmp(&seen.f, &f, 4) || memcmp(&rd, &wantd, 8)) report(bn, "double-float-argument-result", "not-faithful", mon::fmt("%a %a", d, (double)f));
      else n_value_ok++;
      // void
      seen.reset();
      int xv = static_cast<int>(rng());
      if constexpr (foreign) { if (!ref::fits<MG<int>>(xv)) xv = 12345 % 100; }
      be::BT<B>::template invoke<void(void (*)(int), int)>(sb, "call_cb_v", cv, xv);
      mon::evals();
      if (!seen.called || seen.runs != 1 || seen.i != xv) report(bn, "void-callback", "not-faithful", mon::fmt("%d vs %d", xv, seen.i));
      else n_value_ok++;
    }
  }
  sb.destroy_sandbox();
}

template<typename B>
static void run_backend(mon::Rng& rng)
{
  churn<B>(rng);
  values<B>(rng);
  nesting<B>(rng);
  mon::hit(std::string("backend/") + be::BT<B>::name() + "/" TLSNAME);
}

int main(int argc, char** argv)
{
  mon::init("C12", argc, argv);
  mon::require("entry-point-ran-exactly-its-function");
  mon::require("argument-and-result-faithful");
  mon::require("nested-trace-exact");
  mon::Rng rng(mon::seed() * 29 + 12 + mon::slice());
  static vsbx_library lib[2];
  for (int l = 0; l < 2; l++) {
    lib[l].id = l + 1;
    lib[l].add("call_cb", reinterpret_cast<void*>(&mg_call_cb)); lib[l].add("call_cb_twice", reinterpret_cast<void*>(&mg_call_cb_twice));
    lib[l].add("call_cb_l", reinterpret_cast<void*>(&mg_call_cb_l)); lib[l].add("call_cb_p", reinterpret_cast<void*>(&mg_call_cb_p));
    lib[l].add("call_cb_d", reinterpret_cast<void*>(&mg_call_cb_d)); lib[l].add("call_cb_v", reinterpret_cast<void*>(&mg_call_cb_v));
    lib[l].add("call_cb_u", reinterpret_cast<void*>(&mg_call_cb_u)); lib[l].add("nest", reinterpret_cast<void*>(&mg_nest));
    be::BT<VS>::libs[l] = &lib[l];
  }
  int which = argc > 1 ? atoi(argv[1]) : -1;
  if (which < 0 || which == 0) {
    run_backend<VS>(rng);
    // the model keeps typed entry points (as a wasm module's indirect calls are typed): the machine-level signature RLBox told
    // the backend when it registered a callback must be the one sandboxed code - compiled for the sandbox's ABI - calls with
    mon::evals();
    if (vsbx_ev.entry_point_signature_mismatch)
      mon::violation("C12/model/entry-point-signature-is-not-the-sandbox-abi",
                     mon::fmt("%s: %llu calls from sandboxed code reached an entry point that was registered with a different machine-level signature (size or float-ness of a parameter or of the result) than the sandbox ABI's",
                              MCfg::name, (unsigned long long)vsbx_ev.entry_point_signature_mismatch));
    else mon::hit("entry-point-signature-is-the-sandbox-abi");
  }
  if (which < 0 || which == 1) run_backend<rlbox_noop_sandbox>(rng);
  if (which < 0 || which == 2) run_backend<rlbox_dylib_sandbox>(rng);
  mon::hit("entry-point-ran-exactly-its-function", n_call_ok);
  mon::hit("argument-and-result-faithful", n_value_ok);
  mon::hit("unrepresentable-value-aborted", n_abort_ok);
  mon::hit("nested-trace-exact", n_nest_ok);
  return mon::finish();
}
