// C02 (what travels with a by-value struct): RLBox builds the sandbox image of a registered struct in a local object and hands
// that object to the backend -- as an argument of a sandbox call, as the result of a callback, from UNSAFE_sandboxed.  Every
// isolating backend copies sizeof(image) bytes of it into sandbox memory, padding included.  Whatever the padding holds
// therefore enters the sandbox.  The monitor first covers the stack with the bytes of the address of an application object
// (what earlier application code may well have left there), then drives the three paths; the guest side records the raw
// bytes it received.  Oracle: no run of >= 5 consecutive bytes of that address pattern in the padding of the received image.
#include "world.hpp"
#include "memmon.hpp"

using namespace rlbox;
using Cfg = vsbx_ilp32;
using Wd = world::W<Cfg>;
using S = Wd::S;

struct Rec { char tag; long long id; char kind; };          // image: tag@0 pad7 id@8 kind@16 pad7
struct Mix { short a; double d; char c; int i; char e; };   // image: a@0 pad6 d@8 c@16 pad3 i@20 e@24 pad7
struct Opt { char kind; int value; char flag; };            // image: kind@0 pad3 value@4 flag@8 pad3 -- 12 bytes, registers
struct Samp { int n; long double v[2]; };                   // image: n@0 pad12 v[0]@16 (10 value bytes + 6 padding INSIDE the x87 long double) v[1]@32
struct Tri { char* text; long long seq; long long tag; };    // NO padding for the application (8+8+8); image: text@0 (4) pad4 seq@8 tag@16
struct Pair { char tag; long long v; };                     // image: tag@0 pad7 v@8 -- 16 bytes: travels in REGISTERS (SysV x86-64)
#define sandbox_fields_reflection_c02p_class_Rec(f, g, ...) \
  f(char, tag, FIELD_NORMAL, ##__VA_ARGS__) g() f(long long, id, FIELD_NORMAL, ##__VA_ARGS__) g() f(char, kind, FIELD_NORMAL, ##__VA_ARGS__) g()
#define sandbox_fields_reflection_c02p_class_Mix(f, g, ...)                                                                          \
  f(short, a, FIELD_NORMAL, ##__VA_ARGS__) g() f(double, d, FIELD_NORMAL, ##__VA_ARGS__) g() f(char, c, FIELD_NORMAL, ##__VA_ARGS__) g() \
    f(int, i, FIELD_NORMAL, ##__VA_ARGS__) g() f(char, e, FIELD_NORMAL, ##__VA_ARGS__) g()
#define sandbox_fields_reflection_c02p_class_Pair(f, g, ...) f(char, tag, FIELD_NORMAL, ##__VA_ARGS__) g() f(long long, v, FIELD_NORMAL, ##__VA_ARGS__) g()
#define sandbox_fields_reflection_c02p_class_Samp(f, g, ...) f(int, n, FIELD_NORMAL, ##__VA_ARGS__) g() f(long double[2], v, FIELD_NORMAL, ##__VA_ARGS__) g()
#define sandbox_fields_reflection_c02p_class_Tri(f, g, ...) f(char*, text, FIELD_NORMAL, ##__VA_ARGS__) g() f(long long, seq, FIELD_NORMAL, ##__VA_ARGS__) g() f(long long, tag, FIELD_NORMAL, ##__VA_ARGS__) g()
#define sandbox_fields_reflection_c02p_class_Opt(f, g, ...) f(char, kind, FIELD_NORMAL, ##__VA_ARGS__) g() f(int, value, FIELD_NORMAL, ##__VA_ARGS__) g() f(char, flag, FIELD_NORMAL, ##__VA_ARGS__) g()
#define sandbox_fields_reflection_c02p_allClasses(f, ...) f(Rec, c02p, ##__VA_ARGS__) f(Mix, c02p, ##__VA_ARGS__) f(Pair, c02p, ##__VA_ARGS__) f(Opt, c02p, ##__VA_ARGS__) f(Samp, c02p, ##__VA_ARGS__) f(Tri, c02p, ##__VA_ARGS__)
rlbox_load_structs_from_library(c02p);

// the guest's own declarations of the two structs (ILP32: fixed-width members)
struct GRec { char tag; int64_t id; char kind; };
struct GMix { int16_t a; double d; char c; int32_t i; char e; };
struct GPair { char tag; int64_t v; };
struct GOpt { char kind; int32_t value; char flag; };
struct GTri { uint32_t text; int64_t seq; int64_t tag; };
static_assert(sizeof(GTri) == 24 && sizeof(Tri) == 24);
struct GSamp { int32_t n; long double v[2]; };
static_assert(sizeof(GSamp) == 48);
static_assert(sizeof(GRec) == 24 && sizeof(GMix) == 32 && sizeof(GPair) == 16);

static int g_app_object;                 // the application object whose address must not show up in the sandbox
static unsigned char g_seen[96];
static size_t g_seen_len = 0;
static uint64_t n_ok = 0;

template<typename G> static int32_t g_take(G s) { std::memcpy(g_seen, &s, sizeof s); g_seen_len = sizeof s; return 0; }
template<typename G> static int32_t g_call_ret(Wd::P cb)
{
  G r = S::current()->template call_indirect<G>(static_cast<uint64_t>(cb));
  std::memcpy(g_seen, &r, sizeof r);
  g_seen_len = sizeof r;
  return 0;
}

// what earlier application code leaves on the stack: a table of pointers to an application object
__attribute__((noinline)) static void app_work(volatile uintptr_t* sink)
{
  volatile uintptr_t table[1024];
  for (auto& t : table) t = reinterpret_cast<uintptr_t>(&g_app_object);
  *sink = table[513];
}

// the mappings of this process (application memory: stack, heap, globals, code, libraries)
static std::vector<std::pair<uintptr_t, uintptr_t>> maps()
{
  std::vector<std::pair<uintptr_t, uintptr_t>> v;
  FILE* f = fopen("/proc/self/maps", "r");
  if (!f) return v;
  char line[512];
  while (fgets(line, sizeof line, f)) {
    unsigned long lo = 0, hi = 0;
    // (the address sanitizer's shadow is one mapping of many TiB: "some address with these upper bytes is mapped" says
    // nothing there, and no application object lives in it)
    if (sscanf(line, "%lx-%lx", &lo, &hi) == 2 && hi - lo < (1ull << 36)) v.push_back({ lo, hi });
  }
  fclose(f);
  return v;
}
static uintptr_t g_sbx_lo = 0, g_sbx_hi = 0;

// Oracle: the padding of the image must not carry application addresses.  A window of the image that lies wholly in padding
// and holds the upper (8-k) bytes of a little-endian pointer, k <= 3 unknown low bytes, is an application address if some
// address with those upper bytes is mapped in this process outside the sandbox.  (Zero bytes, fill patterns and small
// integers are not: user-space addresses have a non-zero byte 5 and zero bytes 6 and 7.)
static void judge(const char* path, const char* sn, const std::vector<std::pair<size_t, size_t>>& fields)
{
  mon::evals();
  if (getenv("C02P_DUMP")) fprintf(stderr, "%s %s %s\n", path, sn, memmon::hex(g_seen, g_seen_len).c_str());
  std::vector<bool> pad(g_seen_len, true);
  for (auto& f : fields) for (size_t i = f.first; i < f.first + f.second; i++) pad[i] = false;
  auto mp = maps();
  for (size_t start = 0; start < g_seen_len; start++) {
    // images of at most 16 bytes travel in registers: their paddings are short, and what shows there is the upper part of an
    // address (the window may then hold as few as pointer bytes 4..7 - the half that is the same for a whole mapping)
    const bool in_registers = g_seen_len <= 16;
    // (a 4-byte padding can hold at most half an address: the upper half - bytes 4..7, the same for a whole mapping - counts)
    for (int k = 0; k <= 4; k++) { // the window holds pointer bytes k..7
      size_t len = 8 - k;
      if (start + len > g_seen_len) continue;
      bool allpad = true;
      for (size_t q = 0; q < len; q++) allpad = allpad && pad[start + q];
      if (!allpad) continue;
      uintptr_t v = 0;
      for (size_t q = 0; q < len; q++) v |= static_cast<uintptr_t>(g_seen[start + q]) << (8 * (k + q));
      if ((v >> 48) != 0 || ((v >> 40) & 0xff) == 0) continue;
      uintptr_t vhi = v + ((static_cast<uintptr_t>(1) << (8 * k)) - 1);
      for (auto& m : mp) {
        if (m.first >= g_sbx_lo && m.second <= g_sbx_hi) continue;
        if (v < m.second && vhi >= m.first) {
          mon::violation(mon::fmt(in_registers ? "C02/by-value-struct/%s/image-passed-in-registers/application-address-bytes-in-padding" : "C02/by-value-struct/%s/application-address-bytes-in-padding", path),
                         mon::fmt("%s: the image the guest received is %s; the %zu padding bytes at offset %zu are bytes %d..7 of an address inside the application mapping %p-%p "
                                  "(for comparison: a local variable lives at %p, an application global at %p) -- stack residue of the application travelled into the sandbox",
                                  sn, memmon::hex(g_seen, g_seen_len).c_str(), len, start, k, (void*)m.first, (void*)m.second, (void*)&mp, (void*)&g_app_object));
          return;
        }
      }
    }
  }
  n_ok++;
}

// a local application object in a frame that held pointers before (app_work), its long double elements assigned from values
// the compiler cannot fold: the padding INSIDE the elements is then whatever the frame held
__attribute__((noinline)) static void probe_samp(Wd::sbx& sb, long double a, long double b, int mode)
{
  tainted<Samp, S> t;
  t.n = 3; t.v[0] = a; t.v[1] = b;
  if (mode == 0) Wd::invoke<int(Samp)>(sb, "take_samp", t);
  else if (mode == 1) { auto img = t.UNSAFE_sandboxed(sb); std::memcpy(g_seen, &img, sizeof img); g_seen_len = sizeof img; }
  else if (mode == 2) { // the whole struct stored into sandbox memory
    auto ps = Wd::tptr<Samp>(sb, 16384);
    std::memset(reinterpret_cast<void*>(Wd::base(sb) + 16384), 0, sizeof(GSamp));
    *ps = t;
    std::memcpy(g_seen, reinterpret_cast<void*>(Wd::base(sb) + 16384), sizeof(GSamp)); g_seen_len = sizeof(GSamp);
  } else { // a tainted<long double[2]> stored whole into an array cell of the sandbox
    tainted<long double[2], S> ta;
    ta[0] = a; ta[1] = b;
    auto pa = Wd::tptr<long double[2]>(sb, 16384);
    std::memset(reinterpret_cast<void*>(Wd::base(sb) + 16384), 0, 32);
    *pa = ta;
    std::memcpy(g_seen, reinterpret_cast<void*>(Wd::base(sb) + 16384), 32); g_seen_len = 32;
  }
}
static tainted<Rec, S> cb_rec(rlbox_sandbox<S>&) { tainted<Rec, S> r{}; r.tag = 'A'; r.id = 42; r.kind = 'B'; return r; }
// an application object that was not value-initialised, built by a small function and returned in registers: its OWN padding
// is whatever the registers held before (what earlier application code left there: here the address of an application object)
__attribute__((noinline)) static void app_registers()
{
#if defined(__x86_64__)
  asm volatile("mov %0, %%rax\n mov %0, %%rdx\n mov %0, %%rcx\n mov %0, %%rsi\n mov %0, %%rdi\n mov %0, %%r8\n mov %0, %%r9\n mov %0, %%r10\n mov %0, %%r11\n"
               :
               : "r"(reinterpret_cast<uintptr_t>(&g_app_object))
               : "rax", "rdx", "rcx", "rsi", "rdi", "r8", "r9", "r10", "r11");
#endif
}
__attribute__((noinline)) static tainted<Pair, S> build_pair(long long v)
{
  tainted<Pair, S> r; // default-initialised
  r.tag = 'P';
  r.v = v;
  return r;
}
static tainted<Pair, S> cb_pair(rlbox_sandbox<S>&)
{
  volatile uintptr_t sink = 0;
  app_work(&sink);
  app_registers();
  return build_pair(0x1122334455667788LL);
}
static tainted<Mix, S> cb_mix(rlbox_sandbox<S>&) { tainted<Mix, S> m{}; m.a = 1; m.d = 2.5; m.c = 'c'; m.i = 7; m.e = 'e'; return m; }

int main(int argc, char** argv)
{
  mon::init("C02", argc, argv);
  mon::require("by-value-image-free-of-stack-residue");
  vsbx_library lib;
  lib.id = 1;
  lib.add("take_rec", reinterpret_cast<void*>(&g_take<GRec>));
  lib.add("take_mix", reinterpret_cast<void*>(&g_take<GMix>));
  lib.add("call_ret_rec", reinterpret_cast<void*>(&g_call_ret<GRec>));
  lib.add("call_ret_mix", reinterpret_cast<void*>(&g_call_ret<GMix>));
  lib.add("take_pair", reinterpret_cast<void*>(&g_take<GPair>));
  lib.add("take_opt", reinterpret_cast<void*>(&g_take<GOpt>));
  lib.add("take_tri", reinterpret_cast<void*>(&g_take<GTri>));
  lib.add("take_samp", reinterpret_cast<void*>(&g_take<GSamp>));
  lib.add("call_ret_pair", reinterpret_cast<void*>(&g_call_ret<GPair>));
  Wd::sbx sb;
  sb.create_sandbox(&lib);
  g_sbx_lo = Wd::base(sb);
  g_sbx_hi = g_sbx_lo + Wd::size(sb);
  const std::vector<std::pair<size_t, size_t>> frec = { { 0, 1 }, { 8, 8 }, { 16, 1 } }, fmix = { { 0, 2 }, { 8, 8 }, { 16, 1 }, { 20, 4 }, { 24, 1 } };
  volatile uintptr_t sink = 0;
  auto cbr = sb.register_callback(cb_rec);
  auto cbm = sb.register_callback(cb_mix);
  auto cbp = sb.register_callback(cb_pair);
  const std::vector<std::pair<size_t, size_t>> fpair = { { 0, 1 }, { 8, 8 } };
  for (int round = 0; round < mon::tier(20, 400); round++) {
    tainted<Rec, S> r{};
    r.tag = 'A'; r.id = 42 + round; r.kind = 'B';
    tainted<Mix, S> m{};
    m.a = 1; m.d = 2.5; m.c = 'c'; m.i = round; m.e = 'e';
    mon::distinct(mon::mix(0xc02, round));
    mon::ctx("by-value-struct/invoke-argument | Rec round %d", round);
    app_work(&sink); std::memset(g_seen, 0, sizeof g_seen);
    if (!mon::aborts([&] { Wd::invoke<int(Rec)>(sb, "take_rec", r); })) judge("invoke-argument", "struct{char;long long;char}", frec);
    mon::ctx("by-value-struct/invoke-argument | Mix round %d", round);
    app_work(&sink); std::memset(g_seen, 0, sizeof g_seen);
    if (!mon::aborts([&] { Wd::invoke<int(Mix)>(sb, "take_mix", m); })) judge("invoke-argument", "struct{short;double;char;int;char}", fmix);
    mon::ctx("by-value-struct/callback-result | Rec round %d", round);
    app_work(&sink); std::memset(g_seen, 0, sizeof g_seen);
    if (!mon::aborts([&] { Wd::invoke<int(Rec (*)())>(sb, "call_ret_rec", cbr); })) judge("callback-result", "struct{char;long long;char}", frec);
    mon::ctx("by-value-struct/callback-result | Mix round %d", round);
    app_work(&sink); std::memset(g_seen, 0, sizeof g_seen);
    if (!mon::aborts([&] { Wd::invoke<int(Mix (*)())>(sb, "call_ret_mix", cbm); })) judge("callback-result", "struct{short;double;char;int;char}", fmix);
    // a 16-byte image is passed and returned in registers: the padding of what arrives is whatever the register halves held
    app_work(&sink); app_registers();
    tainted<Pair, S> pr = build_pair(1000 + round);
    {
      tainted<Opt, S> op;
      op.kind = 'k'; op.value = round; op.flag = 'f';
      mon::ctx("by-value-struct/invoke-argument | Opt round %d", round);
      app_work(&sink); std::memset(g_seen, 0, sizeof g_seen);
      if (!mon::aborts([&] { Wd::invoke<int(Opt)>(sb, "take_opt", op); })) judge("invoke-argument", "struct{char;int;char}", { { 0, 1 }, { 4, 4 }, { 8, 1 } });
    }
    if (sizeof(long double) == 16) {
      static const char* const mname[] = { "invoke-argument", "UNSAFE_sandboxed", "whole-struct-store", "whole-array-store" };
      for (int mode = 0; mode < 4; mode++) {
        mon::ctx("by-value-struct/%s | Samp round %d", mname[mode], round);
        app_work(&sink); std::memset(g_seen, 0, sizeof g_seen);
        volatile long double va = 1.5L + round, vb = -2.75L;
        if (mon::aborts([&] { probe_samp(sb, va, vb, mode); })) continue;
        if (mode < 3) judge(mname[mode], "struct{int;long double[2]}", { { 0, 4 }, { 16, 10 }, { 32, 10 } });
        else judge(mname[mode], "long double[2]", { { 0, 10 }, { 16, 10 } });
      }
    }
    {
      // a struct WITHOUT padding in the application's layout whose image has some (the pointer is 4 bytes in the sandbox)
      tainted<Tri, S> tr;
      tr.text = nullptr; tr.seq = round; tr.tag = 7;
      mon::ctx("by-value-struct/invoke-argument | Tri round %d", round);
      app_work(&sink); std::memset(g_seen, 0, sizeof g_seen);
      if (!mon::aborts([&] { Wd::invoke<int(Tri)>(sb, "take_tri", tr); })) judge("invoke-argument", "struct{char*;long long;long long}", { { 0, 4 }, { 8, 8 }, { 16, 8 } });
      mon::ctx("by-value-struct/UNSAFE_sandboxed | Tri round %d", round);
      app_work(&sink);
      if (!mon::aborts([&] { auto img = tr.UNSAFE_sandboxed(sb); std::memcpy(g_seen, &img, sizeof img); g_seen_len = sizeof img; })) judge("UNSAFE_sandboxed", "struct{char*;long long;long long}", { { 0, 4 }, { 8, 8 }, { 16, 8 } });
    }
    mon::ctx("by-value-struct/invoke-argument | Pair round %d", round);
    app_work(&sink); std::memset(g_seen, 0, sizeof g_seen);
    if (!mon::aborts([&] { Wd::invoke<int(Pair)>(sb, "take_pair", pr); })) judge("invoke-argument", "struct{char;long long}", fpair);
    mon::ctx("by-value-struct/callback-result | Pair round %d", round);
    app_work(&sink); std::memset(g_seen, 0, sizeof g_seen);
    if (!mon::aborts([&] { Wd::invoke<int(Pair (*)())>(sb, "call_ret_pair", cbp); })) judge("callback-result", "struct{char;long long}", fpair);
    mon::ctx("by-value-struct/UNSAFE_sandboxed | Rec round %d", round);
    app_work(&sink);
    if (!mon::aborts([&] { auto img = r.UNSAFE_sandboxed(sb); std::memcpy(g_seen, &img, sizeof img); g_seen_len = sizeof img; })) judge("UNSAFE_sandboxed", "struct{char;long long;char}", frec);
  }
  mon::hit("by-value-image-free-of-stack-residue", n_ok);
  sb.destroy_sandbox();
  return mon::finish();
}
