// C13: callback registrations have exactly one owner and end when that owner
// does.  History explorer: the real objects run in lock-step with a reference
// model; exhaustive over all operation sequences up to a depth bound (each
// replayed from a fresh state) and random long histories biased to capacity
// and overwrite edges.  Backends: model (8 slots), noop (64), dylib (64).
#include "world.hpp"
#include "cbpool.hpp"
#include "rlbox_noop_sandbox.hpp"
#include "rlbox_dylib_sandbox.hpp"

#include <map>
#include <set>

using namespace rlbox;

static void report(const char* backend, const char* shape, const char* cls, const std::string& d)
{
  mon::violation(mon::fmt("C13/%s/%s/%s", backend, shape, cls), d);
}

// ------------------------------------------------------------ backend traits
using VS = rlbox_vsbx_sandbox<vsbx_ilp32>;
static vsbx_library g_lib;
static int native_call_cb(int (*cb)(int), int x) { return cb(x); }
static int32_t guest_call_cb(uint32_t cb, int32_t x) { return world::W<vsbx_ilp32>::g_call_cb<int32_t>(cb, x); }

template<typename B> struct BT;
template<> struct BT<VS>
{
  static constexpr int CAP = 8;
  static constexpr const char* name = "model";
  static void create(rlbox_sandbox<VS>& sb) { sb.create_sandbox(&g_lib); }
  template<typename CB> static int call(rlbox_sandbox<VS>& sb, CB& cb, int x)
  {
    return sb.template INTERNAL_invoke_with_func_name<int(int (*)(int), int)>("call_cb", cb, x).UNSAFE_unverified();
  }
};
template<> struct BT<rlbox_noop_sandbox>
{
  static constexpr int CAP = 64;
  static constexpr const char* name = "noop";
  static void create(rlbox_sandbox<rlbox_noop_sandbox>& sb) { sb.create_sandbox(); }
  template<typename CB> static int call(rlbox_sandbox<rlbox_noop_sandbox>& sb, CB& cb, int x)
  {
    return sb.template INTERNAL_invoke_with_func_ptr<int(int (*)(int), int)>("call_cb", reinterpret_cast<void*>(&native_call_cb), cb, x).UNSAFE_unverified();
  }
};
template<> struct BT<rlbox_dylib_sandbox>
{
  static constexpr int CAP = 64;
  static constexpr const char* name = "dylib";
  static void create(rlbox_sandbox<rlbox_dylib_sandbox>& sb) { sb.create_sandbox(getenv("VERIF_GUEST1")); }
  template<typename CB> static int call(rlbox_sandbox<rlbox_dylib_sandbox>& sb, CB& cb, int x)
  {
    return sb.template INTERNAL_invoke_with_func_name<int(int (*)(int), int)>("call_cb", cb, x).UNSAFE_unverified();
  }
};

// ------------------------------------------------------------------ operations
enum OpK : uint8_t { O_REG, O_UNREG, O_DESTROY, O_MOVECTOR, O_MOVEASSIGN, O_DSBX, O_CSBX };
struct Op { OpK k; uint8_t a, b; };
static std::string opstr(const Op& o)
{
  switch (o.k) {
    case O_REG: return mon::fmt("o%d=register(f%d)", o.b, o.a);
    case O_UNREG: return mon::fmt("o%d.unregister()", o.a);
    case O_DESTROY: return mon::fmt("~o%d", o.a);
    case O_MOVECTOR: return mon::fmt("o%d=move-construct(o%d)", o.b, o.a);
    case O_MOVEASSIGN: return mon::fmt("o%d=move-assign(o%d)", o.b, o.a);
    case O_DSBX: return "destroy_sandbox";
    default: return "create_sandbox";
  }
}

constexpr int POOL = 144;
static uint64_t n_steps = 0, n_probe_ok = 0, n_call_ok = 0, n_expected_abort = 0, n_refused_full = 0;
static std::set<uint64_t> g_states;

template<typename B>
struct Runner
{
  using sbx = rlbox_sandbox<B>;
  using CB = sandbox_callback<int (*)(int), B>;
  static constexpr int NO = 3;
  std::unique_ptr<sbx> sb;
  std::unique_ptr<CB> owner[NO];
  // reference model
  bool alive = false;
  int owner_fn[NO] = { -1, -1, -1 };
  bool owner_stale[NO] = { false, false, false };
  std::map<int, int> reg; // function -> owner (current incarnation)
  std::string hist;
  int nfun;
  bool ended = false; // history over (abort or violation)
  const char* shape = "history";

  explicit Runner(int nf) : nfun(nf)
  {
    sb = std::make_unique<sbx>();
    BT<B>::create(*sb);
    alive = true;
    for (auto& o : owner) o = std::make_unique<CB>();
  }
  ~Runner()
  {
    // owners first, then the sandbox: all of this must be harmless too
    bool ab = mon::aborts([&] {
      for (auto& o : owner) o.reset();
      if (alive) sb->destroy_sandbox();
    });
    if (ab && !ended) report(BT<B>::name, "teardown", "abort", mon::fmt("history [%s]: destroying the owners and the sandbox aborted", hist.c_str()));
  }
  void fail(const char* shp, const char* cls, const std::string& d)
  {
    report(BT<B>::name, shp, cls, mon::fmt("history [%s]: %s", hist.c_str(), d.c_str()));
    ended = true;
  }
  uint64_t state_key() const
  {
    uint64_t h = alive;
    for (int j = 0; j < NO; j++) h = mon::mix(h, (owner_fn[j] + 1) * 2 + owner_stale[j]);
    h = mon::mix(h, reg.size());
    return mon::mix(h, std::hash<std::string>()(BT<B>::name));
  }

  void release_owner_model(int j)
  {
    if (owner_fn[j] >= 0 && !owner_stale[j]) reg.erase(owner_fn[j]);
    owner_fn[j] = -1;
    owner_stale[j] = false;
  }

  // returns false when the history has ended
  bool step(const Op& o)
  {
    if (ended) return false;
    hist += opstr(o) + "; ";
    mon::ctx("%s/step | %s", BT<B>::name, hist.c_str());
    n_steps++;
    const auto& fns = cbpool::pool<B, POOL>();
    switch (o.k) {
      case O_REG: {
        int f = o.a, j = o.b;
        bool target_live = owner_fn[j] >= 0 && !owner_stale[j];
        shape = target_live ? "register-into-live-owner" : "register";
        CB fresh;
        bool ab = mon::aborts([&] { fresh = sb->register_callback(fns[f]); });
        bool expect_abort = !alive || reg.count(f);
        bool full = alive && !reg.count(f) && static_cast<int>(reg.size()) >= BT<B>::CAP;
        if (expect_abort) {
          if (!ab) { fail(shape, !alive ? "registration-without-live-sandbox-succeeded" : "second-registration-of-registered-function-succeeded", mon::fmt("f%d", f)); return false; }
          n_expected_abort++;
          // a refused registration changes nothing and the client may catch the abort and carry on: the history continues
          // with the model as it was (since round 15; before, an expected abort ended the history)
          mon::hit("history-continued-after-a-refused-registration");
          break;
        }
        if (full) {
          if (ab) { n_refused_full++; mon::hit("history-continued-after-a-refused-registration"); break; }
          if (!fresh.is_unregistered()) {
            fail("register-when-table-full", "returned-object-claims-registered",
                 mon::fmt("all %d entry points in use; register_callback(f%d) returned an object with is_unregistered()==false and entry point %llu", BT<B>::CAP, f,
                          (unsigned long long)(uintptr_t)fresh.UNSAFE_sandboxed(*sb)));
            // the bogus owner would try to unregister on destruction; leak it deliberately
            new CB(std::move(fresh));
            return false;
          }
          n_refused_full++;
          return true;
        }
        if (ab) { fail(shape, "registration-of-unregistered-function-aborted", mon::fmt("f%d (model: %zu of %d entry points in use)", f, reg.size(), BT<B>::CAP)); return false; }
        if (fresh.is_unregistered() || fresh.UNSAFE_sandboxed(*sb) == 0) { fail(shape, "fresh-registration-inert-or-null-entry", mon::fmt("f%d", f)); return false; }
        *owner[j] = std::move(fresh); // releases what owner j held
        release_owner_model(j);
        owner_fn[j] = f;
        reg[f] = j;
        break;
      }
      case O_UNREG: {
        int j = o.a;
        shape = owner_stale[j] ? "unregister-after-destroy_sandbox" : "unregister";
        bool ab = mon::aborts([&] { owner[j]->unregister(); });
        if (ab) { fail(shape, "abort", mon::fmt("owner %d", j)); return false; }
        release_owner_model(j);
        break;
      }
      case O_DESTROY: {
        int j = o.a;
        shape = owner_stale[j] ? "destroy-owner-after-destroy_sandbox" : "destroy-owner";
        bool ab = mon::aborts([&] { owner[j].reset(); });
        owner[j] = std::make_unique<CB>();
        if (ab) { fail(shape, "abort", mon::fmt("owner %d", j)); return false; }
        release_owner_model(j);
        break;
      }
      case O_MOVECTOR: {
        int j = o.a, k = o.b;
        if (j == k) return true;
        shape = "move-construct";
        bool ab = mon::aborts([&] {
          auto moved = std::make_unique<CB>(std::move(*owner[j]));
          owner[k] = std::move(moved); // destroys the object owner k held
        });
        if (ab) { fail(shape, "abort", mon::fmt("o%d<-o%d", k, j)); return false; }
        release_owner_model(k);
        owner_fn[k] = owner_fn[j]; owner_stale[k] = owner_stale[j];
        if (owner_fn[k] >= 0 && !owner_stale[k]) reg[owner_fn[k]] = k;
        owner_fn[j] = -1; owner_stale[j] = false;
        break;
      }
      case O_MOVEASSIGN: {
        int j = o.a, k = o.b;
        bool target_live = owner_fn[k] >= 0 && !owner_stale[k];
        shape = (j == k) ? "self-move-assign" : (target_live ? "move-assign-onto-live-owner" : "move-assign-onto-empty-owner");
        bool ab = mon::aborts([&] { *owner[k] = std::move(*owner[j]); });
        if (ab) { fail(shape, "abort", mon::fmt("o%d<-o%d", k, j)); return false; }
        if (j != k) {
          release_owner_model(k);
          owner_fn[k] = owner_fn[j]; owner_stale[k] = owner_stale[j];
          if (owner_fn[k] >= 0 && !owner_stale[k]) reg[owner_fn[k]] = k;
          owner_fn[j] = -1; owner_stale[j] = false;
        }
        break;
      }
      case O_DSBX: {
        if (!alive) return true; // lifecycle misuse is C14's subject
        shape = "destroy_sandbox";
        bool ab = mon::aborts([&] { sb->destroy_sandbox(); });
        if (ab) { fail(shape, "abort", ""); return false; }
        alive = false;
        for (int j = 0; j < NO; j++) if (owner_fn[j] >= 0) owner_stale[j] = true;
        reg.clear();
        break;
      }
      case O_CSBX: {
        if (alive) return true;
        shape = "re-create-sandbox";
        bool ab = mon::aborts([&] { BT<B>::create(*sb); });
        if (ab) { fail(shape, "abort", ""); return false; }
        alive = true;
        break;
      }
    }
    return observe();
  }

  bool observe()
  {
    g_states.insert(state_key());
    if (!alive) return true;
    const auto& fns = cbpool::pool<B, POOL>();
    bool any_stale_gone = false;
    (void)any_stale_gone;
    // (1) owners
    for (int j = 0; j < NO; j++) {
      if (owner_stale[j]) {
        // its sandbox incarnation is gone (destroy_sandbox, here followed by a new create_sandbox): the registration ended with
        // it, so the object is not a registered owner any more and must not hand out an entry point of the new incarnation
        // (where the slot may belong to another function by now)
        bool claims = !owner[j]->is_unregistered();
        uint64_t ep = 0;
        bool ab = mon::aborts([&] { ep = static_cast<uint64_t>(reinterpret_cast<uintptr_t>((void*)(uintptr_t)owner[j]->UNSAFE_sandboxed(*sb))); });
        if (claims || (!ab && ep != 0)) {
          fail(shape, "owner-of-an-earlier-incarnation-claims-registered",
               mon::fmt("owner %d registered f%d before destroy_sandbox; in the new incarnation is_unregistered()==%s and UNSAFE_sandboxed yields entry point %llu", j, owner_fn[j], claims ? "false" : "true", (unsigned long long)ep));
          return false;
        }
        n_call_ok++;
        continue;
      }
      bool live = owner_fn[j] >= 0;
      if (owner[j]->is_unregistered() != !live) {
        fail(shape, live ? "live-owner-claims-unregistered" : "inert-owner-claims-registered", mon::fmt("owner %d (model: %s)", j, live ? "owns a registration" : "empty"));
        return false;
      }
      if (!live) {
        // an inert owner (never registered, unregistered, moved from) hands out no entry point: the slot it once had may
        // belong to another function by now
        uint64_t ep = static_cast<uint64_t>(reinterpret_cast<uintptr_t>((void*)(uintptr_t)owner[j]->UNSAFE_sandboxed(*sb)));
        if (ep != 0) { fail(shape, "inert-owner-hands-out-an-entry-point", mon::fmt("owner %d is unregistered, UNSAFE_sandboxed yields %llu", j, (unsigned long long)ep)); return false; }
      }
      if (live) {
        if (owner[j]->UNSAFE_sandboxed(*sb) == 0) { fail(shape, "registered-owner-with-null-entry-point", mon::fmt("owner %d", j)); return false; }
        cbpool::runlog.reset();
        int r = 0;
        bool ab = mon::aborts([&] { r = BT<B>::call(*sb, *owner[j], 5); });
        if (ab || cbpool::runlog.runs != 1 || cbpool::runlog.last_fn != owner_fn[j] || cbpool::runlog.sandbox != sb.get() || r != 5 + owner_fn[j]) {
          fail(shape, "entry-point-does-not-run-its-function",
               mon::fmt("owner %d registered f%d: call through its entry point %s, ran f%d %d time(s), returned %d", j, owner_fn[j], ab ? "aborted" : "completed", cbpool::runlog.last_fn,
                        cbpool::runlog.runs, r));
          return false;
        }
        n_call_ok++;
      }
    }
    // (2) registrability probes: registered <=> a second registration aborts
    if (static_cast<int>(reg.size()) < BT<B>::CAP) {
      for (int f = 0; f < nfun; f++) {
        bool modelreg = reg.count(f) != 0;
        CB probe;
        bool ab = mon::aborts([&] { probe = sb->register_callback(fns[f]); });
        if (!ab) {
          bool bogus = !probe.is_unregistered() && probe.UNSAFE_sandboxed(*sb) == 0;
          if (bogus) { new CB(std::move(probe)); fail(shape, "probe-returned-null-entry-point", mon::fmt("f%d with %zu registrations in the model", f, reg.size())); return false; }
          probe.unregister(); // undo
        }
        if (ab != modelreg) {
          fail(shape, modelreg ? "registered-function-can-be-registered-again" : "released-function-cannot-be-registered-again",
               mon::fmt("f%d: model says %s, a fresh register_callback %s", f, modelreg ? "registered" : "not registered", ab ? "aborted" : "succeeded"));
          return false;
        }
        n_probe_ok++;
      }
    }
    return true;
  }

  // how many more registrations does the backend accept?  (capacity accounting)
  // Two rounds over disjoint spare functions: fill until refused, release all,
  // fill again -- a slot that is not freed on release shows in round two.
  bool capacity_probe()
  {
    if (!alive || ended) return true;
    const auto& fns = cbpool::pool<B, POOL>();
    int want = BT<B>::CAP - static_cast<int>(reg.size());
    for (int round = 0; round < 2; round++) {
      std::vector<std::unique_ptr<CB>> extra;
      int accepted = 0;
      mon::ctx("%s/capacity-probe round %d | %s", BT<B>::name, round, hist.c_str());
      // round 0 walks the spare functions upwards from nfun, round 1 downwards
      // from the top of the pool (a refused registration is an abort: that
      // function is not touched again)
      for (int k = 0; k <= BT<B>::CAP; k++) {
        int f = round == 0 ? nfun + k : POOL - 1 - k;
        CB c;
        bool ab = mon::aborts([&] { c = sb->register_callback(fns[f]); });
        if (ab) break;
        if (c.is_unregistered()) break;
        if (c.UNSAFE_sandboxed(*sb) == 0) {
          new CB(std::move(c));
          fail("register-when-table-full", "returned-object-claims-registered",
               mon::fmt("%zu registrations live, %d extra accepted, then register_callback returned an object with is_unregistered()==false and a null entry point", reg.size(), accepted));
          for (auto& e : extra) e->unregister();
          return false;
        }
        extra.push_back(std::make_unique<CB>(std::move(c)));
        accepted++;
      }
      // every extra entry point runs its own function
      for (size_t i = 0; i < extra.size(); i += 7) {
        cbpool::runlog.reset();
        int f = round == 0 ? nfun + static_cast<int>(i) : POOL - 1 - static_cast<int>(i);
        bool ab = mon::aborts([&] { BT<B>::call(*sb, *extra[i], 1); });
        if (ab || cbpool::runlog.runs != 1 || cbpool::runlog.last_fn != f) {
          fail("capacity", "entry-point-does-not-run-its-function", mon::fmt("table filled: entry point of f%d ran f%d (%d runs)", f, cbpool::runlog.last_fn, cbpool::runlog.runs));
          for (auto& e : extra) e->unregister();
          return false;
        }
        n_call_ok++;
      }
      // release in a PRNG-free but non-trivial order: last first, then the rest
      if (!extra.empty()) extra.back()->unregister();
      for (auto& e : extra) e->unregister();
      if (accepted != want) {
        fail("capacity", accepted < want ? "entry-points-leaked" : "more-registrations-than-entry-points",
             mon::fmt("round %d: model has %zu of %d entry points in use, so %d more registrations must succeed; backend accepted %d", round, reg.size(), BT<B>::CAP, want, accepted));
        return false;
      }
      n_refused_full++;
    }
    return true;
  }
};

// ------------------------------------------------------------ exploration
static std::vector<Op> alphabet(int nf, int no)
{
  std::vector<Op> a;
  for (int f = 0; f < nf; f++) for (int j = 0; j < no; j++) a.push_back({ O_REG, (uint8_t)f, (uint8_t)j });
  for (int j = 0; j < no; j++) a.push_back({ O_UNREG, (uint8_t)j, 0 });
  for (int j = 0; j < no; j++) a.push_back({ O_DESTROY, (uint8_t)j, 0 });
  for (int j = 0; j < no; j++) for (int k = 0; k < no; k++) if (j != k) a.push_back({ O_MOVECTOR, (uint8_t)j, (uint8_t)k });
  for (int j = 0; j < no; j++) for (int k = 0; k < no; k++) a.push_back({ O_MOVEASSIGN, (uint8_t)j, (uint8_t)k });
  a.push_back({ O_DSBX, 0, 0 });
  a.push_back({ O_CSBX, 0, 0 });
  return a;
}

// prelude: operations carried out before the enumerated part (e.g. "register f0 into owner 0, destroy_sandbox, create_sandbox":
// every enumerated sequence then starts in the second incarnation with a stale owner around)
template<typename B>
static void exhaustive(int depth, int nf, int no, const std::vector<Op>& prelude = {})
{
  auto alpha = alphabet(nf, no);
  size_t A = alpha.size();
  std::vector<size_t> idx(depth, 0);
  uint64_t seqs = 0, total = 1;
  for (int i = 0; i < depth; i++) total *= A;
  // slices split on the first operation
  bool done = false;
  while (!done) {
    if (idx[0] % mon::nslices() == mon::slice()) {
      Runner<B> r(nf);
      int ended_at = depth;
      bool pre_ok = true;
      for (const Op& po : prelude) if (!r.step(po)) { pre_ok = false; break; }
      for (int d = 0; pre_ok && d < depth; d++)
        if (!r.step(alpha[idx[d]])) { ended_at = d; break; }
      seqs++;
      // prune: everything sharing the prefix up to the terminal step behaves the same
      if (ended_at < depth - 1) {
        for (int d = ended_at + 1; d < depth; d++) idx[d] = A - 1;
      }
    } else {
      for (int d = 1; d < depth; d++) idx[d] = A - 1;
    }
    // odometer increment
    int d = depth - 1;
    while (d >= 0) {
      if (++idx[d] < A) break;
      idx[d] = 0;
      d--;
    }
    if (d < 0) done = true;
  }
  mon::distinct_counted(seqs);
  mon::extra_num(std::string(prelude.empty() ? "exhaustive_sequences_" : "exhaustive_sequences_after_recreate_") + BT<B>::name, seqs);
  mon::extra_num(std::string(prelude.empty() ? "exhaustive_depth_" : "exhaustive_depth_after_recreate_") + BT<B>::name, depth);
  mon::sample(mon::fmt("{\"backend\":\"%s\",\"mode\":\"exhaustive\",\"depth\":%d,\"alphabet\":%zu,\"sequences_replayed\":%llu,\"of_total\":%llu}", BT<B>::name, depth, A, (unsigned long long)seqs, (unsigned long long)total));
}

template<typename B>
static void random_histories(int count, int len, mon::Rng& rng)
{
  for (int h = 0; h < count; h++) {
    int nf = (h % 3 == 0) ? 3 : ((h % 3 == 1) ? BT<B>::CAP + 2 : BT<B>::CAP - 1); // small pool / larger than the table / nearly full
    if (nf > POOL - 2 * BT<B>::CAP - 4) nf = POOL - 2 * BT<B>::CAP - 4;
    Runner<B> r(nf);
    for (int s = 0; s < len; s++) {
      Op o;
      int w = rng.below(100);
      if (w < 45) o = { O_REG, (uint8_t)rng.below(nf), (uint8_t)rng.below(3) };
      else if (w < 55) o = { O_UNREG, (uint8_t)rng.below(3), 0 };
      else if (w < 65) o = { O_DESTROY, (uint8_t)rng.below(3), 0 };
      else if (w < 75) o = { O_MOVECTOR, (uint8_t)rng.below(3), (uint8_t)rng.below(3) };
      else if (w < 90) o = { O_MOVEASSIGN, (uint8_t)rng.below(3), (uint8_t)rng.below(3) };
      else if (w < 95) o = { O_DSBX, 0, 0 };
      else o = { O_CSBX, 0, 0 };
      // avoid ending the history on purpose: skip operations the model knows will abort, most of the time
      if (o.k == O_REG && (!r.alive || r.reg.count(o.a)) && rng.below(10) != 0) continue;
      if (r.hist.size() > 600) r.hist = "(...) ";
      if (!r.step(o)) break;
      // capacity accounting ends with a refused registration (an abort), so it
      // is always the last action of a history
      if (rng.below(12) == 0) break;
    }
    if (!r.ended) r.capacity_probe();
    if (h < 2) mon::sample_str(std::string(BT<B>::name) + ": " + r.hist.substr(0, 300));
    mon::distinct(mon::mix(std::hash<std::string>()(r.hist), h));
  }
}

// fill the table completely with owners, one more must be refused
template<typename B>
static void fill_table()
{
  using CB = sandbox_callback<int (*)(int), B>;
  rlbox_sandbox<B> sb;
  BT<B>::create(sb);
  const auto& fns = cbpool::pool<B, POOL>();
  {
    std::vector<std::unique_ptr<CB>> owners;
    mon::ctx("%s/fill-table | registering %d", BT<B>::name, BT<B>::CAP);
    bool bad = false;
    for (int f = 0; f < BT<B>::CAP && !bad; f++) {
      CB c;
      bool ab = mon::aborts([&] { c = sb.register_callback(fns[f]); });
      if (ab || c.is_unregistered() || c.UNSAFE_sandboxed(sb) == 0) { report(BT<B>::name, "fill-table", "registration-refused-with-free-entry-point", mon::fmt("registration %d of %d", f + 1, BT<B>::CAP)); bad = true; }
      owners.push_back(std::make_unique<CB>(std::move(c)));
    }
    if (!bad) {
      CB c;
      bool ab = mon::aborts([&] { c = sb.register_callback(fns[BT<B>::CAP]); });
      if (!ab && !c.is_unregistered()) {
        report(BT<B>::name, "register-when-table-full", "returned-object-claims-registered",
               mon::fmt("history [register f0..f%d; register f%d]: the %dth registration returned an object with is_unregistered()==false and entry point %llu", BT<B>::CAP - 1, BT<B>::CAP, BT<B>::CAP + 1,
                        (unsigned long long)(uintptr_t)c.UNSAFE_sandboxed(sb)));
        new CB(std::move(c)); // leak the bogus owner: destroying it would act on a registration it does not have
      } else n_refused_full++;
      // a refused registration leaves the function unregistered: once an entry point is free it can be registered
      // (observable when the refusal is an exception and the client carries on)
      if (ab) {
        int k = BT<B>::CAP / 3;
        owners[k]->unregister();
        CB c2;
        mon::ctx("%s/fill-table | register the refused function again after releasing an entry point", BT<B>::name);
        bool ab2 = mon::aborts([&] { c2 = sb.register_callback(fns[BT<B>::CAP]); });
        if (ab2 || c2.is_unregistered()) {
          report(BT<B>::name, "register-after-refusal", "refused-function-cannot-be-registered-later",
                 mon::fmt("history [register f0..f%d; register f%d (refused: no free entry point); unregister f%d; register f%d]: the last registration %s although an entry point is free and f%d has no live owner",
                          BT<B>::CAP - 1, BT<B>::CAP, k, BT<B>::CAP, ab2 ? "aborted" : "returned an unregistered object", BT<B>::CAP));
        } else {
          cbpool::runlog.reset();
          int r = BT<B>::call(sb, c2, 1);
          if (cbpool::runlog.runs != 1 || cbpool::runlog.last_fn != BT<B>::CAP || r != 1 + BT<B>::CAP) report(BT<B>::name, "register-after-refusal", "entry-point-does-not-run-its-function", mon::fmt("ran f%d", cbpool::runlog.last_fn));
          else n_call_ok++;
          c2.unregister();
        }
        // restore the full table for the check below
        bool ab3 = mon::aborts([&] { *owners[k] = sb.register_callback(fns[k]); });
        if (ab3 || owners[k]->is_unregistered()) report(BT<B>::name, "register-after-refusal", "released-function-cannot-be-registered-again", mon::fmt("f%d", k));
      }
      // every entry point still runs its own function
      for (int f = 0; f < BT<B>::CAP; f++) {
        cbpool::runlog.reset();
        int r = BT<B>::call(sb, *owners[f], 1);
        if (cbpool::runlog.runs != 1 || cbpool::runlog.last_fn != f || r != 1 + f) report(BT<B>::name, "fill-table", "entry-point-does-not-run-its-function", mon::fmt("entry point %d ran f%d", f, cbpool::runlog.last_fn));
        else n_call_ok++;
      }
    }
    mon::evals(BT<B>::CAP + 1);
  }
  sb.destroy_sandbox();
}

template<typename B>
static void run_backend(mon::Rng& rng)
{
  fill_table<B>();
  // depth 5 (20.5 million sequences) only for the model backend in the thorough tier
  exhaustive<B>(mon::tier(3, std::is_same_v<B, VS> ? 5 : 4), 2, 3);
  // the same alphabet once more from the second incarnation with a stale owner of f0 around: stale and live owners of the
  // SAME function on the same sandbox object meet in every combination of register / move / overwrite / release
  exhaustive<B>(mon::tier(2, 4), 2, 3, { { O_REG, 0, 0 }, { O_DSBX, 0, 0 }, { O_CSBX, 0, 0 } });
  random_histories<B>(mon::tier(60, 1500), mon::tier(60, 300), rng);
}

int main(int argc, char** argv)
{
  mon::init("C13", argc, argv);
  mon::require("registrability-probe-matches-model");
  mon::require("entry-point-runs-its-function");
  mon::require("expected-abort-observed");
  mon::require("full-table-refusal-observed");
  mon::Rng rng(mon::seed() * 19 + 13 + mon::slice());
  g_lib.id = 1;
  g_lib.add("call_cb", reinterpret_cast<void*>(&guest_call_cb));
  int which = argc > 1 ? atoi(argv[1]) : -1;
  if (which < 0 || which == 0) run_backend<VS>(rng);
  if (which < 0 || which == 1) run_backend<rlbox_noop_sandbox>(rng);
  if (which < 0 || which == 2) run_backend<rlbox_dylib_sandbox>(rng);
  mon::evals(n_steps);
  mon::hit("registrability-probe-matches-model", n_probe_ok);
  mon::hit("entry-point-runs-its-function", n_call_ok);
  mon::hit("expected-abort-observed", n_expected_abort);
  mon::hit("full-table-refusal-observed", n_refused_full);
  mon::extra_num("distinct_abstract_states_visited", g_states.size());
  return mon::finish();
}
