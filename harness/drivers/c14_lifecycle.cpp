// C14: sandbox lifecycle is a strict state machine; the live-sandbox registry
// is exact.  Exhaustive exploration of all operation sequences up to a depth
// bound on 2..3 sandbox objects of one backend type in lock-step with a
// reference state machine, random histories beyond.  Model backend in FINDER
// style (registry on the translation path), two libraries exporting the same
// names; dylib backend over two shared objects for the symbol cache.
#include "world.hpp"
#include "cbpool.hpp"
#include "rlbox_dylib_sandbox.hpp"

#include <set>

using namespace rlbox;
using Cfg = vsbx_ilp32f;
using Wd = world::W<Cfg>;
using S = Wd::S;
using sbx = Wd::sbx;
using CB = sandbox_callback<int (*)(int), S>;

static vsbx_library g_lib[2];
// one distinct guest function per library (same exported name), so that a
// symbol address cached for an earlier incarnation is observable
template<int ID>
static int32_t g_lib_id()
{
  world::GEvent e;
  e.fn = "lib_id";
  e.instance = S::current();
  e.lib = ID;
  world::glog.push_back(e);
  return ID;
}

static void report(const char* op, const char* cls, const std::string& d) { mon::violation(mon::fmt("C14/%s/%s", op, cls), d); }

enum OpK : uint8_t { O_CREATE1, O_CREATE2, O_CREATEFAIL, O_DESTROY, O_MALLOC, O_FREE, O_REGISTER, O_UNREGISTER, O_INVOKE, O_APPPTR, O_XLATE, O_NOPS };
static const char* opn[] = { "create(lib1)", "create(lib2)", "create(fail)", "destroy", "malloc", "free", "register", "unregister", "invoke", "app_pointer", "translate" };
struct Op { uint8_t k, o; };

enum St { NC, CR, FAILED };
static uint64_t n_steps = 0, n_abort_ok = 0, n_ok = 0, n_registry_ok = 0, n_skipped = 0;
static std::set<uint64_t> g_states;

struct Runner
{
  int no;
  std::vector<std::unique_ptr<sbx>> sb;
  std::vector<std::unique_ptr<CB>> owner;
  std::vector<tainted<int*, S>> lastp;
  std::vector<tainted<int**, S>> lastcell; // a pointer cell in sandbox memory (for the tainted_volatile form of free)
  // model
  std::vector<St> st;
  std::vector<int> lib;           // library of the current incarnation
  std::vector<bool> registered;   // fn registered in the current incarnation
  std::vector<bool> owner_current; // owner object belongs to the current incarnation
  std::vector<uintptr_t> rep;     // a representative address (last known region + 128)
  std::vector<uintptr_t> base;
  std::string hist;
  bool ended = false;

  explicit Runner(int n) : no(n)
  {
    for (int i = 0; i < n; i++) {
      sb.push_back(std::make_unique<sbx>());
      owner.push_back(std::make_unique<CB>());
      lastp.push_back(nullptr);
      lastcell.push_back(nullptr);
    }
    st.assign(n, NC); lib.assign(n, 0); registered.assign(n, false); owner_current.assign(n, false); rep.assign(n, 0); base.assign(n, 0);
  }
  ~Runner()
  {
    bool ab = mon::aborts([&] {
      for (int i = 0; i < no; i++) owner[i].reset();
      for (int i = 0; i < no; i++)
        if (st[i] == CR) sb[i]->destroy_sandbox();
    });
    if (ab && !ended) report("teardown", "abort", hist);
  }
  void fail(const char* op, const char* cls, const std::string& d)
  {
    report(op, cls, mon::fmt("history [%s]: %s", hist.c_str(), d.c_str()));
    ended = true;
  }
  uint64_t key() const
  {
    uint64_t h = no;
    for (int i = 0; i < no; i++) h = mon::mix(h, st[i] * 16 + lib[i] * 4 + registered[i] * 2 + owner_current[i]);
    return h;
  }
  int owner_of(uintptr_t a) const
  {
    for (int i = 0; i < no; i++)
      if (st[i] == CR && a >= base[i] && a - base[i] < (size_t(1) << 16)) return i;
    return -1;
  }

  bool step(Op op)
  {
    if (ended) return false;
    int o = op.o;
    sbx& s = *sb[o];
    hist += mon::fmt("s%d.%s; ", o, opn[op.k]);
    mon::ctx("%s | %s", opn[op.k], hist.c_str());
    n_steps++;
    switch (op.k) {
      case O_CREATE1:
      case O_CREATE2:
      case O_CREATEFAIL: {
        bool want_fail = op.k == O_CREATEFAIL;
        int l = op.k == O_CREATE2 ? 1 : 0;
        bool ret = false;
        bool ab = mon::aborts([&] { ret = s.create_sandbox(&g_lib[l], !want_fail); });
        if (st[o] == CR) {
          if (!ab) { fail("create", "create-on-created-sandbox-did-not-abort", mon::fmt("returned %d", ret)); return false; }
          n_abort_ok++; ended = true; return false;
        }
        if (st[o] == FAILED) {
          // the statement does not say whether a retry after a failed creation must work
          if (ab) { ended = true; return false; }
          if (ret && !want_fail) { st[o] = CR; lib[o] = l + 1; registered[o] = false; owner_current[o] = false; base[o] = Wd::base(s); rep[o] = base[o] + 128; }
          break;
        }
        if (ab) { fail("create", "create-on-not-created-sandbox-aborted", ""); return false; }
        if (want_fail) {
          if (ret) { fail("create", "failed-creation-reported-success", ""); return false; }
          st[o] = FAILED;
        } else {
          if (!ret) { fail("create", "successful-creation-reported-failure", ""); return false; }
          st[o] = CR; lib[o] = l + 1; registered[o] = false; owner_current[o] = false; base[o] = Wd::base(s); rep[o] = base[o] + 128;
        }
        n_ok++;
        break;
      }
      case O_DESTROY: {
        bool ab = mon::aborts([&] { s.destroy_sandbox(); });
        if (st[o] != CR) {
          if (!ab) { fail("destroy", "destroy-on-not-created-sandbox-did-not-abort", mon::fmt("state %s", st[o] == NC ? "not-created" : "failed-creation")); return false; }
          n_abort_ok++; ended = true; return false;
        }
        if (ab) { fail("destroy", "destroy-on-created-sandbox-aborted", ""); return false; }
        st[o] = NC; registered[o] = false; owner_current[o] = false;
        n_ok++;
        break;
      }
      case O_MALLOC: {
        tainted<int*, S> p = nullptr;
        bool ab = mon::aborts([&] { p = s.malloc_in_sandbox<int>(4); });
        if (ab) { fail("malloc", "abort", mon::fmt("state %d", st[o])); return false; }
        uintptr_t a = reinterpret_cast<uintptr_t>(p.UNSAFE_unverified());
        if (st[o] == CR) {
          if (a == 0 || owner_of(a) != o) { fail("malloc", "allocation-not-inside-own-sandbox", mon::fmt("returned %p", (void*)a)); return false; }
          lastp[o] = p;
        } else if (a != 0) { fail("malloc", "allocation-outside-lifetime-window-not-null", mon::fmt("returned %p", (void*)a)); return false; }
        n_ok++;
        break;
      }
      case O_FREE: {
        // the three forms of free_in_sandbox: tainted pointer, reference to a pointer cell in sandbox memory, opaque pointer.
        // Outside the window the cell form must not even read the cell (the memory may be gone: the model unmaps it)
        // chosen by the history so far (deterministic per history, so a replay takes the same form)
        int form = static_cast<int>(std::hash<std::string>()(hist) % 3);
        if (form == 1 && st[o] == CR) {
          tainted<int**, S> cell = nullptr;
          bool abm = mon::aborts([&] { cell = s.malloc_in_sandbox<int*>(); });
          if (abm || !cell) form = 0;
          else { *cell = lastp[o]; lastcell[o] = cell; }
        }
        if (form == 1 && !lastcell[o]) form = 0;
        vsbx_ev.frees = 0;
        bool ab = mon::aborts([&] {
          if (form == 0) s.free_in_sandbox(lastp[o]);
          else if (form == 1) s.free_in_sandbox(*lastcell[o]);
          else s.free_in_sandbox(lastp[o].to_opaque());
        });
        mon::hit(form == 0 ? "free-form/tainted" : (form == 1 ? "free-form/tainted_volatile-cell" : "free-form/tainted_opaque"));
        if (ab) { fail("free", "abort", mon::fmt("state %d, form %d", st[o], form)); return false; }
        if (st[o] != CR && vsbx_ev.frees != 0) { fail("free", "free-outside-lifetime-window-reached-backend", ""); return false; }
        if (st[o] == CR && vsbx_ev.frees != 1) { fail("free", "free-inside-lifetime-window-not-performed", ""); return false; }
        if (st[o] == CR) lastp[o] = nullptr;
        n_ok++;
        break;
      }
      case O_REGISTER: {
        CB fresh;
        bool ab = mon::aborts([&] { fresh = s.register_callback(cbpool::pool<S, 4>()[0]); });
        if (st[o] != CR) {
          if (!ab) { fail("register", "registration-outside-lifetime-window-did-not-abort", ""); new CB(std::move(fresh)); return false; }
          // a refused registration is an abort the client may catch and carry on from: it changed nothing, so the history
          // goes on with the model as it was (what it must not do is leave something behind that a later window sees)
          n_abort_ok++; mon::hit("history-continued-after-a-refused-registration"); break;
        }
        if (registered[o]) {
          if (!ab) { fail("register", "second-registration-did-not-abort", ""); return false; }
          n_abort_ok++; mon::hit("history-continued-after-a-refused-registration"); break;
        }
        if (ab) { fail("register", "registration-aborted-in-fresh-incarnation", "the function is not registered in this incarnation"); return false; }
        *owner[o] = std::move(fresh);
        registered[o] = true; owner_current[o] = true;
        n_ok++;
        break;
      }
      case O_UNREGISTER: {
        bool ab = mon::aborts([&] { owner[o]->unregister(); });
        if (ab) { fail("unregister", "abort", mon::fmt("state %d, owner of %s incarnation", st[o], owner_current[o] ? "the current" : "an earlier/no")); return false; }
        if (owner_current[o]) { registered[o] = false; owner_current[o] = false; }
        n_ok++;
        break;
      }
      case O_INVOKE: {
        if (st[o] != CR) { n_skipped++; return true; } // invoking a sandbox that is not created is not driven
        // the address of the function (the backend's internal representation) must be that of the *current* incarnation's
        // library; taken before or after the by-name invocation, alternating
        auto addr_ok = [&]() -> bool {
          void* got = nullptr;
          bool ab2 = mon::aborts([&] { got = reinterpret_cast<void*>(s.template INTERNAL_get_sandbox_function_name<int()>("lib_id").UNSAFE_unverified()); });
          void* want = g_lib[lib[o] - 1].exports.at("lib_id").internal_addr;
          if (ab2 || got != want) {
            fail("function-address", "address-from-another-incarnation-or-library",
                 mon::fmt("sandbox %d runs library %d: get_sandbox_function_address(lib_id) gave %p, this library's function is %p (library 1: %p, library 2: %p)%s", o, lib[o], got, want,
                          g_lib[0].exports.at("lib_id").internal_addr, g_lib[1].exports.at("lib_id").internal_addr, ab2 ? " (aborted)" : ""));
            return false;
          }
          return true;
        };
        bool addr_first = (n_steps & 1) != 0;
        if (addr_first && !addr_ok()) return false;
        world::glog.clear();
        int r = -1;
        bool ab = mon::aborts([&] { r = s.template INTERNAL_invoke_with_func_name<int()>("lib_id").UNSAFE_unverified(); });
        if (ab) { fail("invoke", "abort", ""); return false; }
        if (world::glog.size() != 1 || world::glog[0].lib != lib[o] || r != lib[o] || world::glog[0].instance != s.get_sandbox_impl()) {
          fail("invoke", "by-name-invocation-reached-wrong-library",
               mon::fmt("sandbox %d was created over library %d; invoke(\"lib_id\") ran in library %d (instance %s), returned %d", o, lib[o], world::glog.empty() ? -1 : world::glog[0].lib,
                        (!world::glog.empty() && world::glog[0].instance == s.get_sandbox_impl()) ? "own" : "other", r));
          return false;
        }
        if (!addr_first && !addr_ok()) return false;
        n_ok++;
        break;
      }
      case O_APPPTR: {
        if (st[o] != CR) { n_skipped++; return true; }
        static int target;
        bool okk = false;
        bool ab = mon::aborts([&] {
          auto ap = s.get_app_pointer(&target);
          auto t = ap.to_tainted();
          okk = owner_of(reinterpret_cast<uintptr_t>(t.UNSAFE_unverified())) == o && s.lookup_app_ptr(t) == &target;
        });
        if (ab || !okk) { fail("app_pointer", "token-not-usable-inside-lifetime-window", ab ? "aborted" : "token outside own region or wrong lookup"); return false; }
        n_ok++;
        break;
      }
      case O_XLATE: {
        if (st[o] != CR) { n_skipped++; return true; }
        uint64_t off = 4096 + 8 * (n_steps % 512);
        uint64_t back = 0;
        uintptr_t a = 0;
        bool ab = mon::aborts([&] {
          auto cell = Wd::tptr<int*>(s, 64);
          *cell = Wd::tptr<int>(s, off);              // example-based to-sandbox
          back = Wd::rd<uint32_t>(s, 64);
          tainted<int*, S> q = *cell;                 // example-based to-application
          a = reinterpret_cast<uintptr_t>(q.UNSAFE_unverified());
        });
        if (ab) { fail("translate", "example-based-translation-aborted-inside-lifetime-window", "the registry does not find the sandbox from an address inside its memory"); return false; }
        if (back != off || a != base[o] + off) {
          fail("translate", "translated-relative-to-another-sandbox", mon::fmt("offset %llu stored as %llu, loaded as %p (own base %p)", (unsigned long long)off, (unsigned long long)back, (void*)a, (void*)base[o]));
          return false;
        }
        n_ok++;
        break;
      }
    }
    return observe();
  }

  // registry exactness through the public static predicate (no memory touched)
  bool observe()
  {
    g_states.insert(key());
    static int app_obj;
    std::vector<uintptr_t> addrs;
    for (int i = 0; i < no; i++) if (rep[i]) { addrs.push_back(rep[i]); addrs.push_back(rep[i] - 128 + 65535); }
    addrs.push_back(reinterpret_cast<uintptr_t>(&app_obj));
    for (size_t x = 0; x < addrs.size(); x++)
      for (size_t y = x; y < addrs.size(); y++) {
        bool expect = owner_of(addrs[x]) == owner_of(addrs[y]);
        bool got = false;
        bool ab = mon::aborts([&] { got = sbx::is_in_same_sandbox(reinterpret_cast<void*>(addrs[x]), reinterpret_cast<void*>(addrs[y])); });
        if (ab || got != expect) {
          fail("registry", "address-attributed-to-wrong-sandbox",
               mon::fmt("addresses %p (model: %d) and %p (model: %d): is_in_same_sandbox=%d%s (-1 = no live sandbox)", (void*)addrs[x], owner_of(addrs[x]), (void*)addrs[y], owner_of(addrs[y]), got,
                        ab ? " (aborted)" : ""));
          return false;
        }
        n_registry_ok++;
      }
    return true;
  }
};

static void exhaustive(int depth, int no)
{
  std::vector<Op> alpha;
  for (int o = 0; o < no; o++) for (int k = 0; k < O_NOPS; k++) alpha.push_back({ (uint8_t)k, (uint8_t)o });
  size_t A = alpha.size();
  std::vector<size_t> idx(depth, 0);
  uint64_t seqs = 0;
  bool done = false;
  while (!done) {
    if (idx[0] % mon::nslices() == mon::slice()) {
      Runner r(no);
      int ended_at = depth;
      for (int d = 0; d < depth; d++)
        if (!r.step(alpha[idx[d]])) { ended_at = d; break; }
      seqs++;
      if (ended_at < depth - 1) for (int d = ended_at + 1; d < depth; d++) idx[d] = A - 1;
    } else {
      for (int d = 1; d < depth; d++) idx[d] = A - 1;
    }
    int d = depth - 1;
    while (d >= 0) { if (++idx[d] < A) break; idx[d] = 0; d--; }
    if (d < 0) done = true;
  }
  mon::distinct_counted(seqs);
  mon::sample(mon::fmt("{\"mode\":\"exhaustive\",\"objects\":%d,\"depth\":%d,\"alphabet\":%zu,\"sequences_replayed\":%llu}", no, depth, A, (unsigned long long)seqs));
}

static void random_histories(int count, int len, mon::Rng& rng)
{
  for (int h = 0; h < count; h++) {
    Runner r(3);
    for (int s = 0; s < len; s++) {
      Op op{ (uint8_t)rng.below(O_NOPS), (uint8_t)rng.below(3) };
      int o = op.o;
      // steer away from operations the model knows will abort (they end the history), most of the time
      bool will_abort = (op.k <= O_CREATEFAIL && r.st[o] == CR) || (op.k == O_DESTROY && r.st[o] != CR) || (op.k == O_REGISTER && (r.st[o] != CR || r.registered[o])) ||
                        (op.k <= O_CREATEFAIL && r.st[o] == FAILED);
      if (will_abort && rng.below(20) != 0) continue;
      if (op.k == O_CREATEFAIL && rng.below(4) != 0) continue;
      if (r.hist.size() > 500) r.hist = "(...) ";
      if (!r.step(op)) break;
    }
    if (h < 2) mon::sample_str(r.hist.substr(0, 300));
    mon::distinct(mon::mix(std::hash<std::string>()(r.hist), h));
  }
}

// ---- dylib backend: symbol cache across incarnations over two shared objects
static void dylib_incarnations(mon::Rng& rng)
{
  const char* libs[2] = { getenv("VERIF_GUEST1"), getenv("VERIF_GUEST2") };
  if (!libs[0] || !libs[1]) { mon::note("VERIF_GUEST1/2 not set: dylib part skipped"); return; }
  rlbox_sandbox<rlbox_dylib_sandbox> a, b;
  int cur_a = -1, cur_b = -1;
  std::string hist;
  for (int i = 0; i < mon::tier(30, 400); i++) {
    bool which = rng.coin();
    auto& s = which ? a : b;
    int& cur = which ? cur_a : cur_b;
    mon::ctx("dylib-incarnations | %s", hist.c_str());
    if (hist.size() > 300) hist = "(...) ";
    if (cur < 0) {
      int l = rng.below(2);
      s.create_sandbox(libs[l]);
      cur = l;
      hist += mon::fmt("%c.create(lib%d); ", which ? 'a' : 'b', l + 1);
    } else if (rng.below(3) == 0) {
      s.destroy_sandbox();
      cur = -1;
      hist += mon::fmt("%c.destroy; ", which ? 'a' : 'b');
    } else {
      hist += mon::fmt("%c.invoke(lib_id); ", which ? 'a' : 'b');
      // the call may jump into an unloaded library if a stale address is used: run it in a child first
      auto res = mon::in_child([&] { int r = s.INTERNAL_invoke_with_func_name<int()>("lib_id").UNSAFE_unverified(); if (r != cur + 1) _exit(33); });
      mon::evals();
      if (!res.completed()) {
        report("invoke", res.exited && res.code == 33 ? "by-name-invocation-reached-wrong-library" : "by-name-invocation-used-stale-symbol-address",
               mon::fmt("dylib backend, history [%s]: sandbox re-created over library %d, invoke(\"lib_id\") %s", hist.c_str(), cur + 1, res.str().c_str()));
        break;
      }
      int r = s.INTERNAL_invoke_with_func_name<int()>("lib_id").UNSAFE_unverified();
      if (r != cur + 1) { report("invoke", "by-name-invocation-reached-wrong-library", hist); break; }
      n_ok++;
    }
  }
  if (cur_a >= 0) a.destroy_sandbox();
  if (cur_b >= 0) b.destroy_sandbox();
  mon::distinct(mon::mix(0xd71b, std::hash<std::string>()(hist)));
}

int main(int argc, char** argv)
{
  mon::init("C14", argc, argv);
  mon::require("expected-abort-observed");
  mon::require("operation-matches-state-machine");
  mon::require("registry-attribution-exact");
  mon::Rng rng(mon::seed() * 23 + 14 + mon::slice());
  g_lib[0].id = 1;
  g_lib[0].add("lib_id", reinterpret_cast<void*>(&g_lib_id<1>));
  g_lib[1].id = 2;
  g_lib[1].add("lib_id", reinterpret_cast<void*>(&g_lib_id<2>));
  int part = argc > 1 ? atoi(argv[1]) : -1;
  if (part < 0 || part == 0) exhaustive(mon::tier(4, 5), 2);
  if (part < 0 || part == 1) exhaustive(mon::tier(3, 4), 3);
  if (part < 0 || part == 2) { random_histories(mon::tier(150, 20000), mon::tier(80, 300), rng); dylib_incarnations(rng); }
  mon::evals(n_steps);
  mon::hit("expected-abort-observed", n_abort_ok);
  mon::hit("operation-matches-state-machine", n_ok);
  mon::hit("registry-attribution-exact", n_registry_ok);
  mon::hit("not-driven-outside-lifetime-window", n_skipped);
  mon::extra_num("distinct_abstract_states_visited", g_states.size());
  return mon::finish();
}
