// C10 with size operands of an integer type wider than size_t (GNU dialect: __int128 / unsigned __int128 are integer types
// and memset/memcpy/memcmp accept any integer as their size).  "extents larger than the sandbox ... never proceed": a size
// whose value is negative or beyond 2^64 is not the small number its low 64 bits spell.  Oracle: abort, and not one byte of
// the region changed.  Sizes that are small in value must be carried out like any other integer type's.
#include "world.hpp"
#if !defined(__SIZEOF_INT128__) || defined(__STRICT_ANSI__)
#  error "build with -std=gnu++17"
#endif
using namespace rlbox;
using Cfg = vsbx_ilp32;
using Wd = world::W<Cfg>;
using S = Wd::S;
using i128 = __int128;
using u128 = unsigned __int128;

static uint64_t n_abort = 0, n_done = 0;
static void bad(const char* op, const char* tn, const char* cls, const std::string& d) { mon::violation(mon::fmt("C10/%s/size-operand-%s/%s", op, tn, cls), d); }
static std::string s128(i128 v) { bool neg = v < 0; u128 m = neg ? -(u128)v : (u128)v; std::string r; do { r.insert(r.begin(), char('0' + (int)(m % 10))); m /= 10; } while (m); return (neg ? "-" : "") + r; }

template<typename N>
static void probe(Wd::sbx& sb, const char* tn)
{
  const uint64_t total = sb.get_total_memory();
  std::vector<i128> sizes;
  for (int low : { 1, 16, 64 }) {
    sizes.push_back(low);                                        // legal
    sizes.push_back((static_cast<i128>(1) << 64) + low);         // low bits spell a small size
    sizes.push_back((static_cast<i128>(1) << 100) + low);
    sizes.push_back(-((static_cast<i128>(1) << 64) - low));      // negative, low bits spell `low`
    sizes.push_back(-static_cast<i128>(low));
  }
  auto dst = Wd::tptr<unsigned char>(sb, 4096);
  auto src = Wd::tptr<unsigned char>(sb, 8192);
  unsigned char* d = reinterpret_cast<unsigned char*>(Wd::base(sb) + 4096);
  unsigned char* s = reinterpret_cast<unsigned char*>(Wd::base(sb) + 8192);
  for (i128 v : sizes) {
    if (std::is_unsigned_v<N> && v < 0) continue;
    N n = static_cast<N>(v);
    if (static_cast<i128>(n) != v) continue; // not a value of N
    bool legal = v > 0 && static_cast<u128>(v) <= total;
    for (int op = 0; op < 3; op++) {
      const char* on = op == 0 ? "memset" : (op == 1 ? "memcpy" : "memcmp");
      memset(d, 0x11, 128); memset(s, 0x22, 128);
      mon::ctx("%s | size operand %s of type %s", on, s128(v).c_str(), tn);
      bool ab = mon::aborts([&] {
        if (op == 0) rlbox::memset(sb, dst, 0x5a, n);
        else if (op == 1) rlbox::memcpy(sb, dst, src, n);
        else { auto r = rlbox::memcmp(sb, dst, src, n); (void)r; }
      });
      mon::evals();
      mon::distinct(mon::mix(std::hash<std::string>()(tn), mon::mix(op, mon::mix((uint64_t)v, (uint64_t)(v >> 64)))));
      bool changed = false;
      for (int i = 0; i < 128; i++) changed = changed || d[i] != 0x11;
      if (legal) {
        if (ab) bad(on, tn, "legal-request-refused", s128(v));
        else if (op != 2 && !changed) bad(on, tn, "legal-request-not-carried-out", s128(v));
        else n_done++;
      } else {
        if (!ab) bad(on, tn, "size-outside-the-sandbox-proceeded", mon::fmt("size %s was accepted%s", s128(v).c_str(), changed ? " and destination bytes changed" : ""));
        else if (changed) bad(on, tn, "refused-request-wrote", s128(v));
        else n_abort++;
      }
    }
  }
}

int main(int argc, char** argv)
{
  mon::init("C10", argc, argv);
  mon::require("wide-size-operand-refused");
  mon::require("wide-size-operand-carried-out");
  vsbx_library lib;
  lib.id = 1;
  Wd::sbx sb;
  sb.create_sandbox(&lib);
  probe<i128>(sb, "__int128");
  probe<u128>(sb, "unsigned __int128");
  probe<long>(sb, "long"); // control: a 64-bit type through the same oracle (values beyond 64 bits skipped by truncation check below)
  mon::hit("wide-size-operand-refused", n_abort);
  mon::hit("wide-size-operand-carried-out", n_done);
  sb.destroy_sandbox();
  return mon::finish();
}
