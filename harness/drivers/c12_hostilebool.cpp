// C12/C06 for bool-valued callback parameters and results: sandboxed code is not bound by the calling convention, it can pass
// any byte where a bool is expected.  The guest side here calls the callback's entry point through a function type whose
// parameter is unsigned char (same register, same size) with the bytes 0, 1, 2, 3, 0x80, 0xfe, 0xff.  The callback must see the
// faithful value (0 or 1) or the call must abort before its body runs; a body that runs for byte 2 has received something the
// guest never passed.  (RLBox types the crossing as bool, so whether the raw byte is still there to be checked depends on the
// code generator: see DESIGN section 9, open finding.)
#include "world.hpp"

using namespace rlbox;
using Cfg = vsbx_ilp32;
using Wd = world::W<Cfg>;
using S = Wd::S;

enum class Flag : bool { Off = false, On = true };
static int g_ran = 0;
static unsigned g_seen = 99;
static tainted<bool, S> cb_bool(rlbox_sandbox<S>&, tainted<bool, S> b) { g_ran++; bool v = b.UNSAFE_unverified(); g_seen = v ? 1 : 0; return b; }
static tainted<Flag, S> cb_flag(rlbox_sandbox<S>&, tainted<Flag, S> f) { g_ran++; g_seen = f.UNSAFE_unverified() == Flag::On ? 1 : 0; return f; }
static uint64_t n_ok = 0;

#if defined(__clang__)
#define COMPILER "clang"
#else
#define COMPILER "gcc"
#endif

// the guest: calls the entry point it was given with the raw byte
static uint32_t g_call_raw(Wd::P cb, uint32_t byte)
{
  return S::current()->template call_indirect<unsigned char, unsigned char>(static_cast<uint64_t>(cb), static_cast<unsigned char>(byte));
}

template<typename Sig, typename CB>
static void probe(Wd::sbx& sb, const char* tn, CB& cb)
{
  for (unsigned byte : { 0u, 1u, 2u, 3u, 0x80u, 0xfeu, 0xffu }) {
    g_ran = 0; g_seen = 99;
    unsigned ret = 0;
    mon::ctx("hostile-bool-callback-argument/%s | guest passes byte 0x%02x", tn, byte);
    bool ab = mon::aborts([&] { ret = Wd::invoke<unsigned(Sig, unsigned)>(sb, "call_raw", cb, byte).UNSAFE_unverified(); });
    mon::evals();
    if (byte <= 1) {
      if (ab || g_ran != 1 || g_seen != byte || ret != byte)
        mon::violation(mon::fmt("C12/model/hostile-bool-callback-argument/%s/valid-value-not-delivered", tn), mon::fmt("byte %u: aborted=%d ran=%d saw=%u returned=%u", byte, ab, g_ran, g_seen, ret));
      else n_ok++;
    } else {
      if (!ab && g_ran)
        mon::violation(mon::fmt("C12/model/hostile-bool-callback-argument/%s/accepted-as-another-value", tn),
                       mon::fmt("%s build: the guest passed the byte 0x%02x for a %s parameter; the callback body ran and saw %s (no abort) -- a value the guest never passed", COMPILER, byte, tn, g_seen ? "true" : "false"));
      else n_ok++;
    }
  }
}

int main(int argc, char** argv)
{
  mon::init("C12", argc, argv);
  mon::require("hostile-bool-callback-argument/judged");
  vsbx_library lib;
  lib.id = 1;
  lib.add("call_raw", reinterpret_cast<void*>(&g_call_raw));
  Wd::sbx sb;
  sb.create_sandbox(&lib);
  auto c1 = sb.register_callback(cb_bool);
  auto c2 = sb.register_callback(cb_flag);
  probe<bool (*)(bool)>(sb, "bool", c1);
  probe<Flag (*)(Flag)>(sb, "enum : bool", c2);
  mon::hit("hostile-bool-callback-argument/judged", n_ok);
  mon::distinct(1); mon::distinct(2);
  mon::sample("{\"compiler\":\"" COMPILER "\"}");
  c1.unregister(); c2.unregister();
  sb.destroy_sandbox();
  return mon::finish();
}
