// C03: every tainted data pointer is null or points into its own sandbox.
// (a) hostile representations in every to-application position;
// (b) random chains of pointer-producing operations with chk() after each step;
// several sandboxes are alive so "its own sandbox" is distinguishable.
#include "ptrpos.hpp"

#include <functional>
#include <set>

using namespace pp;

static uint64_t n_inside = 0, n_null = 0, n_abort = 0;
static std::vector<std::unique_ptr<Inst>> live;
static vsbx_library lib1;

static void report(const char* what, const char* cls, const std::string& d) { mon::violation(mon::fmt("C03/%s/%s", what, cls), d); }

static const char* whose(uintptr_t a)
{
  static thread_local char buf[64];
  for (size_t i = 0; i < live.size(); i++)
    if (live[i]->inside(a)) { snprintf(buf, sizeof buf, "inside live instance #%zu", i); return buf; }
  return a == 0 ? "null" : "outside every live sandbox";
}

// the invariant
static bool chk(Inst& in, uintptr_t a)
{
  if (a == 0) { n_null++; return true; }
  if (in.inside(a)) { n_inside++; return true; }
  return false;
}

// ----------------------------------------------------------- (a) hostile reprs
static void hostile_position(Inst& in, size_t which, ToApp pos, uint64_t r)
{
  mon::ctx("hostile/%s | instance %zu repr=%llu", toapp_name[pos], which, (unsigned long long)r);
  uintptr_t got = 0;
  bool ab = mon::aborts([&] { got = to_app(in, pos, r, static_cast<int>(r & 3)); });
  mon::evals();
  if (ab) { n_abort++; return; }
  if (!chk(in, got))
    report("hostile-representation", toapp_name[pos],
           mon::fmt("%s: guest representation %llu (0x%llx) in position %s of instance %zu/%zu produced tainted pointer %p (%s; own region %p+%zu)", Cfg::name, (unsigned long long)r,
                    (unsigned long long)r, toapp_name[pos], which, live.size(), (void*)got, whose(got), (void*)in.base, in.size));
}

static std::vector<uint64_t> hostile_values(Inst& in, mon::Rng& rng, int nrand)
{
  std::vector<uint64_t> v = { 0, 1, in.size - 1, in.size, in.size + 1, 0x7fffffffu, 0x80000000u, 0x80000001u, 0xffffffffu, 0xfffffffeu, 0x100000000ull, 0x100000001ull,
                              0xffffffffffffffffull, 0x8000000000000000ull, static_cast<uint64_t>(in.base), static_cast<uint64_t>(in.base) + 8 };
  for (int b = 0; b < 64; b++) { v.push_back((1ull << b) - 1); v.push_back(1ull << b); v.push_back((1ull << b) + 1); }
  // the low bits of other live regions and application addresses
  static int app_var;
  v.push_back(reinterpret_cast<uintptr_t>(&app_var));
  for (auto& o : live) v.push_back(static_cast<uint64_t>(o->base) + 16);
  for (int i = 0; i < nrand; i++) v.push_back(rng.coin() ? rng() : (rng() & 0xffffffffu));
  // only representations the guest can actually produce
  std::vector<uint64_t> out;
  for (auto x : v) out.push_back(static_cast<uint64_t>(static_cast<P>(x)));
  return out;
}

// ----------------------------------------------------------- (b) chains
struct ChainState
{
  Inst* in;
  uintptr_t cur; // current pointer value (application address) or 0
  std::string hist;
};

template<typename T>
static tainted<T*, S> as(Inst& in, uintptr_t a)
{
  // re-create a tainted<T*> for an address known to satisfy the invariant
  if (a == 0) return nullptr;
  return sandbox_reinterpret_cast<T*>(in.sb->UNSAFE_accept_pointer(reinterpret_cast<char*>(a)));
}

static const int64_t n_choices[] = { 0, 1, -1, 2, -2, 3, 7, 8, -8, 16, 255, 256, -256, 4096, -4096, 16383, 16384, 65535, 65536, -65536, 65537, 1 << 20, -(1 << 20),
                                     2147483647LL, -2147483648LL, 4294967295LL, 4294967296LL, -4294967296LL, (1LL << 61), (1LL << 62), -(1LL << 62), INT64_MAX, INT64_MIN };

template<typename T> const char* pname();
template<> const char* pname<char>() { return "char"; }
template<> const char* pname<int>() { return "int"; }
template<> const char* pname<long>() { return "long"; }
template<> const char* pname<PS>() { return "PS"; }
template<> const char* pname<int*>() { return "int*"; }
template<typename T> constexpr size_t galign() { if constexpr (std::is_same_v<T, PS>) return alignof(GPS); else return alignof(ref::guest_t<Cfg, T>); }

template<typename T>
static uintptr_t arith_step(Inst& in, uintptr_t cur, int op, int64_t n, std::string& desc)
{
  auto p = as<T>(in, cur);
  desc += mon::fmt("(%s*)", pname<T>());
  switch (op) {
    case 0: desc += mon::fmt("+%lld ", (long long)n); return reinterpret_cast<uintptr_t>((p + n).UNSAFE_unverified());
    case 1: desc += mon::fmt("-%lld ", (long long)n); return reinterpret_cast<uintptr_t>((p - n).UNSAFE_unverified());
    case 2: desc += mon::fmt("+=%lld ", (long long)n); p += n; return reinterpret_cast<uintptr_t>(p.UNSAFE_unverified());
    case 3: desc += mon::fmt("-=%lld ", (long long)n); p -= n; return reinterpret_cast<uintptr_t>(p.UNSAFE_unverified());
    case 4: desc += "++ "; ++p; return reinterpret_cast<uintptr_t>(p.UNSAFE_unverified());
    case 5: desc += "-- "; p--; return reinterpret_cast<uintptr_t>(p.UNSAFE_unverified());
    default:
      if (cur % galign<T>() != 0) { desc += "(skip &[] on misaligned) "; return cur; } // forming the element reference would be UB in any client
      desc += mon::fmt("&[%lld] ", (long long)n);
      if constexpr (!std::is_class_v<T>) return reinterpret_cast<uintptr_t>((&p[n]).UNSAFE_unverified());
      else return reinterpret_cast<uintptr_t>(std::addressof(p[n]));
  }
}

// returns false when the chain must end (abort or violation)
static bool chain_step(ChainState& st, mon::Rng& rng)
{
  Inst& in = *st.in;
  sbx& sb = *in.sb;
  uintptr_t cur = st.cur, next = 0;
  std::string desc;
  const char* opclass = "?";
  const char* disc = "-";
  int kind = rng.below(15);
  int64_t n = n_choices[rng.below(sizeof(n_choices) / sizeof(n_choices[0]))];
  if (rng.below(4) == 0) n = rng.range(-70000, 70000);
  static const char* kind_name[] = { "arithmetic", "arithmetic", "arithmetic", "arithmetic", "arithmetic", "deref-pointer-to-pointer", "address-of-field", "cast",
                                     "malloc_in_sandbox", "app_pointer-to_tainted", "copy_memory_or_grant_access", "address-of-deref", "index-null", "copy_and_verify_address", "field-of-null" };
  mon::ctx("chain/%s | %s n=%lld", kind_name[kind], st.hist.c_str(), (long long)n);
  bool ab = mon::aborts([&] {
    switch (kind) {
      case 0: opclass = "arithmetic"; next = arith_step<char>(in, cur, rng.below(7), n, desc); break;
      case 1: opclass = "arithmetic"; next = arith_step<int>(in, cur, rng.below(7), n, desc); break;
      case 2: opclass = "arithmetic"; next = arith_step<long>(in, cur, rng.below(7), n, desc); break;
      case 3: opclass = "arithmetic"; next = arith_step<PS>(in, cur, rng.below(6), n, desc); break;
      case 4: opclass = "arithmetic"; next = arith_step<int*>(in, cur, rng.below(7), n, desc); break;
      case 5: { // dereference a pointer to pointer (reads sizeof(P) bytes at cur: only when they are inside)
        opclass = "deref-pointer-to-pointer";
        if (cur == 0 || !in.inside(cur + sizeof(P) - 1) || (cur % alignof(P)) != 0) { next = cur; desc += "(skip **) "; break; }
        // hostile content
        uint64_t r = rng.coin() ? rng() : rng.below(in.size);
        Wd::wr<P>(sb, cur - in.base, static_cast<P>(r));
        tainted<int**, S> ppv = as<int*>(in, cur);
        tainted<int*, S> q = *ppv;
        next = addr_of(q);
        desc += mon::fmt("*(int**) [cell holds %llu] ", (unsigned long long)static_cast<P>(r));
        break;
      }
      case 6: { // address of a struct field / array-field element / nested field
        opclass = "address-of-field";
        if (cur == 0 || cur % alignof(GPS) != 0) { next = cur; desc += "(skip ->) "; break; }
        auto ps = as<PS>(in, cur);
        if (!in.inside(cur + sizeof(GPS) - 1)) disc = "pointee-straddles-region-end";
        switch (rng.below(5)) {
          case 0: next = addr_any(&ps->ptr); desc += "&->ptr "; break;
          case 1: next = addr_any(&ps->v); desc += "&->v "; break;
          case 2: { int i = rng.below(3); next = addr_any(&ps->arr[i]); desc += mon::fmt("&->arr[%d] ", i); break; }
          case 3: next = addr_any(&ps->in.cp); desc += "&->in.cp "; break;
          default: next = addr_any(&ps->cs); desc += "&->cs "; break;
        }
        break;
      }
      case 7: { // casts
        opclass = "cast";
        auto p = as<int>(in, cur);
        switch (rng.below(4)) {
          case 0: next = addr_any(sandbox_reinterpret_cast<long*>(p)); desc += "reinterpret<long*> "; break;
          case 1: next = addr_any(sandbox_const_cast<const int*>(p)); desc += "const_cast "; break;
          case 2: next = reinterpret_cast<uintptr_t>(sandbox_static_cast<void*>(p).UNSAFE_unverified()); desc += "static<void*> "; break;
          default: next = addr_of(from_opaque(p.to_opaque())); desc += "opaque-roundtrip "; break;
        }
        break;
      }
      case 8: { // allocation
        opclass = "malloc_in_sandbox";
        static const uint32_t counts[] = { 1, 2, 3, 8, 100, 4096, 16383, 16384, 16385, 65535, 65536, 1u << 20, 0x7fffffffu, 0xffffffffu };
        uint32_t c = counts[rng.below(sizeof(counts) / sizeof(counts[0]))];
        if (rng.coin()) { next = addr_any(sb.malloc_in_sandbox<int>(c)); desc += mon::fmt("malloc<int>(%u) ", c); }
        else { next = addr_any(sb.malloc_in_sandbox<PS>(c)); desc += mon::fmt("malloc<PS>(%u) ", c); }
        if (next && !in.inside(next)) disc = "allocation";
        break;
      }
      case 9: { // app pointer token
        opclass = "app_pointer-to_tainted";
        static int target;
        auto ap = sb.get_app_pointer(&target);
        next = addr_of(ap.to_tainted());
        desc += "app_pointer.to_tainted ";
        break;
      }
      case 10: { // grant access (model backend copies)
        opclass = "copy_memory_or_grant_access";
        size_t len = 1 + rng.below(64);
        char* src = static_cast<char*>(malloc(len));
        memset(src, 'x', len);
        bool copied = false;
        auto t = copy_memory_or_grant_access(sb, src, len, true, copied);
        if (!copied) free(src);
        next = addr_any(t);
        desc += mon::fmt("grant(%zu) ", len);
        break;
      }
      case 11: { // address of a dereferenced cell, const-cast back
        opclass = "address-of-deref";
        if (cur == 0 || cur % galign<int>() != 0) { next = cur; desc += "(skip &*) "; break; }
        auto p = as<int>(in, cur);
        next = addr_any(sandbox_const_cast<int*>(&(*p)));
        desc += "&* ";
        break;
      }
      case 12: { // indexing a null pointer
        opclass = "index-null";
        tainted<int*, S> np = nullptr;
        next = addr_any(&np[n]);
        desc += mon::fmt("&null[%lld] ", (long long)n);
        break;
      }
      case 14: { // -> , * and & chains that start from a null struct pointer
        if (rng.below(3) == 0) {
          // ... and from a null pointer to an ARRAY (a pointee that is not a class, but has members all the same): &(*p)[i]
          opclass = "element-of-null-array";
          tainted<int(*)[4], S> na = nullptr;
          int i = 1 + static_cast<int>(rng.below(3));
          bool arrow2 = rng.coin();
          next = arrow2 ? addr_any(&(na->operator[](i))) : addr_any(&(*na)[i]);
          desc += mon::fmt("&%s[%d] ", arrow2 ? "null->" : "(*null)", i);
          break;
        }
        opclass = "field-of-null";
        tainted<PS*, S> np = nullptr;
        // what &np->field yields is the address operator-> (or operator*) returns plus the field's offset in the sandbox
        // image; the members are not touched here (on a tree where the operator returns, that would be a null member access
        // in this harness)
        bool arrow = rng.coin();
        uintptr_t objaddr = arrow ? reinterpret_cast<uintptr_t>(np.operator->()) : reinterpret_cast<uintptr_t>(std::addressof(*np));
        static const size_t field_off[] = { offsetof(GPS, ptr), offsetof(GPS, v), offsetof(GPS, arr), offsetof(GPS, in), offsetof(GPS, cs) };
        static const char* field_name[] = { "ptr", "v", "arr[0]", "in.cp", "cs" };
        int k = rng.below(5);
        next = objaddr + field_off[k];
        desc += mon::fmt("&%s%s ", arrow ? "null->" : "(*null).", field_name[k]);
        break;
      }
      default: { // copy_and_verify_address on the pointer itself
        opclass = "copy_and_verify_address";
        auto p = as<int>(in, cur);
        next = p.copy_and_verify_address([](uintptr_t a) { return a; });
        desc += "cv_address ";
        break;
      }
    }
  });
  st.hist += desc;
  mon::evals();
  if (ab) { n_abort++; st.hist += "[abort] "; return false; }
  if (!chk(in, next)) {
    report(opclass, mon::fmt("outside-without-abort/%s", disc).c_str(),
           mon::fmt("%s: chain [%s] from base%+lld produced tainted pointer %p = base%+lld (%s) without aborting", Cfg::name, st.hist.c_str(), (long long)(cur ? (int64_t)(cur - in.base) : 0),
                    (void*)next, (long long)(next - in.base), whose(next))
             .c_str());
    return false;
  }
  st.cur = next;
  return true;
}

int main(int argc, char** argv)
{
  mon::init("C03", argc, argv);
  mon::require("pointer-inside-own-sandbox");
  mon::require("null-pointer-observed");
  mon::require("abort-observed");
  mon::Rng rng(mon::seed() * 11 + 3 + mon::slice());
  fill_library(lib1, 1);
  int part = argc > 1 ? atoi(argv[1]) : 0;

  size_t ninst = 3;
  for (size_t i = 0; i < ninst; i++) live.push_back(std::make_unique<Inst>(&lib1));

  if (part == 0) {
    // (a) hostile representations, all positions, all instances
    for (size_t w = 0; w < live.size(); w++) {
      auto vals = hostile_values(*live[w], rng, mon::tier(300, 20000));
      for (uint64_t r : vals) {
        mon::distinct(mon::mix(w, r));
        for (int p = 0; p < A_NTOAPP; p++) hostile_position(*live[w], w, static_cast<ToApp>(p), r);
      }
    }
    mon::sample(mon::fmt("{\"part\":\"hostile-representations\",\"abi\":\"%s\",\"positions\":%d,\"instances\":%zu}", Cfg::name, (int)A_NTOAPP, live.size()));
  } else if (part == 1) {
    // (b) chains
    int chains = mon::tier(4000, 200000);
    std::set<std::string> shapes;
    // directed prelude: a function pointer (the address of a sandbox function, or one loaded from a cell) cast to a data
    // pointer.  The application-side value of a tainted function pointer is not an address in sandbox memory.
    for (auto& inp : live) {
      Inst& in = *inp;
      mon::ctx("chain/cast | directed function pointer to data pointer");
      uintptr_t next = 0;
      bool ab = mon::aborts([&] {
        auto fa = in.sb->template INTERNAL_get_sandbox_function_name<int(int)>("deref");
        auto dp = sandbox_reinterpret_cast<unsigned char*>(fa);
        next = reinterpret_cast<uintptr_t>(dp.UNSAFE_unverified());
      });
      mon::evals();
      if (ab) { n_abort++; continue; }
      if (!chk(in, next))
        report("cast", "function-pointer-to-data-pointer/outside-without-abort",
               mon::fmt("%s: sandbox_reinterpret_cast<unsigned char*>(tainted<int(*)(int)> address of a sandbox function) is the tainted data pointer %p (%s); *p, p[1], p+16 and rlbox::memcpy from it are accepted",
                        Cfg::name, (void*)next, whose(next)));
    }
    // directed prelude: sandbox_static_cast within a class hierarchy and assign_raw_pointer with a derived-class pointer --
    // conversions in which C++ itself adjusts the address (the B2 sub-object of D lies 4 bytes into D).  The result must
    // be inside the sandbox or the operation aborts, whatever address the sandbox chose.
    {
      struct B1 { int a; };
      struct B2 { int b; };
      struct D : B1, B2 { int c; };
      for (auto& inp : live) {
        Inst& in = *inp;
        for (int dir = 0; dir < 3; dir++) {
          for (uintptr_t at : { in.base, in.base + 4, in.base + 8, in.base + 4096, in.base + in.size - 12, in.base + in.size - 8, in.base + in.size - 4 }) {
            uintptr_t next = 0;
            const char* nm = dir == 0 ? "sandbox_static_cast<B2*>(D*)" : dir == 1 ? "sandbox_static_cast<D*>(B2*)" : "tainted<B2*>::assign_raw_pointer(D*)";
            mon::ctx("chain/cast | directed %s at base%+lld", nm, (long long)(at - in.base));
            bool ab = mon::aborts([&] {
              if (dir == 0) next = reinterpret_cast<uintptr_t>(sandbox_static_cast<B2*>(as<D>(in, at)).UNSAFE_unverified());
              else if (dir == 1) next = reinterpret_cast<uintptr_t>(sandbox_static_cast<D*>(as<B2>(in, at)).UNSAFE_unverified());
              else { tainted<B2*, S> t; t.assign_raw_pointer(*in.sb, reinterpret_cast<D*>(at)); next = reinterpret_cast<uintptr_t>(t.UNSAFE_unverified()); }
            });
            mon::evals();
            if (ab) { n_abort++; continue; }
            if (!chk(in, next))
              report("cast", "base-class-adjustment/outside-without-abort",
                     mon::fmt("%s: %s on the in-sandbox pointer base%+lld produced the tainted pointer base%+lld (%s) without aborting", Cfg::name, nm, (long long)(at - in.base), (long long)(next - in.base), whose(next)));
          }
        }
      }
    }
    // directed prelude: address-of every field of a struct pointer whose
    // pointee straddles the region end (address computation only, no access)
    for (auto& inp : live) {
      Inst& in = *inp;
      for (uintptr_t back : { sizeof(GPS) - alignof(GPS), size_t(alignof(GPS)) }) {
        uintptr_t cur = in.base + in.size - back;
        auto ps = as<PS>(in, cur);
        struct { const char* n; std::function<uintptr_t()> f; } fields[] = {
          { "&->ptr", [&] { return addr_any(&ps->ptr); } }, { "&->v", [&] { return addr_any(&ps->v); } }, { "&->arr[2]", [&] { return addr_any(&ps->arr[2]); } },
          { "&->in.cp", [&] { return addr_any(&ps->in.cp); } }, { "&->cs", [&] { return addr_any(&ps->cs); } } };
        for (auto& f : fields) {
          uintptr_t next = 0;
          mon::ctx("chain/address-of-field | directed %s at end-%zu", f.n, (size_t)back);
          bool ab = mon::aborts([&] { next = f.f(); });
          mon::evals();
          if (ab) { n_abort++; continue; }
          if (!chk(in, next))
            report("address-of-field", "outside-without-abort/pointee-straddles-region-end",
                   mon::fmt("%s: (PS*)(base+size-%zu) %s produced tainted pointer base%+lld (%s) without aborting", Cfg::name, (size_t)back, f.n, (long long)(next - in.base), whose(next)));
        }
      }
    }
    for (int c = 0; c < chains; c++) {
      ChainState st;
      st.in = live[rng.below(live.size())].get();
      Inst& in = *st.in;
      Wd::reset_alloc(*in.sb);
      in.sb->get_sandbox_impl()->brk = Inst::SCRATCH_END;
      switch (rng.below(6)) {
        case 0: st.cur = 0; st.hist = "null: "; break;
        case 1: st.cur = in.base + 1; st.hist = "first: "; break;
        case 2: st.cur = in.base + in.size - 1; st.hist = "last-byte: "; break;
        case 3: st.cur = in.base + in.size - sizeof(GPS); st.hist = "last-struct: "; break;
        case 4: st.cur = in.base + in.size - 4; st.hist = "last-int: "; break;
        default: st.cur = in.base + Inst::SCRATCH_END + rng.below(in.size - Inst::SCRATCH_END); st.hist = "interior: "; break;
      }
      int depth = 1 + rng.below(8);
      for (int d = 0; d < depth; d++)
        if (!chain_step(st, rng)) break;
      if (shapes.size() < 100000) shapes.insert(st.hist);
      if (c < 3) mon::sample_str(st.hist);
    }
    mon::distinct_counted(shapes.size());
    mon::extra_num("distinct_chain_histories", shapes.size());
  } else {
    // (c) exhaustive 2^32 representations through the memory-cell and
    // array-element positions (plain build; slices split the range)
    Inst& in = *live[1];
    sbx& sb = *in.sb;
    uint64_t total = 1ull << 32, per = total / mon::nslices();
    uint64_t lo = per * mon::slice(), hi = (mon::slice() + 1 == mon::nslices()) ? total : lo + per;
    uint64_t stride = mon::thorough() ? 1 : 509; // quick: every 509th (prime) representation
    auto cell = Wd::tptr<int*>(sb, Inst::CELL);
    auto parr = Wd::tptr<int* [4]>(sb, Inst::ARR);
    uint64_t cnt = 0, bad = 0;
    mon::ctx("exhaustive-cell | range %llu..%llu", (unsigned long long)lo, (unsigned long long)hi);
    for (uint64_t r = lo; r < hi; r += stride) {
      Wd::wr<P>(sb, Inst::CELL, static_cast<P>(r));
      Wd::wr<P>(sb, Inst::ARR + (r & 3) * sizeof(P), static_cast<P>(r));
      tainted<int*, S> q = *cell;
      tainted<int*, S> e = (*parr)[r & 3];
      uintptr_t a = addr_of(q), b = addr_of(e);
      cnt += 2;
      bool ok = (a == 0 || in.inside(a)) && (b == 0 || in.inside(b));
      if (!ok && bad++ < 3)
        report("hostile-representation", "load-cell-or-array-element-exhaustive", mon::fmt("%s: representation %llu produced %p / %p", Cfg::name, (unsigned long long)r, (void*)a, (void*)b));
    }
    mon::evals(cnt);
    mon::distinct_counted(cnt / 2);
    n_inside += cnt - bad;
    n_null += 1;
    n_abort += 1; // this part cannot abort; the branch is exercised by parts 0/1
    mon::extra("exhaustive_representation_sweep", mon::fmt("\"stride %llu over 2^32, slice %llu/%llu\"", (unsigned long long)stride, (unsigned long long)mon::slice(), (unsigned long long)mon::nslices()));
  }
  live.clear();
  mon::hit("pointer-inside-own-sandbox", n_inside);
  mon::hit("null-pointer-observed", n_null);
  mon::hit("abort-observed", n_abort);
  return mon::finish();
}
