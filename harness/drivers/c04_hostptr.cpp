// C04 (host-ABI part): pointer-typed memory on the noop backend, whose pointer
// representation is a real pointer type (void*), so RLBox takes the
// "representation is itself a pointer" branches of its conversion code that no
// integer-representation model backend reaches: cells, arrays and
// multi-dimensional arrays of data and function pointers, stored from a
// tainted, loaded into a tainted, and copied sandbox memory to sandbox memory.
// Oracle: identity translation (null <-> 0), exactly the destination's bytes
// change (shadow copy of the whole buffer).
#include "backends.hpp"

#include <cstring>

using namespace rlbox;
using B = rlbox_noop_sandbox;
using SBX = rlbox_sandbox<B>;

static uint64_t n_ok = 0;
static void report(const char* op, const char* cls, const std::string& d) { mon::violation(mon::fmt("C04/noop/%s/%s", op, cls), d); }

static constexpr size_t BUF = 8192;
static unsigned char* g_buf = nullptr;
static std::vector<unsigned char> g_shadow;

static int fn_a(int x) { return x + 1; }
static int fn_b(int x) { return x + 2; }

// El = element type (int* or int(*)(int)); flat element count N; A = the array type
template<typename A, typename El, size_t N, typename Get>
static void shape(SBX& sb, mon::Rng& rng, const char* shape_name, Get&& elem /* (wrapper, i) -> element wrapper ref */)
{
  for (int round = 0; round < mon::tier(40, 2000); round++) {
    size_t doff = 64 + 8 * rng.below((BUF / 2 - 64 - sizeof(A)) / 8);
    size_t soff = BUF / 2 + 8 * rng.below((BUF / 2 - sizeof(A)) / 8);
    El vals[N];
    for (size_t i = 0; i < N; i++) {
      if (rng.below(4) == 0) vals[i] = nullptr;
      else if constexpr (std::is_function_v<std::remove_pointer_t<El>>) vals[i] = rng.coin() ? &fn_a : &fn_b;
      else vals[i] = reinterpret_cast<El>(g_buf + 4 * rng.below(BUF / 4));
    }
    auto dst = sb.UNSAFE_accept_pointer(reinterpret_cast<A*>(g_buf + doff));
    auto src = sb.UNSAFE_accept_pointer(reinterpret_cast<A*>(g_buf + soff));
    auto scramble = [&] { for (size_t i = 0; i < BUF; i++) g_buf[i] = static_cast<unsigned char>(rng()); g_shadow.assign(g_buf, g_buf + BUF); };
    auto judge = [&](const char* op, size_t off, const El* expect, size_t cnt) {
      mon::evals();
      // expected image: shadow with [off, off+cnt*8) replaced
      std::memcpy(g_shadow.data() + off, expect, cnt * sizeof(El));
      if (std::memcmp(g_shadow.data(), g_buf, BUF) != 0) {
        size_t first = 0;
        while (g_shadow[first] == g_buf[first]) first++;
        report(op, first >= off && first < off + cnt * sizeof(El) ? "wrong-representation-stored" : "bytes-outside-the-destination-changed",
               mon::fmt("%s %s: first differing byte at buffer offset %zu (destination %zu..%zu), element %zd", shape_name, op, first, off, off + cnt * sizeof(El) - 1,
                        first >= off ? (ssize_t)((first - off) / sizeof(El)) : (ssize_t)-1));
        g_shadow.assign(g_buf, g_buf + BUF);
        return;
      }
      n_ok++;
    };
    mon::distinct(mon::mix(mon::mix(std::hash<std::string>()(shape_name), doff), soff));
    // ---- store whole from a tainted
    tainted<A, B> t;
    for (size_t i = 0; i < N; i++) {
      if constexpr (std::is_function_v<std::remove_pointer_t<El>>) { if (vals[i]) elem(t, i) = sb.template INTERNAL_get_sandbox_function_ptr<int(int)>(reinterpret_cast<void*>(vals[i])); else elem(t, i) = nullptr; }
      else { if (vals[i]) elem(t, i) = sb.UNSAFE_accept_pointer(vals[i]); else elem(t, i) = nullptr; }
    }
    mon::ctx("store-whole/%s | dst %zu", shape_name, doff);
    scramble();
    if (mon::aborts([&] { *dst = t; })) report("store-whole", "abort", shape_name); else judge("store-whole", doff, vals, N);
    // ---- sandbox memory to sandbox memory
    mon::ctx("copy-volatile-to-volatile/%s | dst %zu src %zu", shape_name, doff, soff);
    scramble();
    std::memcpy(g_buf + soff, vals, sizeof(A));
    g_shadow.assign(g_buf, g_buf + BUF);
    if (mon::aborts([&] { *dst = *src; })) report("copy-volatile-to-volatile", "abort", shape_name); else judge("copy-volatile-to-volatile", doff, vals, N);
    // ---- load whole into a tainted (memory unchanged, every element identical / null preserved)
    mon::ctx("load-whole/%s | src %zu", shape_name, soff);
    tainted<A, B> l;
    if (mon::aborts([&] { l = *src; })) report("load-whole", "abort", shape_name);
    else {
      bool same = true;
      size_t bad = 0;
      for (size_t i = 0; i < N; i++) if (reinterpret_cast<uintptr_t>(elem(l, i).UNSAFE_unverified()) != reinterpret_cast<uintptr_t>(vals[i])) { same = false; bad = i; break; }
      if (!same) report("load-whole", "element-differs", mon::fmt("%s element %zu: stored %p, loaded %p", shape_name, bad, (void*)vals[bad], (void*)elem(l, bad).UNSAFE_unverified()));
      else judge("load-whole", soff, vals, N);
    }
    // ---- one element
    size_t k = rng.below(N);
    mon::ctx("store-element/%s | dst %zu element %zu", shape_name, doff, k);
    scramble();
    if (mon::aborts([&] { elem(*dst, k) = elem(t, k); })) report("store-element", "abort", shape_name); else judge("store-element", doff + k * sizeof(El), &vals[k], 1);
  }
}

int main(int argc, char** argv)
{
  mon::init("C04", argc, argv);
  mon::require("host-abi-pointer-memory-exact");
  mon::Rng rng(mon::seed() * 71 + 4);
  SBX sb;
  sb.create_sandbox();
  auto tb = sb.malloc_in_sandbox<unsigned char>(BUF);
  g_buf = tb.UNSAFE_unverified();
  using DP = int*;
  using FP = int (*)(int);
  shape<DP[1], DP, 1>(sb, rng, "int*[1]", [](auto& w, size_t i) -> auto& { return w[i]; });
  shape<DP[3], DP, 3>(sb, rng, "int*[3]", [](auto& w, size_t i) -> auto& { return w[i]; });
  shape<DP[2][3], DP, 6>(sb, rng, "int*[2][3]", [](auto& w, size_t i) -> auto& { return w[i / 3][i % 3]; });
  shape<DP[3][2], DP, 6>(sb, rng, "int*[3][2]", [](auto& w, size_t i) -> auto& { return w[i / 2][i % 2]; });
  shape<DP[2][2][2], DP, 8>(sb, rng, "int*[2][2][2]", [](auto& w, size_t i) -> auto& { return w[i / 4][(i / 2) % 2][i % 2]; });
  shape<FP[3], FP, 3>(sb, rng, "fn*[3]", [](auto& w, size_t i) -> auto& { return w[i]; });
  shape<FP[2][2], FP, 4>(sb, rng, "fn*[2][2]", [](auto& w, size_t i) -> auto& { return w[i / 2][i % 2]; });
  sb.free_in_sandbox(tb);
  sb.destroy_sandbox();
  mon::hit("host-abi-pointer-memory-exact", n_ok);
  return mon::finish();
}
