// C10, the copy path of copy_memory_or_grant_access with a hostile allocator: the destination block comes from the sandbox's
// own allocator (sandboxed code), so its answer is input.  "touch only bytes of the ranges they were given, where every
// sandbox-side range lies wholly inside one sandbox's memory ... extents whose end would leave the sandbox never proceed":
// whatever the allocator answers, the copy either aborts or writes only inside the region.  Elements wider than a byte matter:
// a block whose single element STARTS in the last bytes of the region passes a start-of-last-element test and still ends
// outside.  Backend as in c03_alloc (base+offset translation that confines nothing, mask membership); the model's region is
// followed by an inaccessible page, so a write behind it is also a fault.
#include "world.hpp"

using namespace rlbox;
#ifndef CFG
#  define CFG vsbx_ilp32m
#endif
using Cfg = CFG;
using Wd = world::W<Cfg>;
using S = Wd::S;

static uint64_t n_ok = 0, n_abort = 0;

template<typename T>
static void probe(Wd::sbx& a, const char* tn, uintptr_t base, uintptr_t size)
{
  constexpr size_t gs = sizeof(tainted_volatile<T, S>);
  for (int count : { 1, 3 }) {
    for (int64_t back = 0; back <= int64_t(gs) * count + 2; back++) {
      uint64_t rep = static_cast<uint64_t>(int64_t(size) - back) & (sizeof(typename Cfg::P) == 4 ? 0xffffffffull : ~0ull);
      if (rep == 0) continue;
      bool fits = back >= int64_t(gs) * count; // the whole destination lies inside
      // (a block that fits but is not aligned for its elements is legal for the library to use and makes the element-wise
      // path bind misaligned references, which the alignment sanitizer reports: not driven)
      if (fits && back % int64_t(gs) != 0) continue;
      T buf[3] = { T(1), T(2), T(3) };
      bool copied = false;
      uintptr_t got = 0;
      S::hostile_malloc_repr = rep;
      mon::ctx("copy_memory_or_grant_access/%s x %d | the allocator answers region size - %lld", tn, count, (long long)back);
      bool ab = mon::aborts([&] { got = reinterpret_cast<uintptr_t>(copy_memory_or_grant_access(a, buf, count, false, copied).UNSAFE_unverified()); });
      S::hostile_malloc_repr = 0;
      mon::evals();
      mon::distinct(mon::mix(std::hash<std::string>()(tn), mon::mix(count, back)));
      if (ab) { if (fits) mon::violation(mon::fmt("C10/copy_memory_or_grant_access/hostile-allocator/%s/legal-request-refused", tn), mon::fmt("count %d, block at size-%lld", count, (long long)back)); else n_abort++; continue; }
      if (fits && got == base + rep) { n_ok++; continue; }
      if (!fits)
        mon::violation(mon::fmt("C10/copy_memory_or_grant_access/hostile-allocator/%s/destination-range-leaves-the-sandbox", tn),
                       mon::fmt("the allocator answered with a block %lld bytes before the end of the region; %d element(s) of %zu bytes were copied there without abort (the range ends %lld bytes behind the region)",
                                (long long)back, count, gs, (long long)(int64_t(gs) * count - back)));
      else mon::violation(mon::fmt("C10/copy_memory_or_grant_access/hostile-allocator/%s/wrong-destination", tn), mon::fmt("got %p", (void*)got));
    }
  }
}

int main(int argc, char** argv)
{
  mon::init("C10", argc, argv);
  mon::require("hostile-allocator/straddling-block-refused");
  vsbx_library lib;
  lib.id = 1;
  Wd::sbx a;
  a.create_sandbox(&lib);
  const uintptr_t base = Wd::base(a), size = Wd::size(a);
  S::unconfined_translation = true;
  probe<char>(a, "char", base, size);
  probe<short>(a, "short", base, size);
  probe<char16_t>(a, "char16_t", base, size);
  probe<wchar_t>(a, "wchar_t", base, size);
  probe<float>(a, "float", base, size);
  probe<double>(a, "double", base, size);
  S::unconfined_translation = false;
  mon::hit("hostile-allocator/straddling-block-refused", n_abort);
  mon::hit("hostile-allocator/inside-block-served", n_ok);
  a.destroy_sandbox();
  return mon::finish();
}
