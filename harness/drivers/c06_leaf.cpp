// C06 (a): convert_type_fundamental<To,From> against a 128-bit reference for
// all 15x15 ordered pairs of integer types.  Flag-mode abort capture
// (RLBOX_CUSTOM_ABORT sets a thread-local flag and returns), plain -O2 build.
//
// build: -DRLBOX_CUSTOM_ABORT(msg)=::mon::note_abort(msg)   (no RLBOX_USE_EXCEPTIONS)
#include "mon.hpp"
#include "ref.hpp"

#include "rlbox_conversion.hpp"

#include <array>
#include <tuple>

using ref::i128;

template<typename... Ts> struct tl {};
using all_ints = tl<bool, char, signed char, unsigned char, short, unsigned short, int, unsigned int,
                    long, unsigned long, long long, unsigned long long, char16_t, char32_t, wchar_t>;

struct PairStats
{
  uint64_t n = 0, exact = 0, abort_ok = 0, bad = 0;
};

template<typename To, typename From>
static inline void check_one(From v, PairStats& ps)
{
  To to{};
  mon::abort_flag = 0;
  rlbox::detail::convert_type_fundamental(to, v);
  bool aborted = mon::abort_flag != 0;
  i128 x = static_cast<i128>(v);
  bool rep = ref::fits<To>(x);
  ps.n++;
  if (rep) {
    if (!aborted && static_cast<i128>(to) == x) { ps.exact++; return; }
  } else {
    if (aborted) { ps.abort_ok++; return; }
  }
  ps.bad++;
  const char* cls = rep ? (aborted ? "spurious-abort" : "wrong-value") : "silent-value-change";
  mon::violation(mon::fmt("C06/leaf/%s<-%s/%s", ref::name<To>(), ref::name<From>(), cls),
                 mon::fmt("convert_type_fundamental<%s,%s>(from=%s): representable=%d aborted=%d to=%s",
                          ref::name<To>(), ref::name<From>(), mon::i128s(x).c_str(), rep, aborted,
                          mon::i128s(static_cast<i128>(to)).c_str()));
}

template<typename To, typename From>
static void sweep_pair(mon::Rng& rng, bool& did_exhaustive)
{
  PairStats ps;
  constexpr int bits = std::is_same_v<From, bool> ? 1 : int(sizeof(From) * 8);
  mon::ctx("leaf/%s<-%s | sweep", ref::name<To>(), ref::name<From>());
  did_exhaustive = false;
  if constexpr (std::is_same_v<From, bool>) {
    check_one<To, From>(false, ps);
    check_one<To, From>(true, ps);
    did_exhaustive = true;
  } else if constexpr (bits <= 16) {
    for (int64_t v = int64_t(ref::lo<From>()); v <= int64_t(ref::hi<From>()); v++)
      check_one<To, From>(static_cast<From>(v), ps);
    did_exhaustive = true;
  } else if constexpr (bits == 32) {
    if (mon::thorough()) {
      int64_t lo = int64_t(ref::lo<From>()), hi = int64_t(ref::hi<From>());
      for (int64_t v = lo; v <= hi; v++) check_one<To, From>(static_cast<From>(v), ps);
      did_exhaustive = true;
    } else {
      // neighbourhood (+-4096) of every boundary value, plus random
      for (From b : ref::boundaries<From>()) {
        for (int64_t d = -4096; d <= 4096; d++) {
          i128 x = static_cast<i128>(b) + d;
          if (ref::fits<From>(x)) check_one<To, From>(static_cast<From>(x), ps);
        }
      }
      for (int i = 0; i < (1 << 20); i++) check_one<To, From>(static_cast<From>(rng()), ps);
    }
  } else {
    for (From b : ref::boundaries<From>()) {
      for (int64_t d = -256; d <= 256; d++) {
        i128 x = static_cast<i128>(b) + d;
        if (ref::fits<From>(x)) check_one<To, From>(static_cast<From>(x), ps);
      }
    }
    uint64_t n = mon::tier<uint64_t>(1u << 20, 1u << 26);
    for (uint64_t i = 0; i < n; i++) check_one<To, From>(static_cast<From>(rng.interesting()), ps);
    for (uint64_t i = 0; i < n; i++) check_one<To, From>(static_cast<From>(rng()), ps);
  }
  mon::evals(ps.n);
  // non-trivial & distinct: exhaustive loops enumerate without repetition; for
  // sampled pairs we count conservatively the (pair, oracle branch) combos.
  if (did_exhaustive) mon::distinct_counted(ps.n);
  else {
    uint64_t h = mon::mix(std::hash<std::string>()(ref::name<To>()), std::hash<std::string>()(ref::name<From>()));
    if (ps.exact) mon::distinct(mon::mix(h, 1));
    if (ps.abort_ok) mon::distinct(mon::mix(h, 2));
  }
  mon::hit("exact-value-expected-and-observed", ps.exact);
  mon::hit("abort-expected-and-observed", ps.abort_ok);
  mon::hit(did_exhaustive ? "pairs-exhaustive" : "pairs-sampled");
  static int nsamples = 0;
  if (nsamples < 6 && ps.abort_ok && (nsamples++, true))
    mon::sample(mon::fmt("{\"pair\":\"%s<-%s\",\"cases\":%llu,\"exact\":%llu,\"aborts\":%llu,\"exhaustive\":%s}",
                         ref::name<To>(), ref::name<From>(), (unsigned long long)ps.n,
                         (unsigned long long)ps.exact, (unsigned long long)ps.abort_ok, did_exhaustive ? "true" : "false"));
}

// arrays of each element pair through convert_type_fundamental_or_array:
// C arrays (1-D, 2-D) and std::array; every element position gets boundary
// values; expected: abort iff some element is unrepresentable, else every
// element keeps its value (same-width pairs take the library's memcpy path).
template<typename To, typename From>
static void sweep_arrays(mon::Rng& rng)
{
  mon::ctx("leaf-array/%s<-%s | sweep", ref::name<To>(), ref::name<From>());
  auto vals = ref::boundaries<From>();
  uint64_t n = 0, exact = 0, aborts = 0;
  auto judge = [&](const char* shape, const From* src, const To* dst, size_t cnt, bool aborted) {
    bool allrep = true;
    for (size_t i = 0; i < cnt; i++) allrep = allrep && ref::fits<To>(static_cast<i128>(src[i]));
    n++;
    if (allrep) {
      bool same = !aborted;
      for (size_t i = 0; same && i < cnt; i++) same = static_cast<i128>(dst[i]) == static_cast<i128>(src[i]);
      if (same) { exact++; return; }
    } else if (aborted) { aborts++; return; }
    std::string el;
    for (size_t i = 0; i < cnt; i++) el += mon::i128s(static_cast<i128>(src[i])) + " ";
    mon::violation(mon::fmt("C06/leaf-array/%s/%s<-%s/%s", shape, ref::name<To>(), ref::name<From>(), allrep ? (aborted ? "spurious-abort" : "wrong-value") : "silent-value-change"),
                   mon::fmt("convert_type_fundamental_or_array %s of %s from %s, elements [%s]: all representable=%d aborted=%d", shape, ref::name<To>(), ref::name<From>(), el.c_str(), allrep, aborted));
  };
  int rounds = mon::tier(40, 400);
  for (int r = 0; r < rounds; r++) {
    From a1[3], a2[2][2];
    std::array<From, 3> a3;
    for (int i = 0; i < 3; i++) { a1[i] = vals[rng.below(vals.size())]; a3[i] = vals[rng.below(vals.size())]; }
    for (int i = 0; i < 2; i++) for (int j = 0; j < 2; j++) a2[i][j] = vals[rng.below(vals.size())];
    // most rounds: only one position may hold an unrepresentable value, so each position is exercised
    if (r % 3 != 0) {
      int keep = rng.below(3);
      for (int i = 0; i < 3; i++) if (i != keep) { if (!ref::fits<To>(static_cast<i128>(a1[i]))) a1[i] = From(1); if (!ref::fits<To>(static_cast<i128>(a3[i]))) a3[i] = From(1); }
      int kk = rng.below(4);
      for (int i = 0; i < 4; i++) if (i != kk && !ref::fits<To>(static_cast<i128>(a2[i / 2][i % 2]))) a2[i / 2][i % 2] = From(0);
    }
    To b1[3] = {}, b2[2][2] = {};
    std::array<To, 3> b3{};
    mon::abort_flag = 0;
    rlbox::detail::convert_type_fundamental_or_array(b1, a1);
    judge("T[3]", a1, b1, 3, mon::abort_flag != 0);
    mon::abort_flag = 0;
    rlbox::detail::convert_type_fundamental_or_array(b2, a2);
    judge("T[2][2]", &a2[0][0], &b2[0][0], 4, mon::abort_flag != 0);
    mon::abort_flag = 0;
    rlbox::detail::convert_type_fundamental_or_array(b3, a3);
    judge("std::array<T,3>", a3.data(), b3.data(), 3, mon::abort_flag != 0);
    // the same array as std::array with volatile-qualified ELEMENTS on the destination side (the shape an array in sandbox
    // memory has inside the library) and on the source side: every qualifier combination has to take the same decisions
    {
      std::array<volatile To, 3> vb{};
      mon::abort_flag = 0;
      rlbox::detail::convert_type_fundamental_or_array(vb, a3);
      To plain[3];
      for (int i = 0; i < 3; i++) plain[i] = vb[i];
      judge("std::array<volatile T,3>/destination", a3.data(), plain, 3, mon::abort_flag != 0);
      std::array<volatile From, 3> va{};
      for (int i = 0; i < 3; i++) va[i] = a3[i];
      std::array<To, 3> b4{};
      mon::abort_flag = 0;
      rlbox::detail::convert_type_fundamental_or_array(b4, va);
      judge("std::array<volatile T,3>/source", a3.data(), b4.data(), 3, mon::abort_flag != 0);
    }
  }
  mon::evals(n);
  mon::hit("array-exact-value-expected-and-observed", exact);
  mon::hit("array-abort-expected-and-observed", aborts);
  uint64_t h = mon::mix(std::hash<std::string>()(ref::name<To>()), std::hash<std::string>()(ref::name<From>()));
  if (exact) mon::distinct(mon::mix(h, 11));
  if (aborts) mon::distinct(mon::mix(h, 12));
}

static int g_pair_index = 0;

template<typename From, typename... Tos>
static void for_each_to(mon::Rng& rng, tl<Tos...>)
{
  auto one = [&](auto tag) {
    using To = typename decltype(tag)::type;
    int idx = g_pair_index++;
    if (uint64_t(idx) % mon::nslices() != mon::slice()) return;
    mon::Rng r(mon::seed() * 1000003 + idx);
    bool ex;
    sweep_pair<To, From>(r, ex);
    sweep_arrays<To, From>(r); // (bool included: bool <- unsigned char elements have equal size and signedness, not equal ranges)
  };
  (one(std::common_type<Tos>{}), ...);
}

template<typename... Froms>
static void for_each_from(mon::Rng& rng, tl<Froms...>)
{
  (for_each_to<Froms>(rng, all_ints{}), ...);
}

int main(int argc, char** argv)
{
  mon::init("C06", argc, argv);
  mon::require("exact-value-expected-and-observed");
  mon::require("abort-expected-and-observed");
  mon::require("array-exact-value-expected-and-observed");
  mon::Rng rng(mon::seed());
  for_each_from(rng, all_ints{});
  mon::extra("abort_capture_mode", "\"flag (RLBOX_CUSTOM_ABORT)\"");
  return mon::finish();
}
