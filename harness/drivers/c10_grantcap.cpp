// C10 (grant/deny-capable backend): copy_memory_or_grant_access / copy_memory_or_deny_access on a *bounded* model backend
// that declares can_grant_deny_access (vsbx_ilp32g).  The backend's hooks record what RLBox hands them; the deny hook accepts
// or declines by policy, the grant hook always declines, so the hook path and the copy path behind it are both driven.
// Oracle: an illegal range (sandbox side not wholly inside, application side not wholly outside, null, empty, extent
// wrapping 64 bits) must never reach a hook and never yield a pointer; a legal request is carried out on exactly its bytes.
#include "world.hpp"
#include <sys/mman.h>
#include "memmon.hpp"

using namespace rlbox;
using ref::i128;
using Cfg = vsbx_ilp32g;
using Wd = world::W<Cfg>;
using S = Wd::S;

static Wd::sbx* SB;
static uintptr_t BASE;
static size_t SIZE;
static uint64_t n_legal_ok = 0, n_illegal_abort = 0, n_hook_asked = 0;
static const i128 TWO64 = static_cast<i128>(1) << 64;

static void report(const char* op, const char* cls, const std::string& d) { mon::violation(mon::fmt("C10/grant-capable/%s/%s", op, cls), d); }
static bool inside(i128 start, i128 len) { return start != 0 && len > 0 && start >= static_cast<i128>(BASE) && start + len <= static_cast<i128>(BASE) + static_cast<i128>(SIZE); }
static bool outside(i128 start, i128 len) { return start != 0 && len > 0 && start + len <= TWO64 && (start + len <= static_cast<i128>(BASE) || start >= static_cast<i128>(BASE) + static_cast<i128>(SIZE)); }

// one application buffer above the region, shared by every element type
static void* high_buffer()
{
  static void* hi = mmap(reinterpret_cast<void*>(BASE + SIZE + (1ull << 30)), 8192, PROT_READ | PROT_WRITE, MAP_PRIVATE | MAP_ANONYMOUS | MAP_FIXED_NOREPLACE, -1, 0);
  return hi;
}

template<typename T>
static void deny_cases(mon::Rng& rng)
{
  const char* tn = ref::name<T>();
  std::vector<uint64_t> starts = { 8, 4096, SIZE - 16 * sizeof(T), SIZE - sizeof(T) };
  // misaligned starts whose last element straddles the end of the region
  for (size_t k = 1; k < sizeof(T); k++) { starts.push_back(SIZE - sizeof(T) + k); starts.push_back(SIZE - 3 * sizeof(T) + k); }
  for (int i = 0; i < mon::tier(3, 40); i++) starts.push_back(rng.below(SIZE));
  for (uint64_t off : starts) {
    i128 toend = (static_cast<i128>(SIZE) - off) / static_cast<i128>(sizeof(T));
    std::vector<i128> nums = { 1, 2, 3, toend - 1, toend, toend + 1, toend + 2, static_cast<i128>(SIZE), (static_cast<i128>(1) << 32) + 1, TWO64 / sizeof(T), TWO64 / sizeof(T) + 1, TWO64 / sizeof(T) + toend, TWO64 - 1,
                                TWO64 / 3 + 1, 2 * TWO64 / 3 + 1, TWO64 / 7 + 1, 3 * TWO64 / 7 + 1 };
    for (i128 num : nums) {
      if (num <= 0 || num >= TWO64) continue;
      for (int accept = 0; accept < 2; accept++) {
        size_t n = static_cast<size_t>(num);
        i128 start = static_cast<i128>(BASE) + off;
        bool legal = inside(start, num * static_cast<i128>(sizeof(T)));
        if (legal) for (size_t i = 0; i < n * sizeof(T); i++) reinterpret_cast<unsigned char*>(BASE)[off + i] = static_cast<unsigned char>(rng());
        auto p = Wd::tptr<T>(*SB, off);
        bool copied = false;
        T* out = nullptr;
        vsbx_grant_policy::accept_deny = accept != 0;
        vsbx_ev.reset();
        mon::ctx("copy_memory_or_deny_access/%s | base+%llu num=%s backend %s", tn, (unsigned long long)off, mon::i128s(num).c_str(), accept ? "accepts" : "declines");
        bool ab = mon::aborts([&] { out = copy_memory_or_deny_access(*SB, p, n, false, copied); });
        vsbx_grant_policy::accept_deny = false;
        mon::evals();
        mon::distinct(mon::mix(mon::mix(std::hash<std::string>()(tn), off), mon::mix(static_cast<uint64_t>(num), accept)));
        std::string what = mon::fmt("copy_memory_or_deny_access<%s>(src=base+%llu, num=%s), %zu-byte elements, %s bytes to the region end, backend %s", tn, (unsigned long long)off, mon::i128s(num).c_str(),
                                    sizeof(T), mon::i128s(static_cast<i128>(SIZE) - off).c_str(), accept ? "accepts" : "declines");
        std::string hook;
        if (vsbx_ev.deny_requests) {
          n_hook_asked++;
          hook = mon::fmt("; the backend's deny hook was handed src=base%+lld num=%llu", (long long)(vsbx_ev.last_deny_src - BASE), (unsigned long long)vsbx_ev.last_deny_num);
          if (legal && (vsbx_ev.last_deny_src != static_cast<uintptr_t>(start) || vsbx_ev.last_deny_num != n)) report("copy_memory_or_deny_access", "hook-got-another-range", what + hook);
        }
        if (!legal) {
          const char* why = static_cast<i128>(BASE) + off + num * static_cast<i128>(sizeof(T)) > TWO64 || num * static_cast<i128>(sizeof(T)) >= TWO64 ? "extent-wraps-64-bits" : "range-leaves-the-sandbox";
          if (!ab && out != nullptr) report("copy_memory_or_deny_access", mon::fmt("illegal-request-proceeded/%s", why).c_str(), what + hook);
          else n_illegal_abort++;
          if (!ab && out && copied) free(out);
          continue;
        }
        if (ab) { report("copy_memory_or_deny_access", "legal-request-aborted", what); continue; }
        if (accept) {
          if (copied || reinterpret_cast<uintptr_t>(out) != static_cast<uintptr_t>(start)) report("copy_memory_or_deny_access", "accepted-deny-not-handed-through", what);
          else n_legal_ok++;
        } else {
          if (!copied || !out) report("copy_memory_or_deny_access", "declined-deny-not-copied", what);
          else if (std::memcmp(out, reinterpret_cast<void*>(BASE + off), n * sizeof(T)) != 0) report("copy_memory_or_deny_access", "wrong-content", what);
          else n_legal_ok++;
          if (out) free(out);
        }
      }
    }
  }
}

template<typename T>
static void grant_cases(mon::Rng& rng)
{
  const char* tn = ref::name<T>();
  static T appbuf[4096];
  struct Src { uintptr_t a; const char* kind; bool readable; };
  // (the pages around the region are inaccessible guard pages: sources there are only used with extents that make the request illegal)
  std::vector<Src> srcs = { { reinterpret_cast<uintptr_t>(appbuf), "application-buffer", true }, { BASE + 64, "pointer-into-the-sandbox", true },
                            { BASE + SIZE - sizeof(T), "last-element-of-the-sandbox", true }, { BASE - 2 * sizeof(T), "just-before-the-sandbox", false }, { 0, "null", false } };
  // an application buffer ABOVE the region as well (the static one lies below it): a wrapped extent starting there cannot
  // "contain the sandbox", so nothing but the overflow check of the request stands between it and the hook
  {
    void* hi = high_buffer();
    if (hi != MAP_FAILED && reinterpret_cast<uintptr_t>(hi) > BASE + SIZE) { srcs.push_back({ reinterpret_cast<uintptr_t>(hi), "application-buffer-above-the-sandbox", true }); mon::hit("application-buffer-above-the-sandbox"); }
  }
  for (auto& sc : srcs) {
    std::vector<i128> nums = { 1, 2, 3, 64, static_cast<i128>(SIZE) / sizeof(T) + 1, (static_cast<i128>(1) << 32) - 1, (static_cast<i128>(1) << 32) + 1, (static_cast<i128>(1) << 47) / sizeof(T), TWO64 / sizeof(T),
                               TWO64 / sizeof(T) + 1, TWO64 / sizeof(T) + 3, TWO64 / (2 * sizeof(T)) + 1, TWO64 - 1,
                               // counts whose byte size wraps to a value that is not smaller than the count (2^64/3 .., 2*2^64/3 .., 2^64/7 ..)
                               TWO64 / 3 + 1, TWO64 / 3 + 2, 2 * TWO64 / 3 + 1, TWO64 / 7 + 1, 3 * TWO64 / 7 + 1, 5 * TWO64 / 7 + 1 };
    for (i128 num : nums) {
      if (num >= TWO64) continue;
      for (int accept = 0; accept < 2; accept++) {
        size_t n = static_cast<size_t>(num);
        i128 start = static_cast<i128>(sc.a), len = num * static_cast<i128>(sizeof(T));
        // a source range is acceptable when it lies wholly in one domain (application memory, or -- harmless -- this sandbox)
        bool legal_src = outside(start, len) || inside(start, len);
        if (legal_src && !sc.readable) continue;
        bool fits = legal_src && len + 64 <= static_cast<i128>(SIZE) - 2048 && (sc.a != reinterpret_cast<uintptr_t>(appbuf) || n <= 4096);
        if (fits && sc.a == reinterpret_cast<uintptr_t>(appbuf)) for (size_t i = 0; i < n; i++) appbuf[i] = static_cast<T>(rng());
        std::vector<unsigned char> want;
        if (fits) want.assign(reinterpret_cast<unsigned char*>(sc.a), reinterpret_cast<unsigned char*>(sc.a) + n * sizeof(T));
        SB->get_sandbox_impl()->brk = 1024;
        bool copied = false;
        tainted<T*, S> res = nullptr;
        vsbx_grant_policy::accept_grant = accept != 0;
        vsbx_ev.reset();
        mon::ctx("copy_memory_or_grant_access/%s | src %s num=%s backend %s", tn, sc.kind, mon::i128s(num).c_str(), accept ? "accepts" : "declines");
        bool ab = mon::aborts([&] { res = copy_memory_or_grant_access(*SB, reinterpret_cast<T*>(sc.a), n, false, copied); });
        vsbx_grant_policy::accept_grant = false;
        mon::evals();
        mon::distinct(mon::mix(mon::mix(std::hash<std::string>()(tn), std::hash<std::string>()(sc.kind)), mon::mix(static_cast<uint64_t>(num), accept)));
        std::string what = mon::fmt("copy_memory_or_grant_access<%s>(src=%s, num=%s), %zu-byte elements, backend %s", tn, sc.kind, mon::i128s(num).c_str(), sizeof(T), accept ? "accepts" : "declines");
        std::string hook;
        if (vsbx_ev.grant_requests) {
          n_hook_asked++;
          i128 hl = static_cast<i128>(vsbx_ev.last_grant_num) * static_cast<i128>(vsbx_ev.last_grant_elsize);
          hook = mon::fmt("; the backend's grant hook was handed src=%p num=%llu = %s bytes", (void*)vsbx_ev.last_grant_src, (unsigned long long)vsbx_ev.last_grant_num, mon::i128s(hl).c_str());
        }
        uintptr_t ra = reinterpret_cast<uintptr_t>(res.UNSAFE_unverified());
        if (!legal_src) {
          const char* why = start == 0 ? "null" : (start + len > TWO64 ? "extent-wraps-the-address-space" : "range-partly-inside-partly-outside-the-sandbox");
          if (!ab && ra != 0) report("copy_memory_or_grant_access", mon::fmt("illegal-request-proceeded/%s", why).c_str(), what + hook);
          else n_illegal_abort++;
        } else if (accept) {
          // accepted grant: handed through, nothing copied
          if (ab || copied || ra != BASE + 64) report("copy_memory_or_grant_access", "accepted-grant-not-handed-through", what + hook);
          else n_legal_ok++;
        } else if (fits) {
          if (ab || !copied || ra == 0) report("copy_memory_or_grant_access", "legal-request-failed", what + hook);
          else if (!inside(static_cast<i128>(ra), len)) report("copy_memory_or_grant_access", "result-outside-sandbox", what);
          else if (std::memcmp(reinterpret_cast<void*>(ra), want.data(), n * sizeof(T)) != 0) report("copy_memory_or_grant_access", "wrong-content", what);
          else n_legal_ok++;
        } else {
          // legal source that does not fit and a declining backend: abort or allocation failure, never a pointer
          if (!ab && ra != 0) report("copy_memory_or_grant_access", "oversized-request-proceeded", what + hook);
          else n_illegal_abort++;
        }
      }
    }
  }
}

int main(int argc, char** argv)
{
  mon::init("C10", argc, argv);
  mon::require("grant-capable/legal-request-carried-out");
  mon::require("grant-capable/illegal-request-refused");
  mon::require("grant-capable/backend-hook-consulted");
  mon::Rng rng(mon::seed() * 59 + 10);
  vsbx_library lib;
  lib.id = 1;
  Wd::sbx sb;
  sb.create_sandbox(&lib);
  SB = &sb;
  BASE = Wd::base(sb);
  SIZE = Wd::size(sb);
  deny_cases<char>(rng); deny_cases<char16_t>(rng); deny_cases<float>(rng); deny_cases<double>(rng);
  grant_cases<char>(rng); grant_cases<char16_t>(rng); grant_cases<float>(rng); grant_cases<double>(rng);
  mon::hit("grant-capable/legal-request-carried-out", n_legal_ok);
  mon::hit("grant-capable/illegal-request-refused", n_illegal_abort);
  mon::hit("grant-capable/backend-hook-consulted", n_hook_asked);
  sb.destroy_sandbox();
  return mon::finish();
}
