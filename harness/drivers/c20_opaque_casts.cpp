// C20: opaque wrappers and sandbox casts preserve bits, designation and taint.
#include "world.hpp"

#include <cfloat>
#include <cmath>
#include <typeinfo>

using namespace rlbox;
using ref::i128;
using Cfg = CFG;
using Wd = world::W<Cfg>;
using S = Wd::S;

enum E16 : short { E_A = 0, E_B = 1, E_C = -7 };
namespace ref { template<> struct tname<E16> { static constexpr const char* v = "enum E16:short"; }; }

struct PA { long a; char b; int* c; };
#define sandbox_fields_reflection_c20_class_PA(f, g, ...) \
  f(long, a, FIELD_NORMAL, ##__VA_ARGS__) g() f(char, b, FIELD_NORMAL, ##__VA_ARGS__) g() f(int*, c, FIELD_NORMAL, ##__VA_ARGS__) g()
#define sandbox_fields_reflection_c20_allClasses(f, ...) f(PA, c20, ##__VA_ARGS__)
rlbox_load_structs_from_library(c20);

template<typename... Ts> struct tl {};
using arith = tl<bool, char, signed char, unsigned char, short, unsigned short, int, unsigned int, long, unsigned long,
                 long long, unsigned long long, float, double, E16>;

static Wd::sbx* SB;
static uint64_t n_bits_ok = 0, n_cast_ok = 0, n_guest_ok = 0;

static void report(const char* what, const char* cls, const std::string& d) { mon::violation(mon::fmt("C20/%s/%s", what, cls), d); }

template<typename T>
static std::vector<T> values(mon::Rng& rng)
{
  std::vector<T> v;
  if constexpr (std::is_same_v<T, bool>) v = { false, true };
  else if constexpr (std::is_enum_v<T>) {
    for (int x = -32768; x <= 32767; x += 257) v.push_back(static_cast<T>(x));
    v.push_back(E_A); v.push_back(E_B); v.push_back(E_C); v.push_back(static_cast<T>(32767)); v.push_back(static_cast<T>(-32768));
  } else if constexpr (std::is_floating_point_v<T>) {
    v = { T(0), T(-0.0), T(1), T(-1), T(0.5), T(1.5), T(-2.5), T(127), T(128), T(255), T(256), T(32767), T(32768), T(65535), T(65536), T(2147483647.0), T(2147483648.0), T(4294967295.0),
          T(4294967296.0), T(-2147483648.0), T(-2147483649.0), T(9.2e18), T(-9.3e18), T(1.9e19), T(1e30), T(-1e30), std::numeric_limits<T>::max(), std::numeric_limits<T>::lowest(),
          std::numeric_limits<T>::min(), std::numeric_limits<T>::denorm_min(), std::numeric_limits<T>::infinity(), -std::numeric_limits<T>::infinity(),
          std::numeric_limits<T>::quiet_NaN() };
    // NaN payloads
    for (int i = 0; i < 4; i++) {
      T n;
      if constexpr (sizeof(T) == 4) { uint32_t b = 0x7fc00000u | (rng() & 0x3fffff) | (rng.coin() ? 0x80000000u : 0); std::memcpy(&n, &b, 4); }
      else { uint64_t b = 0x7ff8000000000000ull | (rng() & 0x7ffffffffffffull) | (rng.coin() ? 0x8000000000000000ull : 0); std::memcpy(&n, &b, 8); }
      v.push_back(n);
    }
    for (int i = 0; i < mon::tier(20, 400); i++) { T x; uint64_t b = rng(); std::memcpy(&x, &b, sizeof(T)); if (x == x) v.push_back(x); }
  } else if constexpr (sizeof(T) <= 2) {
    for (int64_t x = int64_t(ref::lo<T>()); x <= int64_t(ref::hi<T>()); x++) v.push_back(static_cast<T>(x));
  } else {
    v = ref::boundaries<T>();
    for (int i = 0; i < mon::tier(50, 2000); i++) v.push_back(static_cast<T>(rng.interesting()));
  }
  return v;
}

template<typename T>
static bool same_bits(const T& a, const T& b) { return std::memcmp(&a, &b, sizeof(T)) == 0; }

template<typename T> static std::string vs(T v)
{
  if constexpr (std::is_floating_point_v<T>) return mon::fmt("%a", double(v));
  else if constexpr (std::is_enum_v<T>) return std::to_string(static_cast<int>(v));
  else return mon::i128s(static_cast<i128>(v));
}

// ------------------------------------------------ opaque round trip (values)
template<typename T>
static void opaque_roundtrip(mon::Rng& rng)
{
  for (T v : values<T>(rng)) {
    tainted<T, S> t = v;
    mon::ctx("opaque-roundtrip/%s | v=%s", ref::name<T>(), vs(v).c_str());
    auto o = t.to_opaque();
    static_assert(std::is_same_v<decltype(o), tainted_opaque<T, S>>);
    auto back = from_opaque(o);
    mon::evals();
    bool ty = std::is_same_v<decltype(back), tainted<T, S>>;
    if (!ty) report("opaque-roundtrip", "not-tainted", ref::name<T>());
    if (sizeof(o) != sizeof(t) || !same_bits(t, back) || std::memcmp(&o, &t, sizeof(t)) != 0)
      report("opaque-roundtrip", "bits-differ", mon::fmt("%s value %s", ref::name<T>(), vs(v).c_str()));
    else n_bits_ok++;
    // the one operation an opaque value has of its own: set_zero() leaves exactly the value tainted<T>(0) has
    // (it assigns the literal 0, which an enumeration does not accept: not a program there)
    if constexpr (!std::is_enum_v<T>) {
      o.set_zero();
      tainted<T, S> zero = T(0);
      auto zb = from_opaque(o);
      mon::evals();
      if (!same_bits(zero, zb)) report("opaque-set_zero", "not-the-zero-value", mon::fmt("%s after set_zero on %s", ref::name<T>(), vs(v).c_str()));
      else n_bits_ok++;
    }
  }
  mon::distinct(mon::mix(0x0a, std::hash<std::string>()(ref::name<T>())));
  { static int ns = 0; if (ns++ % 4 == 0) mon::sample(mon::fmt("{\"opaque_roundtrip_type\":\"%s\",\"host_bytes\":%zu}", ref::name<T>(), sizeof(T))); }
}

// ----------------------------------- opaque values through invoke / callback
template<typename T> struct CbS { static inline bool called = false; static inline T seen{}; static inline T ret{}; };
template<typename T>
static tainted_opaque<T, S> opaque_cb(rlbox_sandbox<S>&, tainted_opaque<T, S> x)
{
  CbS<T>::called = true;
  CbS<T>::seen = from_opaque(x).UNSAFE_unverified();
  tainted<T, S> r = CbS<T>::ret;
  return r.to_opaque();
}
template<typename T>
static tainted<T, S> tainted_cb(rlbox_sandbox<S>&, tainted<T, S> x)
{
  CbS<T>::called = true;
  CbS<T>::seen = x.UNSAFE_unverified();
  tainted<T, S> r = CbS<T>::ret;
  return r;
}
template<typename Gt>
static Gt guest_call_cb(typename Cfg::P cb, Gt x) { return Wd::g_call_cb<Gt>(cb, x); }

template<typename T>
static void opaque_paths(mon::Rng& rng, vsbx_library& lib)
{
  using G = ref::guest_t<Cfg, T>;
  std::string en = std::string("echo_") + ref::name<T>(), cn = std::string("callcb_") + ref::name<T>();
  (void)lib;
  auto cbo = SB->register_callback(opaque_cb<T>);
  auto cbt = SB->register_callback(tainted_cb<T>);
  auto vv = values<T>(rng);
  size_t step = vv.size() > 600 ? vv.size() / 600 : 1;
  for (size_t k = 0; k < vv.size(); k += step) {
    T v = vv[k];
    if constexpr (std::is_integral_v<T>) { if (!ref::fits<G>(ref::val(v))) continue; }
    tainted<T, S> t = v;
    mon::ctx("opaque-invoke/%s | v=%s", ref::name<T>(), vs(v).c_str());
    // invoke: tainted vs opaque argument
    world::glog.clear();
    auto r1 = Wd::invoke<T(T)>(*SB, en.c_str(), t);
    auto r2 = Wd::invoke<T(T)>(*SB, en.c_str(), t.to_opaque());
    mon::evals();
    if (world::glog.size() != 2 || world::glog[0].a[0] != world::glog[1].a[0] || !same_bits(r1, r2))
      report("opaque-invoke-arg", "guest-sees-different-value", mon::fmt("%s v=%s: guest saw %llx for tainted, %llx for opaque", ref::name<T>(), vs(v).c_str(),
                                                                        (unsigned long long)(world::glog.size() > 0 ? world::glog[0].a[0] : 0), (unsigned long long)(world::glog.size() > 1 ? world::glog[1].a[0] : 0)));
    else n_guest_ok++;
    // callback: opaque parameter/result vs tainted parameter/result
    mon::ctx("opaque-callback/%s | v=%s", ref::name<T>(), vs(v).c_str());
    CbS<T>::ret = v;
    CbS<T>::called = false;
    world::glog.clear();
    auto q1 = Wd::invoke<T(T (*)(T), T)>(*SB, cn.c_str(), cbo, t);
    T seen_o = CbS<T>::seen;
    bool called_o = CbS<T>::called;
    CbS<T>::called = false;
    auto q2 = Wd::invoke<T(T (*)(T), T)>(*SB, cn.c_str(), cbt, t);
    T seen_t = CbS<T>::seen;
    mon::evals();
    uint64_t ro = 0, rt = 0;
    int nret = 0;
    for (auto& e : world::glog) if (!strcmp(e.fn, "call_cb.ret")) { (nret++ == 0 ? ro : rt) = e.a[1]; }
    if (!called_o || !CbS<T>::called || !same_bits(seen_o, seen_t) || !same_bits(seen_o, v) || ro != rt || nret != 2 || !same_bits(q1, q2))
      report("opaque-callback", "differs-from-tainted", mon::fmt("%s v=%s: opaque callback saw %s / guest got %llx; tainted callback saw %s / guest got %llx", ref::name<T>(), vs(v).c_str(),
                                                                 vs(seen_o).c_str(), (unsigned long long)ro, vs(seen_t).c_str(), (unsigned long long)rt));
    else n_guest_ok++;
  }
  cbo.unregister();
  cbt.unregister();
  mon::distinct(mon::mix(0x0b, std::hash<std::string>()(ref::name<T>())));
}

// ------------------------------------------------------------ static casts
template<typename L, typename R>
static bool defined_static_cast(R v)
{
  if constexpr (std::is_floating_point_v<R> && !std::is_floating_point_v<L>) {
    if (v != v) return false; // NaN -> integer: UB
    using LI = std::conditional_t<std::is_enum_v<L>, short, std::conditional_t<std::is_same_v<L, bool>, unsigned char, L>>;
    if constexpr (std::is_same_v<L, bool>) return true;
    long double t = std::trunc(static_cast<long double>(v));
    return t >= static_cast<long double>(std::numeric_limits<LI>::min()) && t <= static_cast<long double>(std::numeric_limits<LI>::max());
  } else if constexpr (std::is_same_v<L, float> && std::is_same_v<R, double>) {
    return v != v || std::isinf(v) || std::fabs(v) <= FLT_MAX;
  } else if constexpr (std::is_enum_v<R> && std::is_floating_point_v<L>) {
    return true;
  } else {
    return true;
  }
}

template<typename L, typename R, bool FromVolatile>
static void static_pair(mon::Rng& rng)
{
  using GR = ref::guest_t<Cfg, R>;
  auto cell = Wd::tptr<R>(*SB, 256);
  auto vv = values<R>(rng);
  size_t step = vv.size() > 3000 ? vv.size() / 3000 : 1;
  uint64_t n = 0;
  for (size_t k = 0; k < vv.size(); k += step) {
    R v = vv[k];
    if (!defined_static_cast<L>(v)) continue;
    L expect = static_cast<L>(v);
    mon::ctx("static-cast/%s<-%s%s | v=%s", ref::name<L>(), FromVolatile ? "volatile " : "", ref::name<R>(), vs(v).c_str());
    L got{};
    if constexpr (FromVolatile) {
      if constexpr (std::is_integral_v<R>) { if (!ref::fits<GR>(ref::val(v))) continue; }
      Wd::wr<GR>(*SB, 256, static_cast<GR>(v));
      auto r = sandbox_static_cast<L>(*cell);
      static_assert(std::is_same_v<decltype(r), tainted<L, S>>);
      got = r.UNSAFE_unverified();
    } else {
      tainted<R, S> t = v;
      auto r = sandbox_static_cast<L>(t);
      static_assert(std::is_same_v<decltype(r), tainted<L, S>>);
      got = r.UNSAFE_unverified();
      if (!same_bits(t.UNSAFE_unverified(), v)) report("static-cast", "source-modified", ref::name<R>());
    }
    n++;
    if (!same_bits(got, expect))
      report("static-cast", "wrong-value", mon::fmt("sandbox_static_cast<%s>(%s %s = %s) holds %s, C++ static_cast yields %s", ref::name<L>(), FromVolatile ? "tainted_volatile" : "tainted",
                                                   ref::name<R>(), vs(v).c_str(), vs(got).c_str(), vs(expect).c_str()));
    else n_cast_ok++;
  }
  mon::evals(n);
  { static int ns = 0; if (n && ns++ % 23 == 0) mon::sample(mon::fmt("{\"cast\":\"sandbox_static_cast<%s>(%s %s)\",\"values_compared_with_cpp_cast\":%llu}", ref::name<L>(), FromVolatile ? "tainted_volatile" : "tainted", ref::name<R>(), (unsigned long long)n)); }
  if (n) mon::distinct(mon::mix(mon::mix(0x5c, FromVolatile), mon::mix(std::hash<std::string>()(ref::name<L>()), std::hash<std::string>()(ref::name<R>()))));
}

static int g_pair = 0;
template<typename R, typename... Ls>
static void static_from(mon::Rng& rng, tl<Ls...>)
{
  auto one = [&](auto tag) {
    using L = typename decltype(tag)::type;
    int idx = g_pair++;
    if (uint64_t(idx) % mon::nslices() != mon::slice()) return;
    // enum <-> floating / bool pairs are legal static_casts too
    static_pair<L, R, false>(rng);
    static_pair<L, R, true>(rng);
  };
  (one(std::common_type<Ls>{}), ...);
}
template<typename... Rs>
static void static_all(mon::Rng& rng, tl<Rs...>) { (static_from<Rs>(rng, arith{}), ...); }

// ------------------------------------------------------------ pointer casts
enum CastK { K_REINT, K_CONST, K_STATIC };
// Cell = false: only the tainted source is driven (pointer CELLS with a volatile-qualified pointee are not programs on a
// foreign-ABI backend, on the pinned tree either)
template<CastK K, typename L, typename R, bool Cell = true>
static void ptr_cast_pair(mon::Rng& rng)
{
  const char* kind = K == K_REINT ? "reinterpret-cast" : (K == K_CONST ? "const-cast" : "static-cast-ptr");
  // R, L pointer types; source pointers at assorted in-region offsets, and null
  auto cellpp = Wd::tptr<R>(*SB, 512); // a sandbox cell holding a pointer (tainted_volatile source)
  for (int i = 0; i < mon::tier(40, 1000); i++) {
    uint64_t off = (i == 0) ? 1 /* offset 0 is the null representation */ : (i == 1 ? Wd::size(*SB) - 1 : (i == 2 ? 8 : 1 + rng.below(Wd::size(*SB) - 1)));
    bool null = (i == 3);
    tainted<R, S> src = nullptr;
    if (!null) src = sandbox_reinterpret_cast<R>(Wd::tptr<char>(*SB, off));
    uintptr_t want = null ? 0 : Wd::base(*SB) + off;
    mon::ctx("%s/%s | off=%llu null=%d", kind, typeid(L).name(), (unsigned long long)off, null);
    if (!null && reinterpret_cast<uintptr_t>(src.UNSAFE_unverified()) != want) { report(kind, "setup-cast-moved-pointer", "reinterpret from char*"); continue; }
    // from tainted
    tainted<L, S> r1 = nullptr, r2 = nullptr;
    if constexpr (Cell) {
      *cellpp = src;
      if constexpr (K == K_REINT) { r1 = sandbox_reinterpret_cast<L>(src); r2 = sandbox_reinterpret_cast<L>(*cellpp); }
      else if constexpr (K == K_CONST) { r1 = sandbox_const_cast<L>(src); r2 = sandbox_const_cast<L>(*cellpp); }
      else { r1 = sandbox_static_cast<L>(src); r2 = sandbox_static_cast<L>(*cellpp); }
    } else {
      (void)cellpp;
      if constexpr (K == K_REINT) r1 = sandbox_reinterpret_cast<L>(src);
      else if constexpr (K == K_CONST) r1 = sandbox_const_cast<L>(src);
      else r1 = sandbox_static_cast<L>(src);
      r2 = r1;
    }
    mon::evals(2);
    uintptr_t g1 = reinterpret_cast<uintptr_t>(r1.UNSAFE_unverified()), g2 = reinterpret_cast<uintptr_t>(r2.UNSAFE_unverified());
    if (g1 != want || g2 != want)
      report(kind, "designated-address-changed", mon::fmt("source designates base+%llu (null=%d); cast from tainted designates %p, from tainted_volatile %p, base %p", (unsigned long long)off, null, (void*)g1, (void*)g2, (void*)Wd::base(*SB)));
    else n_cast_ok += 2;
    // the cell itself must be unchanged by the cast
    if constexpr (Cell) {
      tainted<R, S> again = *cellpp;
      if (again.UNSAFE_unverified() != src.UNSAFE_unverified()) report(kind, "source-modified", "sandbox cell changed by a cast");
    }
  }
  mon::distinct(mon::mix(std::hash<std::string>()(kind), mon::mix(std::hash<std::string>()(typeid(L).name()), std::hash<std::string>()(typeid(R).name()))));
}

// casts between function pointers and data pointers (reinterpret only).  The
// underlying value is whatever a load of the source yields (C04/C07 judge the
// load); the cast must return exactly the C++ cast of that value.
template<typename L, typename R>
static void fnptr_cast_pair(mon::Rng& rng)
{
  using P = typename Cfg::P;
  auto cell = Wd::tptr<R>(*SB, 640);
  std::vector<uint64_t> reprs = { 0, S::EXPORT_TABLE_BASE, S::EXPORT_TABLE_BASE + 1, S::EXPORT_TABLE_BASE + 5, S::CB_TABLE_BASE, S::CB_TABLE_BASE + 3, 8, 4096 };
  for (int i = 0; i < mon::tier(8, 200); i++) reprs.push_back(rng.below(Wd::size(*SB)));
  for (uint64_t r : reprs) {
    mon::ctx("reinterpret-cast-fnptr/%s<-%s | repr=%llu", typeid(L).name(), typeid(R).name(), (unsigned long long)r);
    Wd::wr<P>(*SB, 640, static_cast<P>(r));
    tainted<R, S> loaded = *cell; // the underlying value
    L expect = reinterpret_cast<L>(loaded.UNSAFE_unverified());
    auto r1 = sandbox_reinterpret_cast<L>(loaded);
    auto r2 = sandbox_reinterpret_cast<L>(*cell);
    static_assert(std::is_same_v<decltype(r2), tainted<L, S>>);
    mon::evals(2);
    if (r1.UNSAFE_unverified() != expect || r2.UNSAFE_unverified() != expect)
      report("reinterpret-cast-fnptr", "differs-from-cpp-cast",
             mon::fmt("cell holds representation %llu; underlying value %p; cast of tainted yields %p, cast of tainted_volatile yields %p", (unsigned long long)r,
                      reinterpret_cast<void*>(loaded.UNSAFE_unverified()), reinterpret_cast<void*>(r1.UNSAFE_unverified()), reinterpret_cast<void*>(r2.UNSAFE_unverified())));
    else n_cast_ok += 2;
    if (Wd::rd<P>(*SB, 640) != static_cast<P>(r)) report("reinterpret-cast-fnptr", "source-modified", "sandbox cell changed by a cast");
  }
  mon::distinct(mon::mix(0xf9, mon::mix(std::hash<std::string>()(typeid(L).name()), std::hash<std::string>()(typeid(R).name()))));
}

// sandbox_static_cast between class pointers: the one pointer cast that legitimately moves the address (base sub-object
// adjustment).  The result must be exactly what the C++ cast yields on the raw pointer, and a result that leaves the sandbox
// - in EITHER direction: past the end for an upcast near the end, before the start for a downcast near the start - must abort
namespace c20h {
struct B1 { int a; };
struct B2 { int b; };
struct D : B1, B2 { int c; };
}
static uint64_t n_hier_ok = 0, n_hier_abort = 0;
static void class_pointer_casts(mon::Rng& rng)
{
  using namespace c20h;
  const uintptr_t base = Wd::base(*SB), size = Wd::size(*SB);
  const ptrdiff_t adj = reinterpret_cast<char*>(static_cast<B2*>(reinterpret_cast<D*>(4096))) - reinterpret_cast<char*>(4096); // offset of B2 in D
  std::vector<uint64_t> offs = { 0, 4, 8, 64, size - 16, size - 12, size - 8, size - 4 };
  for (int i = 0; i < mon::tier(16, 400); i++) offs.push_back(4 * rng.below(size / 4));
  for (uint64_t off : offs) {
    for (int dir = 0; dir < 4; dir++) {
      const bool as_cell = dir >= 2; // dir 2, 3: the same two casts with the operand read from a pointer cell
      const int dir4 = dir;
      dir &= 1;
      struct Restore { int& d; int v; ~Restore() { d = v; } } restore{ dir, dir4 };
      uintptr_t from = base + off, got = 0;
      int64_t want_off = dir == 0 ? int64_t(off) + adj : int64_t(off) - adj;
      bool inside = want_off >= 0 && uint64_t(want_off) < size;
      mon::ctx("static-cast/class-pointers | %s at offset %llu", dir == 0 ? "D* -> B2* (up)" : "B2* -> D* (down)", (unsigned long long)off);
      // the operand alternately as a tainted value and as a pointer CELL in sandbox memory (tainted_volatile)
      bool ab = mon::aborts([&] {
        if (as_cell) {
          Wd::wr<typename Cfg::P>(*SB, 256, static_cast<typename Cfg::P>(off));
          if (dir == 0) got = reinterpret_cast<uintptr_t>(sandbox_static_cast<B2*>(*Wd::tptr<D*>(*SB, 256)).UNSAFE_unverified());
          else got = reinterpret_cast<uintptr_t>(sandbox_static_cast<D*>(*Wd::tptr<B2*>(*SB, 256)).UNSAFE_unverified());
        }
        else if (dir == 0) { auto p = sandbox_reinterpret_cast<D*>(Wd::tptr<char>(*SB, off)); got = reinterpret_cast<uintptr_t>(sandbox_static_cast<B2*>(p).UNSAFE_unverified()); }
        else { auto p = sandbox_reinterpret_cast<B2*>(Wd::tptr<char>(*SB, off)); got = reinterpret_cast<uintptr_t>(sandbox_static_cast<D*>(p).UNSAFE_unverified()); }
      });
      mon::evals();
      mon::distinct(mon::mix(0xc1a55, mon::mix(off, dir4)));
      (void)from;
      if (as_cell && off == 0) { // the representation 0 in a pointer cell is the null pointer: the cast of null is null
        if (ab || got != 0) report("static-cast-class-pointer", "null-cell-not-null-after-cast", mon::fmt("dir %d", dir));
        else n_hier_ok++;
        continue;
      }
      if (inside) {
        if (ab) report("static-cast-class-pointer", "spurious-abort", mon::fmt("offset %llu dir %d", (unsigned long long)off, dir));
        else if (got != base + uint64_t(want_off)) report("static-cast-class-pointer", "wrong-address", mon::fmt("offset %llu dir %d: base%+lld, C++ yields base%+lld", (unsigned long long)off, dir, (long long)(got - base), (long long)want_off));
        else n_hier_ok++;
      } else {
        if (!ab) report("static-cast-class-pointer", "moved-out-of-the-sandbox-without-abort", mon::fmt("%s at offset %llu yields base%+lld", dir == 0 ? "upcast" : "downcast", (unsigned long long)off, (long long)(got - base)));
        else n_hier_abort++;
      }
    }
  }
  mon::hit("class-pointer-static-casts-exact", n_hier_ok);
  mon::hit("class-pointer-static-casts-refused-at-the-region-edges", n_hier_abort);
}

static void pointer_opaque(mon::Rng& rng)
{
  // pointers, pointer-to-pointer, arrays, structs: opaque round trip by bytes
  for (int i = 0; i < mon::tier(200, 5000); i++) {
    uint64_t off = rng.below(Wd::size(*SB));
    auto p = Wd::tptr<int>(*SB, off & ~3ull);
    auto pb = from_opaque(p.to_opaque());
    auto pp = sandbox_reinterpret_cast<int**>(p);
    auto ppb = from_opaque(pp.to_opaque());
    tainted<int[4], S> arr;
    for (int k = 0; k < 4; k++) arr[k] = static_cast<int>(rng());
    auto arrb = from_opaque(arr.to_opaque());
    tainted<PA, S> st;
    st.a = static_cast<long>(rng()); st.b = static_cast<char>(rng()); st.c = p;
    auto stb = from_opaque(st.to_opaque());
    mon::evals(4);
    // structs are compared field by field (padding bytes carry no value)
    bool st_ok = st.a.UNSAFE_unverified() == stb.a.UNSAFE_unverified() && st.b.UNSAFE_unverified() == stb.b.UNSAFE_unverified() &&
                 st.c.UNSAFE_unverified() == stb.c.UNSAFE_unverified();
    if (!same_bits(p, pb) || !same_bits(pp, ppb) || !same_bits(arr, arrb) || !st_ok)
      report("opaque-roundtrip", "bits-differ", mon::fmt("pointer/array/struct round trip at offset %llu", (unsigned long long)off));
    else n_bits_ok += 4;
  }
  // null and function pointer
  tainted<int*, S> n = nullptr;
  if (from_opaque(n.to_opaque()).UNSAFE_unverified() != nullptr) report("opaque-roundtrip", "null-changed", "null pointer");
  mon::distinct(0x0c);
}

template<typename T, typename... Ts> static void for_types(mon::Rng& rng, vsbx_library& lib, tl<T, Ts...>)
{
  opaque_roundtrip<T>(rng);
  if constexpr (!std::is_enum_v<T>) opaque_paths<T>(rng, lib);
  if constexpr (sizeof...(Ts) > 0) for_types(rng, lib, tl<Ts...>{});
}
template<typename... Ts> static void add_exports(vsbx_library& lib, tl<Ts...>)
{
  auto add = [&](auto tag) {
    using T = typename decltype(tag)::type;
    using G = ref::guest_t<Cfg, T>;
    lib.add((std::string("echo_") + ref::name<T>()).c_str(), reinterpret_cast<void*>(&Wd::g_echo<G>));
    lib.add((std::string("callcb_") + ref::name<T>()).c_str(), reinterpret_cast<void*>(&guest_call_cb<G>));
  };
  (add(std::common_type<Ts>{}), ...);
}

int main(int argc, char** argv)
{
  mon::init("C20", argc, argv);
  mon::Rng rng(mon::seed() + 20 + mon::slice());
  vsbx_library lib;
  lib.id = 1;
  using path_types = tl<bool, char, unsigned char, short, unsigned short, int, unsigned int, long, unsigned long, long long, unsigned long long, float, double>;
  add_exports(lib, path_types{});
  Wd::sbx sb;
  sb.create_sandbox(&lib);
  SB = &sb;
  // the two parts are separate binaries (-DPART=0/1) so they compile in parallel
#if PART == 0
  {
    mon::require("opaque-roundtrip-bits-identical");
    mon::require("guest-sees-same-value-for-opaque");
    mon::require("cast-equals-cpp-cast");
    for_types(rng, lib, path_types{});
    opaque_roundtrip<E16>(rng);
    opaque_roundtrip<signed char>(rng);
    pointer_opaque(rng);
    class_pointer_casts(rng);
    ptr_cast_pair<K_REINT, char*, int*>(rng);
    ptr_cast_pair<K_REINT, int*, char*>(rng);
    ptr_cast_pair<K_REINT, void*, long*>(rng);
    ptr_cast_pair<K_REINT, long**, void*>(rng);
    ptr_cast_pair<K_REINT, PA*, char*>(rng);
    fnptr_cast_pair<void*, int (*)(int)>(rng);
    fnptr_cast_pair<int (*)(int), void*>(rng);
    fnptr_cast_pair<long (*)(long, char*), int (*)(int)>(rng);
    fnptr_cast_pair<char*, void (*)()>(rng);
    ptr_cast_pair<K_CONST, const int*, int*>(rng);
    ptr_cast_pair<K_CONST, int*, const int*>(rng);
    ptr_cast_pair<K_CONST, char*, const char*>(rng);
    ptr_cast_pair<K_STATIC, void*, int*>(rng);
    ptr_cast_pair<K_STATIC, int*, void*>(rng);
    ptr_cast_pair<K_STATIC, const void*, const long*>(rng);
    // volatile-qualified pointees (programs of the pinned tree)
    ptr_cast_pair<K_STATIC, volatile void*, volatile int*, false>(rng);
    ptr_cast_pair<K_STATIC, volatile int*, int*, false>(rng);
    ptr_cast_pair<K_STATIC, const volatile void*, const volatile long*, false>(rng);
    ptr_cast_pair<K_REINT, volatile char*, volatile int*, false>(rng);
    ptr_cast_pair<K_CONST, int*, volatile int*, false>(rng);
    ptr_cast_pair<K_CONST, volatile int*, int*, false>(rng);
  }
#else
  {
    mon::require("cast-equals-cpp-cast");
    static_all(rng, arith{});
  }
#endif
  mon::hit("opaque-roundtrip-bits-identical", n_bits_ok);
  mon::hit("guest-sees-same-value-for-opaque", n_guest_ok);
  mon::hit("cast-equals-cpp-cast", n_cast_ok);
  sb.destroy_sandbox();
  return mon::finish();
}
