// C14, histories that end after main(): an application-wide sandbox whose owner has static storage duration and destroys it
// while the process is shutting down (a global `rlbox_sandbox` wrapped in a holder with a destructor, an atexit handler
// registered at start-up).  "Exactly between a successful create and the matching destroy" does not stop at the return from
// main: the sandbox is still created, so it must still be found from an address inside its memory, serve allocations, and be
// destroyed without abort.  The library's own bookkeeping (the live-sandbox registry) has static storage duration too; if its
// lifetime ends before the owner's destructor runs, that destructor works on a dead registry.
//
// Each history runs in a forked child that leaves through exit() (static destructors and atexit handlers run); the owner's
// destructor judges and records the verdict in a page shared with the parent.  The parent reports.  Owners are constructed
// before the library is first used (the realistic order: the global is constructed at start-up, the sandbox is created lazily
// in main), and - as a control - by an initialiser that creates the sandbox itself.
#include "world.hpp"
#include "rlbox_noop_sandbox.hpp"
#include <sys/wait.h>

using namespace rlbox;

static int32_t g_add(int32_t a, int32_t b) { return a + b; }

using MS = rlbox_vsbx_sandbox<vsbx_ilp32f>; // FINDER-style: the registry is on the translation path of every pointer cell
static vsbx_library& model_lib()
{
  static vsbx_library* l = [] { auto* x = new vsbx_library; x->id = 1; x->add("add", reinterpret_cast<void*>(&g_add)); return x; }();
  return *l;
}

struct Verdict
{
  // per owner: 0 = destructor did not run, 1 = held, otherwise a failure class
  int v[8];
  char msg[8][160];
};
static Verdict* g_page = nullptr;
enum { V_NOT_RUN = 0, V_HELD = 1, V_SECOND_CREATE_ACCEPTED, V_MALLOC_NULL, V_NOT_FOUND, V_DESTROY_ABORTED, V_RECREATE_ABORTED };
static const char* vname(int v)
{
  switch (v) {
    case V_NOT_RUN: return "owner-destructor-did-not-complete";
    case V_HELD: return "held";
    case V_SECOND_CREATE_ACCEPTED: return "second-create-accepted";
    case V_MALLOC_NULL: return "malloc-returned-null";
    case V_NOT_FOUND: return "not-found-from-an-address-inside-its-memory";
    case V_DESTROY_ABORTED: return "destroy-aborted-on-a-created-sandbox";
    case V_RECREATE_ABORTED: return "cannot-be-created-again";
  }
  return "?";
}

template<typename F>
static bool aborts_plain(F&& f) // no mon state: runs during static destruction
{
  try { f(); } catch (const std::runtime_error&) { return true; }
  return false;
}

template<typename B>
static void create(rlbox_sandbox<B>& sb)
{
  if constexpr (std::is_same_v<B, MS>) sb.create_sandbox(&model_lib());
  else sb.create_sandbox();
}

// what "still created" means, judged wherever it is called from
template<typename B>
static int judge_and_destroy(rlbox_sandbox<B>& sb)
{
  if (!aborts_plain([&] { create(sb); })) return V_SECOND_CREATE_ACCEPTED;
  auto p = sb.template malloc_in_sandbox<int>(4);
  if (!p) return V_MALLOC_NULL;
  auto pp = sb.template malloc_in_sandbox<int*>(1);
  if (!pp) return V_MALLOC_NULL;
  if (aborts_plain([&] { *pp = p; tainted<int*, B> q = *pp; if (q.UNSAFE_unverified() != p.UNSAFE_unverified()) throw std::runtime_error("wrong pointer"); })) return V_NOT_FOUND;
  if (aborts_plain([&] { sb.destroy_sandbox(); })) return V_DESTROY_ABORTED;
  if (aborts_plain([&] { create(sb); sb.destroy_sandbox(); })) return V_RECREATE_ABORTED;
  return V_HELD;
}

template<typename B, int Slot>
struct Owner
{
  rlbox_sandbox<B> sb;
  bool armed = false;
  Owner() = default;
  explicit Owner(bool create_now) { if (create_now) { create(sb); armed = true; } }
  ~Owner()
  {
    if (!armed || !g_page) return;
    g_page->v[Slot] = judge_and_destroy(sb);
  }
};

// constructed at start-up, before the library is first used; their sandboxes are created lazily in the child's "main"
static Owner<MS, 0> g_lazy_model;
static Owner<rlbox_noop_sandbox, 1> g_lazy_noop;
// control: the initialiser creates the sandbox itself (armed only in children: the flag is set there)
static rlbox_sandbox<MS> g_atexit_model;
static rlbox_sandbox<rlbox_noop_sandbox> g_atexit_noop;

static const char* const SLOT_NAME[] = { "global-owner/model", "global-owner/noop", "atexit-handler/model", "atexit-handler/noop",
                                         "function-local-static-owner/model", "function-local-static-owner/noop" };

static void at_exit_model() { if (g_page) g_page->v[2] = judge_and_destroy(g_atexit_model); }
static void at_exit_noop() { if (g_page) g_page->v[3] = judge_and_destroy(g_atexit_noop); }

// history k; never returns (leaves through exit so that the shutdown sequence runs)
[[noreturn]] static void history(int k, int uses)
{
  switch (k) {
    case 0: // global owner, created lazily, used, left to its destructor
      create(g_lazy_model.sb); g_lazy_model.armed = true;
      break;
    case 1:
      create(g_lazy_noop.sb); g_lazy_noop.armed = true;
      break;
    case 2: // handler registered at start-up (before the library's first use), sandbox created later
      atexit(at_exit_model);
      create(g_atexit_model);
      break;
    case 3:
      atexit(at_exit_noop);
      create(g_atexit_noop);
      break;
    case 4: { // function-local static owner whose construction completes before the first create
      static Owner<MS, 4> o;
      create(o.sb); o.armed = true;
      break;
    }
    case 5: {
      static Owner<rlbox_noop_sandbox, 5> o;
      create(o.sb); o.armed = true;
      break;
    }
  }
  // other sandboxes come and go in between (the registry is used, grows and shrinks)
  for (int i = 0; i < uses; i++) {
    rlbox_sandbox<MS> a; create(a);
    rlbox_sandbox<rlbox_noop_sandbox> b; create(b);
    auto p = a.malloc_in_sandbox<int>(2); (void)p;
    if (i & 1) { a.destroy_sandbox(); b.destroy_sandbox(); } else { b.destroy_sandbox(); a.destroy_sandbox(); }
  }
  exit(0);
}

int main(int argc, char** argv)
{
  mon::init("C14", argc, argv);
  mon::require("shutdown-history-held");
  g_page = mon::shared_page<Verdict>();
  uint64_t n_ok = 0;
  const int reps = mon::tier(2, 12);
  for (int rep = 0; rep < reps; rep++) {
    for (int k = 0; k < 6; k++) {
      memset(g_page, 0, sizeof(Verdict));
      int uses = rep; // 0: the owner's sandbox is the only one the registry ever held
      mon::ctx("shutdown/%s | sandbox created in main, destroyed by its owner during process shutdown; %d other sandboxes in between", SLOT_NAME[k], 2 * uses);
      fflush(stdout); fflush(stderr);
      pid_t pid = fork();
      if (pid < 0) { perror("fork"); return 2; }
      if (pid == 0) {
        for (int sig : { SIGABRT, SIGSEGV, SIGBUS }) signal(sig, SIG_DFL);
        history(k, uses);
      }
      int status = 0;
      while (waitpid(pid, &status, 0) < 0) {}
      mon::evals();
      mon::distinct(0x7e00 + k * 64 + uses);
      int v = g_page->v[k];
      bool clean_exit = WIFEXITED(status) && WEXITSTATUS(status) == 0;
      if (v == V_HELD && clean_exit) { n_ok++; continue; }
      std::string how = WIFEXITED(status) ? mon::fmt("exit(%d)", WEXITSTATUS(status)) : mon::fmt("signal(%d)", WTERMSIG(status));
      const char* cls = v == V_HELD ? "process-died-after-the-owner-finished" : vname(v);
      mon::violation(mon::fmt("C14/shutdown/%s/%s", SLOT_NAME[k], cls),
                     mon::fmt("history %d with %d other sandboxes: the owner's verdict is '%s', the process ended with %s", k, 2 * uses, vname(v), how.c_str()));
    }
  }
  mon::hit("shutdown-history-held", n_ok);
  return mon::finish();
}
