// C15: app-pointer tokens are non-zero, bounded, unique and resolve to their
// pointer.  Part A: complete exploration of the reachable states of
// app_pointer_map<uint8_t> for small limits (BFS, lock-step reference model),
// directed + random histories for limits up to 254.  Part B: histories through
// rlbox_sandbox::get_app_pointer with owner objects being moved, overwritten,
// unregistered and destroyed (model and noop backends).
//
// Built with -fno-access-control ONLY so that the exploration can read (never
// write) the private cursor to identify states; verdicts use public behaviour.
#include "world.hpp"
#include "rlbox_noop_sandbox.hpp"

#include <deque>
#include <map>
#include <memory>
#include <optional>
#include <set>
#include <unordered_set>

static int c15_app_function(int x) { return x + 1; }
using namespace rlbox;

template<typename X>
static uint64_t tok64(X x)
{
  if constexpr (std::is_pointer_v<X>) return reinterpret_cast<uintptr_t>(x);
  else return static_cast<uint64_t>(x);
}

static void report(const char* where, const char* cls, const std::string& d)
{
  mon::violation(mon::fmt("C15/%s/%s", where, cls), d);
}

// ------------------------------------------------------------------ part A
using Map8 = app_pointer_map<uint8_t>;
struct Node
{
  Map8 real;
  std::map<unsigned, void*> model; // live token -> pointer
  std::string hist;
};
static uint64_t g_serial = 0x1000;
static uint64_t n_states = 0, n_trans = 0, n_full_abort = 0, n_lookup_ok = 0, n_released_abort = 0;

static bool check_lookups(const char* where, Map8& m, const std::map<unsigned, void*>& model, unsigned limit, const std::string& hist)
{
  bool ok = true;
  for (auto& kv : model) {
    void* got = nullptr;
    bool ab = mon::aborts([&] { got = m.lookup_index(static_cast<uint8_t>(kv.first)); });
    if (ab || got != kv.second) {
      report(where, "lookup-of-live-token-wrong", mon::fmt("limit %u, history [%s]: token %u resolves to %p (aborted=%d), registered %p", limit, hist.c_str(), kv.first, got, ab, kv.second));
      ok = false;
    } else n_lookup_ok++;
  }
  return ok;
}

// apply "register" to node; returns false if a violation ended this history
static bool step_register(const char* where, Node& n, unsigned limit)
{
  void* p = reinterpret_cast<void*>(g_serial++);
  unsigned tok = 0;
  bool ab = mon::aborts([&] { tok = n.real.get_app_pointer_idx(p, static_cast<uint8_t>(limit)); });
  n_trans++;
  bool full = n.model.size() >= limit;
  n.hist += "R ";
  if (full) {
    if (!ab) { report(where, "registration-succeeds-when-full", mon::fmt("limit %u, history [%s]: all %u tokens live, registration returned token %u", limit, n.hist.c_str(), limit, tok)); return false; }
    n_full_abort++;
    return false; // abort is terminal for the history
  }
  if (ab) { report(where, "registration-aborts-with-free-token", mon::fmt("limit %u, history [%s]: %zu of %u tokens live", limit, n.hist.c_str(), n.model.size(), limit)); return false; }
  if (tok == 0) { report(where, "token-zero", mon::fmt("limit %u, history [%s]", limit, n.hist.c_str())); return false; }
  if (tok > limit) { report(where, "token-exceeds-limit", mon::fmt("limit %u, history [%s]: token %u", limit, n.hist.c_str(), tok)); return false; }
  if (n.model.count(tok)) { report(where, "duplicate-token", mon::fmt("limit %u, history [%s]: token %u is already live", limit, n.hist.c_str(), tok)); return false; }
  n.model[tok] = p;
  n.hist += mon::fmt("->%u ", tok);
  return check_lookups(where, n.real, n.model, limit, n.hist);
}

static bool step_release(const char* where, Node& n, unsigned limit, unsigned tok)
{
  bool ab = mon::aborts([&] { n.real.remove_app_ptr(static_cast<uint8_t>(tok)); });
  n_trans++;
  n.hist += mon::fmt("F%u ", tok);
  if (ab) { report(where, "release-of-live-token-aborts", mon::fmt("limit %u, history [%s]", limit, n.hist.c_str())); return false; }
  n.model.erase(tok);
  bool ab2 = mon::aborts([&] { n.real.lookup_index(static_cast<uint8_t>(tok)); });
  if (!ab2) { report(where, "released-token-still-resolves", mon::fmt("limit %u, history [%s]: token %u", limit, n.hist.c_str(), tok)); return false; }
  n_released_abort++;
  return check_lookups(where, n.real, n.model, limit, n.hist);
}

static uint64_t state_key(const Node& n)
{
  uint64_t live = 0;
  for (auto& kv : n.model) live |= 1ULL << kv.first;
  return mon::mix(live, static_cast<uint64_t>(n.real.counter)); // read-only peek (see header)
}

static void explore_limit(unsigned limit)
{
  std::unordered_set<uint64_t> seen;
  std::deque<Node> q;
  q.push_back(Node{});
  seen.insert(state_key(q.front()));
  uint64_t states = 0;
  while (!q.empty()) {
    Node cur = std::move(q.front());
    q.pop_front();
    states++;
    mon::ctx("explore/limit%u | %s", limit, cur.hist.c_str());
    // register
    {
      Node nx = cur;
      if (step_register("map8-exhaustive", nx, limit)) {
        if (seen.insert(state_key(nx)).second) q.push_back(std::move(nx));
      }
    }
    // release each live token
    for (auto& kv : cur.model) {
      Node nx = cur;
      if (step_release("map8-exhaustive", nx, limit, kv.first)) {
        if (seen.insert(state_key(nx)).second) q.push_back(std::move(nx));
      }
    }
  }
  n_states += states;
  mon::distinct_counted(states);
  static int ns = 0;
  if (ns++ % 4 == 0) mon::sample(mon::fmt("{\"token_type\":\"uint8_t\",\"limit\":%u,\"reachable_states\":%llu}", limit, (unsigned long long)states));
}

static void directed_limit(unsigned limit, mon::Rng& rng)
{
  const char* where = "map8-directed";
  mon::ctx("directed/limit%u | fill", limit);
  Node n;
  // fill to the limit
  for (unsigned i = 0; i < limit; i++)
    if (!step_register(where, n, limit)) return;
  { Node f = n; step_register(where, f, limit); } // must abort (copy: abort is terminal)
  // release every k-th, refill, check again
  unsigned k = 1 + rng.below(5);
  std::vector<unsigned> toks;
  for (auto& kv : n.model) toks.push_back(kv.first);
  for (size_t i = 0; i < toks.size(); i += k)
    if (!step_release(where, n, limit, toks[i])) return;
  while (n.model.size() < limit)
    if (!step_register(where, n, limit)) return;
  { Node f = n; step_register(where, f, limit); }
  // release the highest, register (cursor wrap), release the lowest, register
  if (!step_release(where, n, limit, limit)) return;
  if (!step_register(where, n, limit)) return;
  if (!step_release(where, n, limit, 1)) return;
  if (!step_register(where, n, limit)) return;
  { Node f = n; step_register(where, f, limit); }
  // random history
  int steps = mon::tier(600, 20000);
  n.hist = "(random) ";
  for (int s = 0; s < steps; s++) {
    bool doreg = n.model.empty() || (n.model.size() < limit ? rng.below(100) < 60 : rng.below(100) < 15);
    if (n.hist.size() > 300) n.hist = "(...) ";
    if (doreg) {
      if (n.model.size() >= limit) { Node f = n; step_register(where, f, limit); continue; }
      if (!step_register(where, n, limit)) return;
    } else {
      auto it = n.model.begin();
      std::advance(it, rng.below(n.model.size()));
      if (!step_release(where, n, limit, it->first)) return;
    }
  }
  mon::distinct(mon::mix(0xd1, limit));
}

// ------------------------------------------------------------------ part B
template<typename SbxT, typename MakeSandbox, typename Recreate>
static void owner_histories(const char* where, MakeSandbox&& make, Recreate&& recreate, bool bounded, mon::Rng& rng)
{
  using sbx_t = rlbox_sandbox<SbxT>;
  using AP = app_pointer<int*, SbxT>;
  int rounds = mon::tier(20, 300);
  for (int round = 0; round < rounds; round++) {
    auto sbp = make();
    sbx_t& sb = *sbp;
    uintptr_t base = reinterpret_cast<uintptr_t>(sb.get_memory_location());
    size_t total = sb.get_total_memory();
    constexpr int NO = 6;
    std::vector<std::unique_ptr<AP>> owner(NO);
    struct M { bool live = false; uint64_t tok = 0; int* ptr = nullptr; tainted<int*, SbxT> tp = nullptr; };
    std::vector<M> model(NO);
    std::map<uint64_t, int*> live;           // token -> pointer
    struct Rel { tainted<int*, SbxT> first; uint64_t second; const char* cause; };
    std::vector<Rel> released; // tainted token pointers that must no longer resolve
    static int targets[4096];
    int steps = mon::tier(60, 400);
    std::string hist;
    auto fail = [&](const char* cls, const std::string& d) { report(where, cls, mon::fmt("history [%s]: %s", hist.c_str(), d.c_str())); };
    bool dead = false;
    // after the sandbox object went through destroy/create the token pointers are formed the way the sandbox hands them
    // back: the token, translated relative to the memory of the current incarnation
    bool recycled = false;
    auto forge = [&](uint64_t tok) { tainted<int*, SbxT> t = nullptr; t.assign_raw_pointer(sb, reinterpret_cast<int*>(base + tok)); return t; };
    for (int s = 0; s < steps && !dead; s++) {
      int o = rng.below(NO), o2 = rng.below(NO);
      int op = rng.below(7);
      mon::ctx("%s/owners | %s", where, hist.c_str());
      if (hist.size() > 400) hist = "... ";
      mon::evals();
      switch (op) {
        case 0:
        case 1: { // register into owner o (overwriting whatever it held: move-assign)
          int* p = &targets[rng.below(4096)];
          AP fresh;
          bool ab = mon::aborts([&] { fresh = sb.get_app_pointer(p); });
          hist += mon::fmt("o%d=reg ", o);
          if (ab) { fail("registration-aborts-with-free-token", "get_app_pointer aborted"); dead = true; break; }
          uint64_t tok = tok64(fresh.UNSAFE_sandboxed(sb));
          auto tp = fresh.to_tainted();
          if (tok == 0) { fail("token-zero", "token 0 issued"); dead = true; break; }
          if (bounded && tok > total - 1) { fail("token-exceeds-limit", mon::fmt("token %llu, limit %zu", (unsigned long long)tok, total - 1)); dead = true; break; }
          if (live.count(tok)) { fail("duplicate-token", mon::fmt("token %llu already live", (unsigned long long)tok)); dead = true; break; }
          if (bounded) {
            auto a = reinterpret_cast<uintptr_t>(tp.UNSAFE_unverified());
            if (!(a >= base && a - base < total)) { fail("to_tainted-outside-sandbox", mon::fmt("token pointer %p", (void*)a)); dead = true; break; }
          }
          bool was_live = owner[o] && model[o].live;
          M old = model[o];
          if (!owner[o]) owner[o] = std::make_unique<AP>(std::move(fresh));
          else *owner[o] = std::move(fresh); // move-assign onto empty or live owner
          if (was_live) {
            hist += "(onto-live) ";
            live.erase(old.tok);
            released.push_back({ old.tp, old.tok, "owner-overwritten-by-move-assign" });
            mon::hit("move-assign-onto-live-owner");
          }
          model[o].live = true; model[o].tok = tok; model[o].ptr = p; model[o].tp = tp;
          live[tok] = p;
          break;
        }
        case 2: { // unregister owner o
          if (!owner[o]) break;
          hist += mon::fmt("o%d.unreg ", o);
          bool ab = mon::aborts([&] { owner[o]->unregister(); });
          if (ab) { fail("unregister-aborts", ""); dead = true; break; }
          if (model[o].live) { live.erase(model[o].tok); released.push_back({ model[o].tp, model[o].tok, "unregister" }); model[o].live = false; }
          break;
        }
        case 3: { // destroy owner o
          if (!owner[o]) break;
          hist += mon::fmt("~o%d ", o);
          bool ab = mon::aborts([&] { owner[o].reset(); });
          if (ab) { fail("destroy-aborts", ""); dead = true; break; }
          if (model[o].live) { live.erase(model[o].tok); released.push_back({ model[o].tp, model[o].tok, "owner-destroyed" }); model[o].live = false; }
          break;
        }
        case 4: { // move-construct a new owner from o, put it in an empty slot
          if (!owner[o] || owner[o2] || o == o2) break;
          hist += mon::fmt("o%d=move-ctor(o%d) ", o2, o);
          owner[o2] = std::make_unique<AP>(std::move(*owner[o]));
          model[o2] = model[o];
          model[o].live = false;
          mon::hit("move-construct");
          break;
        }
        case 5: { // move-assign owner o onto owner o2
          if (!owner[o] || !owner[o2]) break;
          hist += mon::fmt("o%d=move(o%d)%s ", o2, o, o == o2 ? "(self)" : "");
          bool target_live = model[o2].live;
          M old = model[o2];
          *owner[o2] = std::move(*owner[o]);
          if (o != o2) {
            if (target_live) { live.erase(old.tok); released.push_back({ old.tp, old.tok, "owner-overwritten-by-move-assign" }); mon::hit("move-assign-onto-live-owner"); }
            model[o2] = model[o];
            model[o].live = false;
          } else mon::hit("self-move-assign");
          break;
        }
        case 6: { // the sandbox object is destroyed and created again; the owners live on ("until its owner unregisters or is destroyed")
          if (rng.below(4)) break;
          hist += "recycle-sandbox ";
          bool ab = mon::aborts([&] { sb.destroy_sandbox(); recreate(sb); });
          if (ab) { fail("destroy-create-with-live-owners-aborts", ""); dead = true; break; }
          base = reinterpret_cast<uintptr_t>(sb.get_memory_location());
          total = sb.get_total_memory();
          recycled = true;
          mon::hit("sandbox-recycled-with-live-owners");
          break;
        }
        default: break;
      }
      if (dead) break;
      // ---- observations after every step
      for (int i = 0; i < NO && !dead; i++) {
        if (!owner[i]) continue;
        if (owner[i]->is_unregistered() != !model[i].live) {
          fail(model[i].live ? "live-owner-claims-unregistered" : "moved-from-or-released-owner-claims-registered", mon::fmt("owner %d", i));
          dead = true;
          break;
        }
        if (model[i].live) {
          int* got = nullptr;
          bool ab = mon::aborts([&] { got = sb.lookup_app_ptr(recycled ? forge(model[i].tok) : owner[i]->to_tainted()); });
          if (ab || got != model[i].ptr) { fail("lookup-of-live-token-wrong", mon::fmt("owner %d token %llu resolves to %p, registered %p", i, (unsigned long long)model[i].tok, (void*)got, (void*)model[i].ptr)); dead = true; break; }
          n_lookup_ok++;
        }
      }
      for (auto& r : released) {
        if (dead) break;
        if (live.count(r.second)) continue; // token legitimately reused since
        bool ab = mon::aborts([&] { sb.lookup_app_ptr(recycled ? forge(r.second) : r.first); });
        if (!ab) {
          fail(mon::fmt("released-token-still-resolves/%s", r.cause).c_str(), mon::fmt("token %llu was released (%s) but lookup still succeeds", (unsigned long long)r.second, r.cause));
          dead = true;
        } else n_released_abort++;
      }
      if (released.size() > 16) released.erase(released.begin(), released.begin() + 8);
    }
    mon::distinct(mon::mix(std::hash<std::string>()(where), std::hash<std::string>()(hist)));
    owner.clear();
    sb.destroy_sandbox();
  }
}

int main(int argc, char** argv)
{
  mon::init("C15", argc, argv);
  mon::require("full-table-registration-aborts");
  mon::require("live-token-lookup-exact");
  mon::require("released-token-lookup-aborts");
  mon::require("move-assign-onto-live-owner");
  mon::Rng rng(mon::seed() + 15);
  int part = argc > 1 ? atoi(argv[1]) : 0;
  if (part == 0) {
    unsigned maxl = mon::tier(12u, 16u);
    // slices share the limits: limit L is explored by slice L % nslices
    for (unsigned l = 1; l <= maxl; l++)
      if (l % mon::nslices() == mon::slice()) explore_limit(l);
    mon::extra_num("explored_states", n_states);
    mon::extra_num("explored_transitions", n_trans);
    mon::extra("exhaustive_limits", mon::fmt("\"1..%u (complete reachable state space per limit)\"", maxl));
    // the limit equal to the largest value of the token type (the cursor and the scan index wrap there): run in a child with
    // an alarm, because a registration that never returns cannot be observed from inside
    if (mon::slice() == 0) {
      mon::ctx("map8-limit-255 | fill, one more, release the highest, register again");
      struct Out { int filled; int last_tok; int phase; };
      Out* out = mon::shared_page<Out>();
      auto r = mon::in_child([&] {
        alarm(20);
        Map8 m;
        static int objs[256];
        for (int i = 0; i < 255; i++) { out->last_tok = m.get_app_pointer_idx(&objs[i], 255); out->filled = i + 1; }
        out->phase = 1;
        m.remove_app_ptr(255);
        out->phase = 2;
        out->last_tok = m.get_app_pointer_idx(&objs[0], 255); // only 255 is free
        out->phase = 3;
        m.get_app_pointer_idx(&objs[1], 255);                  // full: must abort (exception -> exit 77)
        out->phase = 4;
      });
      mon::evals();
      if (r.signal == SIGALRM) report("map8-limit-255", "registration-never-returns", mon::fmt("limit 255 (the largest uint8_t): after %d registrations (phase %d) the next get_app_pointer_idx did not return within 20 s", out->filled, out->phase));
      else if (!(r.exited && r.code == 77 && out->phase == 3 && out->last_tok == 255 && out->filled == 255))
        report("map8-limit-255", "wrong-outcome", mon::fmt("exit %d signal %d phase %d filled %d last token %d (expected: abort in phase 3 after token 255 was handed out again)", r.code, r.signal, out->phase, out->filled, out->last_tok));
      else n_full_abort++;
      mon::distinct(0xd255);
    }
    // every limit 17..254 in thorough, a seed-chosen sample in quick
    for (unsigned l = 13; l <= 254; l++) {
      if (l % mon::nslices() != mon::slice()) continue;
      if (!mon::thorough() && rng.below(8) != 0 && l != 254 && l != 128 && l != 127) continue;
      directed_limit(l, rng);
    }
  } else {
    using VS = rlbox_vsbx_sandbox<vsbx_ilp32>;
    static vsbx_library lib;
    lib.id = 1;
    VS::region_size = 4096;
    owner_histories<VS>("owners-model", [&] { auto s = std::make_unique<rlbox_sandbox<VS>>(); s->create_sandbox(&lib); return s; }, [&](rlbox_sandbox<VS>& x) { x.create_sandbox(&lib); }, true, rng);
    // an application object that happens to be a function pointer (T = int (*)(int), the app pointer is a data pointer to it):
    // registration succeeds like for any other object, the token resolves to it, and a refused registration leaks no token
    {
      auto s = std::make_unique<rlbox_sandbox<VS>>();
      s->create_sandbox(&lib);
      using fn_t = int (*)(int);
      static fn_t fpvar = nullptr;
      static int plain;
      mon::ctx("owners-model | app pointer to a function-pointer variable");
      bool okk = false;
      bool ab = mon::aborts([&] {
        auto ap = s->get_app_pointer(&fpvar);
        auto t = ap.to_tainted();
        okk = s->is_pointer_in_sandbox_memory(t.UNSAFE_unverified()) && s->lookup_app_ptr(t) == &fpvar;
        ap.unregister();
      });
      mon::evals();
      if (ab || !okk) report("owners-model", "app-pointer-to-function-pointer-object-refused-or-wrong", ab ? "get_app_pointer(&function_pointer_variable) aborted" : "token outside the sandbox or wrong lookup");
      else n_lookup_ok++;
      // whatever happened above, no token may have been left behind: the next registration gets the lowest token again
      unsigned tok = 0;
      bool ab2 = mon::aborts([&] { auto ap2 = s->get_app_pointer(&plain); tok = static_cast<unsigned>(tok64(ap2.UNSAFE_sandboxed(*s))); ap2.unregister(); });
      // (the cursor moves on after each registration, so only the count of live tokens is judged: fill up and count)
      unsigned live_cap = 0;
      {
        std::vector<app_pointer<int*, VS>> held;
        static int y;
        for (;;) { bool full = mon::aborts([&] { held.push_back(s->get_app_pointer(&y)); }); if (full) break; live_cap++; if (live_cap > 5000) break; }
        for (auto& h : held) h.unregister();
      }
      if (ab2 || live_cap != 4095) report("owners-model", "token-leaked-by-a-refused-registration", mon::fmt("after the registration above only %u of 4095 tokens can be handed out (token of the next registration: %u)", live_cap, tok));
      else n_full_abort++;
      s->destroy_sandbox();
    }
    // the application pointer is the address of a FUNCTION (T = int(int), T* is itself a function pointer): the token still
    // stands for a location in the sandbox's address range -- registration must not be refused while tokens are free, the
    // token must resolve to the function's address, and a refusal must not leak the token
    {
      auto s = std::make_unique<rlbox_sandbox<VS>>();
      s->create_sandbox(&lib);
      mon::ctx("owners-model | app pointer to a function");
      VS::strict_function_table = true; // the backend's function table is bounds-checked: a bad index is an abort of the backend
      bool okk = false;
      uint64_t tokv = 0;
      bool ab = mon::aborts([&] {
        auto ap = s->get_app_pointer(&c15_app_function);
        tokv = tok64(ap.UNSAFE_sandboxed(*s));
        okk = tokv != 0 && tokv < 4096 && s->lookup_app_ptr(ap.to_tainted()) == &c15_app_function;
        ap.unregister();
      });
      mon::evals();
      if (ab || !okk) report("owners-model", "app-pointer-to-function-refused-or-wrong", ab ? "get_app_pointer(&function) / its lookup aborted although every token is free (backend with a function table)" : mon::fmt("token %llu out of range or wrong lookup", (unsigned long long)tokv));
      else n_lookup_ok++;
      unsigned live_cap = 0;
      {
        std::vector<app_pointer<int*, VS>> held;
        static int y;
        for (;;) { bool full = mon::aborts([&] { held.push_back(s->get_app_pointer(&y)); }); if (full) break; live_cap++; if (live_cap > 5000) break; }
        for (auto& h : held) h.unregister();
      }
      mon::evals();
      if (live_cap != 4095) report("owners-model", "token-leaked-by-a-refused-registration", mon::fmt("after get_app_pointer(&function) only %u of 4095 tokens can be handed out", live_cap));
      else n_full_abort++;
      VS::strict_function_table = false;
      s->destroy_sandbox();
    }
    // fill the 4 KiB model sandbox to its limit: 4095 tokens, then one more
    {
      auto s = std::make_unique<rlbox_sandbox<VS>>();
      s->create_sandbox(&lib);
      std::vector<app_pointer<int*, VS>> held;
      static int x;
      std::set<uint64_t> toks;
      bool early = false;
      for (int i = 0; i < 4095 && !early; i++) {
        bool ab = mon::aborts([&] { held.push_back(s->get_app_pointer(&x)); });
        if (ab) { report("owners-model-fill", "registration-aborts-with-free-token", mon::fmt("after %d registrations, limit 4095", i)); early = true; break; }
        uint64_t t = tok64(held.back().UNSAFE_sandboxed(*s));
        if (t == 0 || t > 4095 || !toks.insert(t).second) { report("owners-model-fill", "bad-token", mon::fmt("token %llu", (unsigned long long)t)); early = true; }
      }
      if (!early) {
        bool ab = mon::aborts([&] { held.push_back(s->get_app_pointer(&x)); });
        if (!ab) report("owners-model-fill", "registration-succeeds-when-full", mon::fmt("4096th registration returned token %llu", (unsigned long long)tok64(held.back().UNSAFE_sandboxed(*s))));
        else n_full_abort++;
      }
      mon::evals(4096);
      held.clear();
      s->destroy_sandbox();
    }
    owner_histories<rlbox_noop_sandbox>("owners-noop", [&] { auto s = std::make_unique<rlbox_sandbox<rlbox_noop_sandbox>>(); s->create_sandbox(); return s; }, [&](rlbox_sandbox<rlbox_noop_sandbox>& x) { x.create_sandbox(); }, false, rng);
  }
  mon::evals(n_trans);
  mon::hit("full-table-registration-aborts", n_full_abort);
  mon::hit("live-token-lookup-exact", n_lookup_ok);
  mon::hit("released-token-lookup-aborts", n_released_abort);
  return mon::finish();
}
