// C06 (b,c): integers crossing the ABI boundary on real paths of the model
// backends (store/load of sandbox memory, invoke argument/result, callback
// argument/result, arrays element by element), exception-mode abort capture.
#include "world.hpp"

// what the guest passes to the callback instead of its own parameter (set by the callback-arg path)
static thread_local bool g_cb_arg_override_on = false;
static thread_local uint64_t g_cb_arg_override = 0;

using namespace rlbox;
using ref::i128;

template<typename... Ts> struct tl {};
using path_ints = tl<short, unsigned short, int, unsigned int, long, unsigned long, long long, unsigned long long>;

// per (Cfg,T) callback state
template<typename Cfg, typename T>
struct CbState
{
  static inline bool called = false;
  static inline T seen{};
  static inline T to_return{};
  static inline void* sandbox_seen = nullptr;
};

template<typename Cfg, typename T>
static tainted<T, rlbox_vsbx_sandbox<Cfg>> the_cb(rlbox_sandbox<rlbox_vsbx_sandbox<Cfg>>& sb,
                                                  tainted<T, rlbox_vsbx_sandbox<Cfg>> x)
{
  using St = CbState<Cfg, T>;
  St::called = true;
  St::seen = x.UNSAFE_unverified();
  St::sandbox_seen = &sb;
  tainted<T, rlbox_vsbx_sandbox<Cfg>> r = St::to_return;
  return r;
}

template<typename T>
static std::vector<T> values(mon::Rng& rng, int nrandom)
{
  std::vector<T> v = ref::boundaries<T>();
  for (int i = 0; i < nrandom; i++) v.push_back(static_cast<T>(rng.interesting()));
  return v;
}

static void bad(const char* cfg, const char* path, const char* tn, const char* cls, const std::string& detail)
{
  mon::violation(mon::fmt("C06/path/%s/%s/%s/%s", path, cfg, tn, cls), detail);
}

template<typename Cfg, typename T>
static void run_type(mon::Rng& rng, const vsbx_library& lib)
{
  using Wd = world::W<Cfg>;
  using S = typename Wd::S;
  using G = ref::guest_t<Cfg, T>;
  using St = CbState<Cfg, T>;
  const char* cfg = Cfg::name;
  const char* tn = ref::name<T>();
  typename Wd::sbx sb;
  sb.create_sandbox(&lib);

  // the library's own type mapping against the independent table
  using LibG = typename Wd::sbx::template convert_to_sandbox_equivalent_nonclass_t<T>;
  if (!std::is_same_v<LibG, G>) {
    bad(cfg, "type-mapping", tn, "wrong-guest-type",
        mon::fmt("library maps %s to a %zu-byte %s type, ABI says %zu-byte %s", tn, sizeof(LibG),
                 std::is_signed_v<LibG> ? "signed" : "unsigned", sizeof(G), std::is_signed_v<G> ? "signed" : "unsigned"));
    sb.destroy_sandbox();
    return;
  }

  int nr = mon::tier(200, 20000);
  auto vs = values<T>(rng, nr);
  auto gs = values<G>(rng, nr);
  std::string echo_name = std::string("echo_") + tn, cb_name = std::string("call_cb_") + tn;

  auto cell = sb.template malloc_in_sandbox<T>();
  uint64_t off = reinterpret_cast<uintptr_t>(cell.UNSAFE_unverified()) - Wd::base(sb);
  auto cb = sb.register_callback(the_cb<Cfg, T>);

  uint64_t n_exact = 0, n_abort = 0;
  auto judge = [&](const char* path, i128 src, bool dst_fits, bool aborted, bool have_dst, i128 dst) {
    mon::evals();
    if (dst_fits) {
      if (!aborted && have_dst && dst == src) { n_exact++; return; }
      bad(cfg, path, tn, aborted ? "spurious-abort" : "wrong-value",
          mon::fmt("%s %s %s: source=%s destination=%s aborted=%d", cfg, path, tn, mon::i128s(src).c_str(),
                   have_dst ? mon::i128s(dst).c_str() : "-", aborted));
    } else {
      if (aborted) { n_abort++; return; }
      bad(cfg, path, tn, "silent-value-change",
          mon::fmt("%s %s %s: source=%s not representable in destination, no abort, destination=%s", cfg, path, tn,
                   mon::i128s(src).c_str(), have_dst ? mon::i128s(dst).c_str() : "-"));
    }
  };

  // ---- to-sandbox direction: application value v of type T
  for (T v : vs) {
    i128 x = ref::val(v);
    bool gf = ref::fits<G>(x);
    mon::distinct(mon::mix(mon::mix(std::hash<std::string>()(cfg), std::hash<std::string>()(tn)), (uint64_t)x));
    // store plain
    mon::ctx("path/store-plain/%s/%s | v=%s", cfg, tn, mon::i128s(x).c_str());
    Wd::template wr<G>(sb, off, G(0x55));
    bool ab = mon::aborts([&] { *cell = v; });
    judge("store-plain", x, gf, ab, true, ref::val(Wd::template rd<G>(sb, off)));
    // store tainted
    mon::ctx("path/store-tainted/%s/%s | v=%s", cfg, tn, mon::i128s(x).c_str());
    Wd::template wr<G>(sb, off, G(0x55));
    tainted<T, S> tv = v;
    ab = mon::aborts([&] { *cell = tv; });
    judge("store-tainted", x, gf, ab, true, ref::val(Wd::template rd<G>(sb, off)));
    // the other spellings of a store: compound assignment whose left operand is the sandbox cell (0 += v, 0 |= v): the plain
    // operators leave exactly v in a T, so the cell must receive v or the operation must abort
    if constexpr (!std::is_same_v<T, bool>) {
      mon::ctx("path/store-compound-add/%s/%s | v=%s", cfg, tn, mon::i128s(x).c_str());
      Wd::template wr<G>(sb, off, G(0));
      ab = mon::aborts([&] { *cell += v; });
      judge("store-compound-add", x, gf, ab, true, ref::val(Wd::template rd<G>(sb, off)));
      if (!gf && ab && Wd::template rd<G>(sb, off) != G(0)) bad(cfg, "store-compound-add", tn, "refused-store-wrote", mon::i128s(x));
      mon::ctx("path/store-compound-or/%s/%s | v=%s", cfg, tn, mon::i128s(x).c_str());
      Wd::template wr<G>(sb, off, G(0));
      ab = mon::aborts([&] { *cell |= tv; });
      judge("store-compound-or", x, gf, ab, true, ref::val(Wd::template rd<G>(sb, off)));
    }
    // invoke argument (plain and tainted)
    for (int form = 0; form < 2; form++) {
      const char* path = form ? "invoke-arg-tainted" : "invoke-arg-plain";
      mon::ctx("path/%s/%s/%s | v=%s", path, cfg, tn, mon::i128s(x).c_str());
      world::glog.clear();
      Wd::template ret_override<G>::on = false;
      T result{};
      ab = mon::aborts([&] {
        if (form) result = Wd::template invoke<T(T)>(sb, echo_name.c_str(), tv).UNSAFE_unverified();
        else result = Wd::template invoke<T(T)>(sb, echo_name.c_str(), v).UNSAFE_unverified();
      });
      bool called = !world::glog.empty();
      if (!gf && called)
        bad(cfg, path, tn, "called-with-unrepresentable-argument",
            mon::fmt("%s %s: v=%s reached the guest as %lld", cfg, tn, mon::i128s(x).c_str(), (long long)world::glog[0].a[0]));
      i128 seen = called ? (std::is_signed_v<G> ? i128(int64_t(world::glog[0].a[0])) : i128(world::glog[0].a[0])) : 0;
      if (called && !std::is_signed_v<G>) seen = i128(static_cast<G>(world::glog[0].a[0]));
      judge(path, x, gf, ab, called, seen);
      if (gf && !ab && result != v)
        bad(cfg, path, tn, "echo-result-differs", mon::fmt("v=%s result=%s", mon::i128s(x).c_str(), mon::i128s(ref::val(result)).c_str()));
      if (world::glog.size() > 1) bad(cfg, path, tn, "called-more-than-once", mon::fmt("%zu calls", world::glog.size()));
    }
    // callback result: app callback returns v, guest must receive it
    mon::ctx("path/callback-result/%s/%s | v=%s", cfg, tn, mon::i128s(x).c_str());
    St::to_return = v;
    St::called = false;
    world::glog.clear();
    Wd::template ret_override<G>::on = false;
    ab = mon::aborts([&] { Wd::template invoke<T(T (*)(T), T)>(sb, cb_name.c_str(), cb, T(1)); });
    {
      bool got = false;
      i128 gv = 0;
      for (auto& e : world::glog)
        if (!strcmp(e.fn, "call_cb.ret")) { got = true; gv = ref::val(static_cast<G>(e.a[1])); }
      judge("callback-result", x, gf, ab, got, gv);
      if (!St::called) bad(cfg, "callback-result", tn, "callback-not-run", "callback body did not run");
    }
  }

  // ---- to-application direction: guest value g of type G
  for (G g : gs) {
    i128 x = ref::val(g);
    bool tf = ref::fits<T>(x);
    mon::distinct(mon::mix(mon::mix(std::hash<std::string>()(cfg), std::hash<std::string>()(tn)), (uint64_t)x ^ 0xabcdef));
    // load
    mon::ctx("path/load/%s/%s | g=%s", cfg, tn, mon::i128s(x).c_str());
    Wd::template wr<G>(sb, off, g);
    T got{};
    bool ab = mon::aborts([&] { tainted<T, S> t = *cell; got = t.UNSAFE_unverified(); });
    judge("load", x, tf, ab, true, ref::val(got));
    ab = mon::aborts([&] { got = (*cell).UNSAFE_unverified(); });
    judge("load-unverified", x, tf, ab, true, ref::val(got));
    // the copy_and_verify family reads the same cell: value, pointer (unique_ptr copy) and range of one element
    ab = mon::aborts([&] { got = (*cell).copy_and_verify([](T v) { return v; }); });
    judge("load-copy_and_verify", x, tf, ab, true, ref::val(got));
    ab = mon::aborts([&] { got = cell.copy_and_verify([](std::unique_ptr<T> v) { return *v; }); });
    judge("load-copy_and_verify-pointer", x, tf, ab, true, ref::val(got));
    ab = mon::aborts([&] { got = cell.copy_and_verify_range([](std::unique_ptr<T[]> v) { return v[0]; }, 1); });
    judge("load-copy_and_verify_range", x, tf, ab, true, ref::val(got));
    // invoke result
    mon::ctx("path/invoke-result/%s/%s | g=%s", cfg, tn, mon::i128s(x).c_str());
    Wd::template ret_override<G>::on = true;
    Wd::template ret_override<G>::value = g;
    world::glog.clear();
    ab = mon::aborts([&] { got = Wd::template invoke<T(T)>(sb, echo_name.c_str(), T(0)).UNSAFE_unverified(); });
    Wd::template ret_override<G>::on = false;
    judge("invoke-result", x, tf, ab, true, ref::val(got));
    if (world::glog.size() != 1) bad(cfg, "invoke-result", tn, "call-count", mon::fmt("%zu calls", world::glog.size()));
    // callback argument: guest passes g
    mon::ctx("path/callback-arg/%s/%s | g=%s", cfg, tn, mon::i128s(x).c_str());
    St::called = false;
    St::to_return = T(0);
    world::glog.clear();
    // the guest forwards its second parameter to the callback; give it g by
    // overriding what it passes
    world::W<Cfg>::template ret_override<G>::on = false;
    g_cb_arg_override_on = true;
    g_cb_arg_override = static_cast<uint64_t>(g);
    ab = mon::aborts([&] { Wd::template invoke<T(T (*)(T), T)>(sb, cb_name.c_str(), cb, T(0)); });
    g_cb_arg_override_on = false;
    judge("callback-arg", x, tf, ab, St::called, ref::val(St::seen));
    if (tf && St::called && St::sandbox_seen != &sb)
      bad(cfg, "callback-arg", tn, "wrong-sandbox-reference", "callback received another sandbox object");
  }

  // ---- arrays, element by element (1-D and 2-D), sandbox-resident
  {
    auto parr = sb.template malloc_in_sandbox<T[4]>();
    uint64_t aoff = reinterpret_cast<uintptr_t>(parr.UNSAFE_unverified()) - Wd::base(sb);
    auto p2 = sb.template malloc_in_sandbox<T[2][3]>();
    uint64_t a2off = reinterpret_cast<uintptr_t>(p2.UNSAFE_unverified()) - Wd::base(sb);
    int rounds = mon::tier(60, 2000);
    for (int r = 0; r < rounds; r++) {
      // to sandbox
      tainted<T[4], S> ta;
      T src[4];
      bool allfit = true;
      for (int i = 0; i < 4; i++) {
        src[i] = vs[rng.below(vs.size())];
        ta[i] = src[i];
        allfit = allfit && ref::fits<G>(ref::val(src[i]));
      }
      mon::ctx("path/array-store/%s/%s | r=%d", cfg, tn, r);
      for (int i = 0; i < 4; i++) Wd::template wr<G>(sb, aoff + i * sizeof(G), G(0x33));
      bool ab = mon::aborts([&] { *parr = ta; });
      mon::evals();
      if (allfit) {
        bool ok = !ab;
        for (int i = 0; ok && i < 4; i++) ok = ref::val(Wd::template rd<G>(sb, aoff + i * sizeof(G))) == ref::val(src[i]);
        if (ok) n_exact++;
        else bad(cfg, "array-store", tn, ab ? "spurious-abort" : "wrong-value", mon::fmt("elements %s %s %s %s", mon::i128s(ref::val(src[0])).c_str(), mon::i128s(ref::val(src[1])).c_str(), mon::i128s(ref::val(src[2])).c_str(), mon::i128s(ref::val(src[3])).c_str()));
      } else {
        if (ab) n_abort++;
        else bad(cfg, "array-store", tn, "silent-value-change", mon::fmt("elements %s %s %s %s", mon::i128s(ref::val(src[0])).c_str(), mon::i128s(ref::val(src[1])).c_str(), mon::i128s(ref::val(src[2])).c_str(), mon::i128s(ref::val(src[3])).c_str()));
      }
      // to application
      G gsrc[4];
      allfit = true;
      for (int i = 0; i < 4; i++) {
        gsrc[i] = gs[rng.below(gs.size())];
        Wd::template wr<G>(sb, aoff + i * sizeof(G), gsrc[i]);
        allfit = allfit && ref::fits<T>(ref::val(gsrc[i]));
      }
      mon::ctx("path/array-load/%s/%s | r=%d", cfg, tn, r);
      tainted<T[4], S> tb;
      ab = mon::aborts([&] { tainted<T[4], S> t = *parr; tb = t; });
      mon::evals();
      if (allfit) {
        bool ok = !ab;
        for (int i = 0; ok && i < 4; i++) ok = ref::val(tb[i].UNSAFE_unverified()) == ref::val(gsrc[i]);
        if (ok) n_exact++;
        else bad(cfg, "array-load", tn, ab ? "spurious-abort" : "wrong-value", "1-D array load");
      } else {
        if (ab) n_abort++;
        else bad(cfg, "array-load", tn, "silent-value-change", "1-D array load");
      }
      // 2-D store
      tainted<T[2][3], S> t2;
      T s2[2][3];
      allfit = true;
      for (int i = 0; i < 2; i++)
        for (int j = 0; j < 3; j++) {
          s2[i][j] = vs[rng.below(vs.size())];
          t2[i][j] = s2[i][j];
          allfit = allfit && ref::fits<G>(ref::val(s2[i][j]));
        }
      mon::ctx("path/array2d-store/%s/%s | r=%d", cfg, tn, r);
      ab = mon::aborts([&] { *p2 = t2; });
      mon::evals();
      if (allfit) {
        bool ok = !ab;
        for (int i = 0; ok && i < 2; i++)
          for (int j = 0; ok && j < 3; j++)
            ok = ref::val(Wd::template rd<G>(sb, a2off + (i * 3 + j) * sizeof(G))) == ref::val(s2[i][j]);
        if (ok) n_exact++;
        else bad(cfg, "array2d-store", tn, ab ? "spurious-abort" : "wrong-value", "2-D array store");
      } else {
        if (ab) n_abort++;
        else bad(cfg, "array2d-store", tn, "silent-value-change", "2-D array store");
      }
    }
  }

  mon::hit("exact-value-expected-and-observed", n_exact);
  mon::hit("abort-expected-and-observed", n_abort);
  mon::hit(std::string("abi/") + cfg);
  static int ns = 0;
  if (ns++ < 4)
    mon::sample(mon::fmt("{\"abi\":\"%s\",\"type\":\"%s\",\"guest_bytes\":%zu,\"exact\":%llu,\"aborts\":%llu}", cfg, tn, sizeof(G),
                         (unsigned long long)n_exact, (unsigned long long)n_abort));
  cb.unregister();
  sb.destroy_sandbox();
}


// guest function: calls the callback with x (or the override), returns result
template<typename Cfg, typename Gt>
static Gt guest_call_cb(typename Cfg::P cb, Gt x)
{
  if (g_cb_arg_override_on) x = static_cast<Gt>(g_cb_arg_override);
  return world::W<Cfg>::template g_call_cb<Gt>(cb, x);
}

template<typename Cfg, typename... Ts>
static void run_cfg(mon::Rng& rng, tl<Ts...>)
{
  vsbx_library lib;
  lib.id = 1;
  // keep names alive
  static std::vector<std::string> names;
  auto add = [&](auto tag) {
    using T = typename decltype(tag)::type;
    using G = ref::guest_t<Cfg, T>;
    lib.add((std::string("echo_") + ref::name<T>()).c_str(), reinterpret_cast<void*>(&world::W<Cfg>::template g_echo<G>));
    lib.add((std::string("call_cb_") + ref::name<T>()).c_str(), reinterpret_cast<void*>(&guest_call_cb<Cfg, G>));
  };
  (add(std::common_type<Ts>{}), ...);
  (run_type<Cfg, Ts>(rng, lib), ...);
}

int main(int argc, char** argv)
{
  mon::init("C06", argc, argv);
  mon::require("exact-value-expected-and-observed");
  mon::require("abort-expected-and-observed");
  mon::Rng rng(mon::seed() + 77);
  // one ABI per binary (-DCFG=vsbx_ilp32 ...) so the TUs compile in parallel
  run_cfg<CFG>(rng, path_ints{});
  mon::extra("abort_capture_mode_paths", "\"exception (RLBOX_USE_EXCEPTIONS)\"");
  return mon::finish();
}
