// C13 under concurrent histories on ONE sandbox: "at every moment the set of application functions reachable from a sandbox
// as callbacks equals the set of live, registered sandbox_callback objects of that sandbox".  RLBox guards the key list of a
// sandbox with a lock and the bundled backends guard their slot tables, i.e. several threads registering and unregistering
// their own callbacks on a shared sandbox is a supported use.  The lock-step explorer (c13_callbacks) only produces sequential
// histories; here T threads churn disjoint sets of functions on the same sandbox object while RLBox's lock customisation
// point inserts PRNG-driven yields between (never inside) critical sections, so that a register/unregister of one thread is
// interleaved at every lock boundary with those of the others.
//
// Oracle per thread, over its own functions only (no other thread touches them, so the single-threaded rule applies):
//   * registering a function this thread does not hold must succeed and give a registered owner,
//   * registering a function this thread holds must abort,
//   * unregistering / destroying / overwriting the owner must not abort,
// and at quiescent points (all threads parked at a barrier) the main thread checks the whole set: every function is
// re-registrable iff nobody holds it.  The backend is the in-repo noop backend (its slot table is locked; the model backend's
// is not, so it would add races of its own).
#include "lockwrap.hpp"

#include "backends.hpp"
#include "cbpool.hpp"

#include <atomic>
#include <thread>

using namespace rlbox;
using B = rlbox_noop_sandbox;
using sbx = rlbox_sandbox<B>;
using CB = sandbox_callback<int (*)(int), B>;

constexpr int NF = 48;

struct TResult
{
  std::vector<std::pair<std::string, std::string>> viol;
  uint64_t regs = 0, unregs = 0, dup_refused = 0, overwrites = 0;
};

struct Barrier
{
  std::atomic<int> waiting{ 0 };
  std::atomic<int> phase{ 0 };
  int n;
  explicit Barrier(int nn) : n(nn) {}
  void wait()
  {
    int ph = phase.load();
    if (waiting.fetch_add(1) + 1 == n) { waiting.store(0); phase.fetch_add(1); }
    else while (phase.load() == ph) std::this_thread::yield();
  }
};

static std::unique_ptr<CB> g_owner[NF]; // slot f is touched only by thread f % T (and by main at quiescent points)

static void worker(int tid, int T, uint64_t seed, int rounds, int steps, sbx* sb, TResult* out, Barrier* bar)
{
  mon::Rng rng(seed);
  c18::yield_state ^= seed * 0x9e3779b97f4a7c15ULL + tid;
  const auto& fns = cbpool::pool<B, NF>();
  auto bad = [&](const char* cls, const std::string& d) { if (out->viol.size() < 5) out->viol.push_back({ mon::fmt("C13/concurrent/noop/%s", cls), mon::fmt("thread %d: %s", tid, d.c_str()) }); };
  for (int r = 0; r < rounds; r++) {
    bar->wait(); // start of round
    for (int s = 0; s < steps && out->viol.empty(); s++) {
      int f = tid + T * static_cast<int>(rng.below(NF / T));
      auto& own = g_owner[f];
      bool held = own && !own->is_unregistered();
      int op = rng.below(8);
      try {
        if (!held) {
          bool ab = false;
          CB fresh;
          try { fresh = sb->register_callback(fns[f]); } catch (const std::runtime_error& e) { ab = true; bad("registration-of-a-function-without-owner-refused", mon::fmt("f%d: %s", f, e.what())); }
          if (ab) break;
          if (fresh.is_unregistered()) { bad("registration-returned-an-unregistered-owner", mon::fmt("f%d", f)); break; }
          if (own) { *own = std::move(fresh); } else own = std::make_unique<CB>(std::move(fresh));
          out->regs++;
        } else if (op < 2) { // duplicate registration must abort
          bool ab = false;
          try { CB dup = sb->register_callback(fns[f]); (void)dup; } catch (const std::runtime_error&) { ab = true; }
          if (!ab) { bad("duplicate-registration-accepted", mon::fmt("f%d is held by a live owner and was registered a second time", f)); break; }
          out->dup_refused++;
        } else if (op < 5) {
          own->unregister();
          if (!own->is_unregistered()) { bad("owner-claims-registered-after-unregister", mon::fmt("f%d", f)); break; }
          out->unregs++;
        } else if (op < 7) {
          own.reset();
          out->unregs++;
        } else { // overwrite a live owner with an inert one
          *own = CB();
          out->overwrites++; out->unregs++;
        }
      } catch (const std::runtime_error& e) {
        bad("owner-operation-aborted", mon::fmt("f%d op %d: %s", f, op, e.what()));
        break;
      }
    }
    bar->wait(); // end of round: main inspects
    bar->wait(); // main done
  }
}

int main(int argc, char** argv)
{
  mon::init("C13", argc, argv);
  mon::require("concurrent-registrations");
  mon::require("quiescent-set-equal");
  int T = argc > 1 ? atoi(argv[1]) : 4;
  int rep = argc > 2 ? atoi(argv[2]) : 0;
  const int rounds = mon::tier(6, 30), steps = mon::tier(1500, 6000);
  uint64_t seed = mon::seed() * 53 + 13 + rep * 104729 + T;
  sbx sb;
  sb.create_sandbox();
  const auto& fns = cbpool::pool<B, NF>();
  std::vector<TResult> res(T);
  Barrier bar(T + 1);
  std::vector<std::thread> th;
  for (int t = 0; t < T; t++) th.emplace_back(worker, t, T, seed * 31 + t, rounds, steps, &sb, &res[t], &bar);
  uint64_t quiescent_ok = 0;
  bool dead = false;
  for (int r = 0; r < rounds; r++) {
    bar.wait();
    bar.wait();
    // quiescent: every function is re-registrable iff nobody holds it
    mon::ctx("concurrent/noop | %d threads, quiescent point after round %d", T, r);
    for (int f = 0; f < NF && !dead; f++) {
      bool held = g_owner[f] && !g_owner[f]->is_unregistered();
      bool ab = false;
      try { CB probe = sb.register_callback(fns[f]); probe.unregister(); } catch (const std::runtime_error&) { ab = true; }
      mon::evals();
      if (held && !ab) { mon::violation("C13/concurrent/noop/quiescent/held-function-registrable-again", mon::fmt("f%d has a live owner, a second registration was accepted (round %d, %d threads)", f, r, T)); dead = true; }
      else if (!held && ab) { mon::violation("C13/concurrent/noop/quiescent/function-without-owner-not-registrable", mon::fmt("f%d has no live owner, registration aborts (round %d, %d threads)", f, r, T)); dead = true; }
      else quiescent_ok++;
    }
    mon::distinct(mon::mix(0xc13c, mon::mix(r, T)));
    bar.wait();
  }
  for (auto& t : th) t.join();
  uint64_t regs = 0, unregs = 0, dups = 0;
  for (int t = 0; t < T; t++) {
    for (auto& v : res[t].viol) mon::violation(v.first, v.second);
    regs += res[t].regs; unregs += res[t].unregs; dups += res[t].dup_refused;
    mon::evals(res[t].regs + res[t].unregs + res[t].dup_refused);
  }
  for (auto& o : g_owner) o.reset();
  sb.destroy_sandbox();
  mon::hit("concurrent-registrations", regs);
  mon::hit("concurrent-unregistrations", unregs);
  mon::hit("duplicate-registration-refused", dups);
  mon::hit("quiescent-set-equal", quiescent_ok);
  mon::extra_num("lock_acquisitions", c18::acquisitions.load());
  mon::extra_num("contended_unique_acquisitions", c18::contended_unique.load());
  mon::hit("contended-lock-acquisitions", c18::contended_shared.load() + c18::contended_unique.load());
  return mon::finish();
}
