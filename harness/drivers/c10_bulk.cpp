// C10: bulk memory operations never straddle or leave the sandbox.
// Reference legality in 128-bit arithmetic; effects by region diff; touches by
// ASan poisoning of the complement + heap red zones + guard pages.
#include "world.hpp"
#include "memmon.hpp"
#include "rlbox_noop_sandbox.hpp"

using namespace rlbox;
using ref::i128;
using Cfg = CFG;
using Wd = world::W<Cfg>;
using S = Wd::S;

static memmon::Region R, RB; // main sandbox and a second live sandbox
static Wd::sbx* SB;
static Wd::sbx* SB2;
static uint64_t n_legal_ok = 0, n_illegal_abort = 0, n_empty = 0;

static void report(const char* op, const char* cls, const std::string& d) { mon::violation(mon::fmt("C10/%s/%s", op, cls), d); }

static bool in_region(const memmon::Region& r, i128 start, i128 len) { return start >= static_cast<i128>(r.base) && start + len <= static_cast<i128>(r.base) + static_cast<i128>(r.size); }
static bool overlaps(const memmon::Region& r, i128 start, i128 len) { return start < static_cast<i128>(r.base) + static_cast<i128>(r.size) && start + len > static_cast<i128>(r.base); }
// sandbox-side range: non-null, non-empty, wholly inside one region
static bool sbx_range_legal(i128 start, i128 len) { return start != 0 && len > 0 && (in_region(R, start, len) || in_region(RB, start, len)); }
// application-side range: non-null, wholly outside every region, no address wrap
static bool app_range_legal(i128 start, i128 len)
{
  return start != 0 && len > 0 && !overlaps(R, start, len) && !overlaps(RB, start, len) && start + len <= (static_cast<i128>(1) << 64);
}
static bool any_range_legal(i128 start, i128 len) { return sbx_range_legal(start, len) || app_range_legal(start, len); }
// a raw range partly inside the OTHER live sandbox lies wholly outside the sandbox the operation is for: the statement lets
// it proceed, and it then runs into that sandbox's guard page here -- not driven
static bool straddles_other_sandbox(i128 start, i128 len) { return len > 0 && overlaps(RB, start, len) && !in_region(RB, start, len) && !overlaps(R, start, len); }

static std::vector<i128> extents(uint64_t off, size_t elsize, mon::Rng& rng)
{
  i128 toend = (static_cast<i128>(R.size) - off) / static_cast<i128>(elsize);
  i128 two64 = static_cast<i128>(1) << 64;
  std::vector<i128> v;
  for (i128 k = 0; k <= 32; k++) v.push_back(k);
  for (i128 d = -2; d <= 2; d++) {
    v.push_back(toend + d);
    v.push_back(static_cast<i128>(R.size) / elsize + d);
    v.push_back((static_cast<i128>(1) << 31) / elsize + d); v.push_back((static_cast<i128>(1) << 31) + d);
    v.push_back((static_cast<i128>(1) << 32) / elsize + d); v.push_back((static_cast<i128>(1) << 32) + d);
    v.push_back((static_cast<i128>(1) << 63) + d); v.push_back((static_cast<i128>(1) << 63) / elsize + d);
    v.push_back(two64 / elsize + d); v.push_back(two64 - 1 + (d > 0 ? 0 : d));
    v.push_back(two64 / elsize + toend + d);         // wraps back onto a legal-looking byte count
    v.push_back(two64 / elsize + 1 + d);
  }
  // counts whose product with the element size wraps 64 bits to a value that is NOT smaller than the count itself (an
  // addition-style wrap test "product >= count" lets them through): just above 2^64/3, 2*2^64/3, 2^64/7, k*2^64/elsize + small
  for (i128 d = 0; d <= 2; d++) {
    v.push_back(two64 / 3 + 1 + d); v.push_back(2 * two64 / 3 + 1 + d); v.push_back(two64 / 7 + 1 + d); v.push_back(3 * two64 / 7 + 1 + d);
    for (i128 k = 1; k < static_cast<i128>(elsize); k++) { v.push_back(k * two64 / elsize + 1 + d); v.push_back(k * two64 / elsize + toend + d); }
  }
  for (int i = 0; i < mon::tier(6, 60); i++) { v.push_back(rng.below(static_cast<uint64_t>(toend > 0 ? toend : 1) + 4)); v.push_back(static_cast<i128>(rng.interesting())); }
  std::vector<i128> out;
  for (auto x : v) if (x >= 0 && x < two64) out.push_back(x);
  return out;
}

static std::vector<uint64_t> sandbox_starts(mon::Rng& rng)
{
  std::vector<uint64_t> s = { 0 /* first byte */, 1, 8, R.size - 1 /* last byte */ };
  for (uint64_t e = 0; e <= 16; e++) s.push_back(R.size - 1 - e);
  s.push_back(R.size - 64); s.push_back(R.size - 4096);
  for (int i = 0; i < mon::tier(3, 20); i++) { s.push_back(8 * rng.below(R.size / 8)); s.push_back(rng.below(R.size)); }
  return s;
}

// ------------------------------------------------------------------- memset
template<int NumForm>
static bool do_memset(tainted<char*, S> p, int value, i128 n)
{
  return mon::aborts([&] {
    if constexpr (NumForm == 0) rlbox::memset(*SB, p, value, static_cast<size_t>(n));
    else if constexpr (NumForm == 1) { tainted<size_t, S> tn = static_cast<size_t>(n); rlbox::memset(*SB, p, value, tn); }
    else if constexpr (NumForm == 2) rlbox::memset(*SB, p, value, static_cast<int>(n));
    else { tainted<int, S> tn = static_cast<int>(n); rlbox::memset(*SB, p, value, tn); }
  });
}
static const char* numform[] = { "size_t", "tainted<size_t>", "int", "tainted<int>" };

template<int NumForm>
static void memset_case(uint64_t off, bool null_start, i128 n_in, mon::Rng& rng)
{
  i128 n = n_in;
  // what the callee really receives through this operand type
  i128 n_eff = n;
  if constexpr (NumForm >= 2) {
    if (!(n <= 0x7fffffff || n >= (static_cast<i128>(1) << 64) - 0x80000000LL)) return; // not an int value
    if (n > 0x7fffffff) n_eff = n - (static_cast<i128>(1) << 64); // negative int
    n = n_eff;
  }
  tainted<char*, S> p = nullptr;
  if (!null_start) p = Wd::tptr<char>(*SB, off);
  i128 start = null_start ? 0 : static_cast<i128>(R.base) + off;
  bool legal = n > 0 && sbx_range_legal(start, n);
  int value = static_cast<int>(rng.below(256));
  mon::ctx("memset/%s | start=%s%llu n=%s", numform[NumForm], null_start ? "null+" : "base+", (unsigned long long)off, mon::i128s(n).c_str());
  R.randomize(rng, int64_t(off) - 32, int64_t(off) + 64);
  R.snapshot();
  i128 plen = n < 0 ? 0 : (n > static_cast<i128>(R.size) - off ? static_cast<i128>(R.size) - off : n);
  R.poison_except(null_start ? 0 : off, null_start ? 0 : static_cast<size_t>(plen));
  bool ab = do_memset<NumForm>(p, value, n);
  R.unpoison();
  mon::evals();
  std::string what = mon::fmt("memset(start=%s%llu, n=%s as %s)", null_start ? "null+" : "base+", (unsigned long long)off, mon::i128s(n).c_str(), numform[NumForm]);
  { static int ns = 0; if (ns++ % 4001 == 0) mon::sample(mon::fmt("{\"request\":\"%s\",\"legal_by_reference\":%s,\"aborted\":%s}", what.c_str(), legal ? "true" : "false", ab ? "true" : "false")); }
  if (n == 0) {
    // empty request: no prescribed outcome; but nothing may be written
    if (!ab && R.diff_none() >= 0) report("memset", "empty-request-wrote-memory", what);
    n_empty++;
    return;
  }
  if (!legal) {
    if (!ab) report("memset", "illegal-request-proceeded", what + mon::fmt(" on a %zu-byte region did not abort", R.size));
    else n_illegal_abort++;
    return;
  }
  if (ab) { report("memset", "legal-request-aborted", what); return; }
  std::vector<unsigned char> exp(static_cast<size_t>(n), static_cast<unsigned char>(value));
  int64_t d = R.diff(off, exp.data(), exp.size());
  if (d >= 0) report("memset", "wrong-effect", what + mon::fmt(": first differing byte at offset %lld", (long long)d));
  else n_legal_ok++;
}

// memset(A, pointer into ANOTHER live instance B of the same sandbox type, v, n): a sandbox-side range -- it has to lie wholly
// inside the sandbox it starts in; a range that runs past the end of B must abort, one that fits is filled in B, nothing else
static void memset_other_instance(uint64_t off, i128 n, mon::Rng& rng)
{
  if (n <= 0 || n >= (static_cast<i128>(1) << 63)) return;
  auto p = Wd::tptr<char>(*SB2, off);
  i128 start = static_cast<i128>(RB.base) + off;
  bool legal = in_region(RB, start, n);
  int value = static_cast<int>(rng.below(256));
  mon::ctx("memset/other-instance | start=B+%llu n=%s", (unsigned long long)off, mon::i128s(n).c_str());
  R.snapshot();
  RB.snapshot();
  bool ab = mon::aborts([&] { rlbox::memset(*SB, p, value, static_cast<size_t>(n)); });
  mon::evals();
  std::string what = mon::fmt("memset(sandbox A, tainted pointer B+%llu, n=%s): B has %llu bytes", (unsigned long long)off, mon::i128s(n).c_str(), (unsigned long long)RB.size);
  if (!legal) {
    if (!ab) report("memset", "illegal-request-proceeded", what + " -- the range leaves the sandbox it starts in");
    else n_illegal_abort++;
    return;
  }
  if (ab) { n_illegal_abort++; return; } // naming another instance: refusing is not judged
  std::vector<unsigned char> exp(static_cast<size_t>(n), static_cast<unsigned char>(value));
  if (RB.diff(off, exp.data(), exp.size()) >= 0 || R.diff_none() >= 0) report("memset", "wrong-effect", what);
  else n_legal_ok++;
}

// ------------------------------------------------------------------- memcpy
enum SrcKind { SRC_SBX, SRC_HEAP, SRC_OTHER_SBX, SRC_STRADDLE_IN, SRC_NULL, SRC_STACK, SRC_GLOBAL, SRC_OTHER_TAINTED };
static const char* srckind[] = { "tainted-same-sandbox", "app-heap", "raw-other-sandbox", "raw-straddling-region-start", "null", "app-stack", "app-global", "tainted-other-instance" };
// an application buffer that crosses a multiple of the sandbox size (64 KiB), 128 bytes either side: backends that answer
// "same sandbox?" by comparing the aligned blocks of two addresses say "no" for its two ends, although both are application
// memory
alignas(65536) static unsigned char g_global_arena[2 * 65536];
static unsigned char (&g_global_buf)[256] = *reinterpret_cast<unsigned char (*)[256]>(g_global_arena + 65536 - 128);

static void memcpy_case(uint64_t doff, bool dnull, SrcKind sk, uint64_t soff, i128 n, mon::Rng& rng)
{
  if (n >= (static_cast<i128>(1) << 64)) return;
  size_t nn = static_cast<size_t>(n);
  tainted<char*, S> d = nullptr;
  if (!dnull) d = Wd::tptr<char>(*SB, doff);
  i128 dstart = dnull ? 0 : static_cast<i128>(R.base) + doff;
  bool dlegal = sbx_range_legal(dstart, n) && in_region(R, dstart, n);
  i128 sstart = 0;
  std::unique_ptr<unsigned char[]> heap;
  unsigned char stackbuf[128];
  const unsigned char* srcp = nullptr;
  size_t alloc = (dlegal && nn <= R.size) ? nn : 16; // only legal requests will really be read
  switch (sk) {
    case SRC_SBX: sstart = static_cast<i128>(R.base) + soff; break;
    case SRC_HEAP: heap.reset(new unsigned char[alloc ? alloc : 1]); for (size_t i = 0; i < alloc; i++) heap[i] = static_cast<unsigned char>(rng()); srcp = heap.get(); sstart = reinterpret_cast<uintptr_t>(srcp); break;
    case SRC_OTHER_SBX: srcp = RB.mem() + soff; sstart = reinterpret_cast<uintptr_t>(srcp); break;
    case SRC_STRADDLE_IN: if (n <= 8) return; srcp = R.mem() - 8; sstart = reinterpret_cast<uintptr_t>(srcp); break; // starts before the region, runs into it
    case SRC_NULL: srcp = nullptr; sstart = 0; break;
    case SRC_STACK: if (nn > sizeof stackbuf && dlegal) return; for (auto& b : stackbuf) b = static_cast<unsigned char>(rng()); srcp = stackbuf; sstart = reinterpret_cast<uintptr_t>(srcp); break;
    case SRC_GLOBAL: if (nn > sizeof g_global_buf && dlegal) return; for (auto& b : g_global_buf) b = static_cast<unsigned char>(rng()); srcp = g_global_buf; sstart = reinterpret_cast<uintptr_t>(srcp); break;
    // a tainted pointer into ANOTHER live instance of the same sandbox type: a sandbox-side range, it has to lie wholly inside that sandbox
    case SRC_OTHER_TAINTED: srcp = RB.mem() + soff; sstart = reinterpret_cast<uintptr_t>(srcp); break;
  }
  if (sk != SRC_OTHER_TAINTED && straddles_other_sandbox(sstart, n)) return;
  bool slegal = sk == SRC_OTHER_TAINTED ? sbx_range_legal(sstart, n) : any_range_legal(sstart, n);
  // overlapping source and destination inside the sandbox: std::memcpy is undefined there, not driven
  if (sk == SRC_SBX && dlegal && slegal && !(soff + nn <= doff || doff + nn <= soff)) return;
  bool legal = n > 0 && dlegal && slegal;
  mon::ctx("memcpy/%s | dest=%s%llu src=%llu n=%s", srckind[sk], dnull ? "null+" : "base+", (unsigned long long)doff, (unsigned long long)soff, mon::i128s(n).c_str());
  R.randomize(rng, int64_t(doff) - 16, int64_t(doff) + 48);
  if (sk == SRC_SBX) R.randomize(rng, int64_t(soff) - 16, int64_t(soff) + 48);
  std::vector<unsigned char> srccopy;
  if (legal) srccopy.assign(sk == SRC_SBX ? R.mem() + soff : srcp, (sk == SRC_SBX ? R.mem() + soff : srcp) + nn);
  R.snapshot();
  RB.snapshot();
  {
    i128 plen = n > static_cast<i128>(R.size) - doff ? static_cast<i128>(R.size) - doff : n;
    i128 slen = n > static_cast<i128>(R.size) - soff ? static_cast<i128>(R.size) - soff : n;
    if (sk == SRC_SBX) R.poison_except2(dnull ? 0 : doff, dnull ? 0 : static_cast<size_t>(plen), soff, static_cast<size_t>(slen));
    else R.poison_except(dnull ? 0 : doff, dnull ? 0 : static_cast<size_t>(plen));
  }
  bool ab = mon::aborts([&] {
    if (sk == SRC_SBX) rlbox::memcpy(*SB, d, Wd::tptr<char>(*SB, soff), nn);
    else if (sk == SRC_OTHER_TAINTED) rlbox::memcpy(*SB, d, Wd::tptr<char>(*SB2, soff), nn);
    else rlbox::memcpy(*SB, d, srcp, nn);
  });
  R.unpoison();
  mon::evals();
  std::string what = mon::fmt("memcpy(dest=%s%llu, src=%s@%llu, n=%s)", dnull ? "null+" : "base+", (unsigned long long)doff, srckind[sk], (unsigned long long)soff, mon::i128s(n).c_str());
  { static int ns = 0; if (ns++ % 5003 == 0) mon::sample(mon::fmt("{\"request\":\"%s\",\"legal_by_reference\":%s,\"aborted\":%s}", what.c_str(), legal ? "true" : "false", ab ? "true" : "false")); }
  if (n == 0) { if (!ab && R.diff_none() >= 0) report("memcpy", "empty-request-wrote-memory", what); n_empty++; return; }
  if (!legal) {
    if (!ab) report("memcpy", (!dlegal) ? "illegal-destination-proceeded" : "illegal-source-proceeded", what);
    else n_illegal_abort++;
    return;
  }
  if (ab) { report("memcpy", "legal-request-aborted", what); return; }
  int64_t df = R.diff(doff, srccopy.data(), nn);
  if (df >= 0) report("memcpy", "wrong-effect", what + mon::fmt(": first differing byte at offset %lld", (long long)df));
  else if (RB.diff_none() >= 0) report("memcpy", "other-sandbox-modified", what);
  else n_legal_ok++;
}

// ------------------------------------------------------------------- memcmp
static void memcmp_case(uint64_t aoff, SrcKind sk, uint64_t soff, i128 n, bool tainted_first, mon::Rng& rng)
{
  if (n >= (static_cast<i128>(1) << 64)) return;
  size_t nn = static_cast<size_t>(n);
  auto a = Wd::tptr<char>(*SB, aoff);
  i128 astart = static_cast<i128>(R.base) + aoff;
  bool alegal = sbx_range_legal(astart, n);
  i128 sstart = 0;
  std::unique_ptr<unsigned char[]> heap;
  const unsigned char* srcp = nullptr;
  size_t alloc = (alegal && nn <= R.size) ? nn : 16;
  switch (sk) {
    case SRC_SBX: sstart = static_cast<i128>(R.base) + soff; break;
    case SRC_HEAP: heap.reset(new unsigned char[alloc ? alloc : 1]); for (size_t i = 0; i < alloc; i++) heap[i] = static_cast<unsigned char>(rng.below(3)); srcp = heap.get(); sstart = reinterpret_cast<uintptr_t>(srcp); break;
    case SRC_OTHER_SBX: srcp = RB.mem() + soff; sstart = reinterpret_cast<uintptr_t>(srcp); break;
    case SRC_STRADDLE_IN: srcp = R.mem() + R.size - 8; sstart = reinterpret_cast<uintptr_t>(srcp); if (n <= 8) return; break; // raw pointer running past the region end
    case SRC_NULL: srcp = nullptr; sstart = 0; break;
    case SRC_OTHER_TAINTED: srcp = RB.mem() + soff; sstart = reinterpret_cast<uintptr_t>(srcp); break; // tainted pointer into another live instance
    default: return;
  }
  if (sk != SRC_OTHER_TAINTED && straddles_other_sandbox(sstart, n)) return;
  bool slegal = sk == SRC_OTHER_TAINTED ? sbx_range_legal(sstart, n) : any_range_legal(sstart, n);
  bool legal = n > 0 && alegal && slegal;
  mon::ctx("memcmp/%s | a=base+%llu src=%llu n=%s first=%d", srckind[sk], (unsigned long long)aoff, (unsigned long long)soff, mon::i128s(n).c_str(), tainted_first);
  for (size_t i = 0; i < 40 && aoff + i < R.size; i++) R.mem()[aoff + i] = static_cast<unsigned char>(rng.below(3));
  if (sk == SRC_SBX) for (size_t i = 0; i < 40 && soff + i < R.size; i++) R.mem()[soff + i] = static_cast<unsigned char>(rng.below(3));
  int expect = 0;
  if (legal) expect = std::memcmp(R.mem() + aoff, sk == SRC_SBX ? R.mem() + soff : srcp, nn);
  R.snapshot();
  {
    i128 plen = n > static_cast<i128>(R.size) - aoff ? static_cast<i128>(R.size) - aoff : n;
    i128 slen = n > static_cast<i128>(R.size) - soff ? static_cast<i128>(R.size) - soff : n;
    if (sk == SRC_SBX) R.poison_except2(aoff, static_cast<size_t>(plen), soff, static_cast<size_t>(slen));
    else if (sk == SRC_STRADDLE_IN) R.poison_except2(aoff, static_cast<size_t>(plen), R.size - 8, 8);
    else R.poison_except(aoff, static_cast<size_t>(plen));
  }
  int got = 0, got_u = 0;
  bool ab = mon::aborts([&] {
    // the result is delivered as a tainted_int_hint: both of its unwrapping calls must give the same int
    // every other request on another instance passes the tainted source as a pointer CELL of that instance (a tainted_volatile<char*>&): memcmp
    // takes its operands by forwarding reference, so this spelling reaches it as it is
    static uint64_t spelling = 0;
    bool as_cell = (spelling++ & 1) != 0 && soff <= 0xffffffffull;
    if (false) {
    } else if (sk == SRC_OTHER_TAINTED && as_cell) {
      Wd::wr<typename Cfg::P>(*SB2, 48, static_cast<typename Cfg::P>(soff));
      auto h = rlbox::memcmp(*SB, a, *Wd::tptr<char*>(*SB2, 48), nn); got = h.unverified_safe_because("monitor"); got_u = h.UNSAFE_unverified(); mon::hit("memcmp-source-passed-as-pointer-cell");
    }
    else if (sk == SRC_SBX) { auto h = rlbox::memcmp(*SB, a, Wd::tptr<char>(*SB, soff), nn); got = h.unverified_safe_because("monitor"); got_u = h.UNSAFE_unverified(); }
    else if (sk == SRC_OTHER_TAINTED) { auto h = rlbox::memcmp(*SB, a, Wd::tptr<char>(*SB2, soff), nn); got = h.unverified_safe_because("monitor"); got_u = h.UNSAFE_unverified(); }
    else { auto h = rlbox::memcmp(*SB, a, srcp, nn); got = h.unverified_safe_because("monitor"); got_u = h.UNSAFE_unverified(); }
  });
  R.unpoison();
  mon::evals();
  std::string what = mon::fmt("memcmp(a=base+%llu, b=%s@%llu, n=%s)", (unsigned long long)aoff, srckind[sk], (unsigned long long)soff, mon::i128s(n).c_str());
  { static int ns = 0; if (ns++ % 5003 == 0) mon::sample(mon::fmt("{\"request\":\"%s\",\"legal_by_reference\":%s,\"aborted\":%s}", what.c_str(), legal ? "true" : "false", ab ? "true" : "false")); }
  if (n == 0) { n_empty++; return; }
  if (!legal) {
    if (!ab) report("memcmp", (!alegal) ? "illegal-first-range-proceeded" : "illegal-second-range-proceeded", what);
    else n_illegal_abort++;
    return;
  }
  if (ab) { report("memcmp", "legal-request-aborted", what); return; }
  auto sgn = [](int x) { return (x > 0) - (x < 0); };
  if (sgn(got) != sgn(expect)) report("memcmp", "wrong-result", what + mon::fmt(": returned %d, reference %d", got, expect));
  else if constexpr (!std::is_same_v<decltype(std::declval<rlbox::tainted_int_hint>().UNSAFE_unverified()), int>) report("memcmp", "hint-does-not-unwrap-to-int", what);
  else if (got_u != got) report("memcmp", "hint-unwraps-to-different-values", what + mon::fmt(": unverified_safe_because gives %d, UNSAFE_unverified gives %d", got, got_u));
  else if (R.diff_none() >= 0) report("memcmp", "modified-memory", what);
  else n_legal_ok++;
}

// -------------------------------------- element-counted range operations
template<typename T>
static void range_ops(mon::Rng& rng)
{
  using G = ref::guest_t<Cfg, T>;
  constexpr size_t gs = sizeof(G), hs = sizeof(T);
  const char* tn = ref::name<T>();
  std::vector<uint64_t> starts = { 0, gs, R.size - gs, R.size - 2 * gs, R.size - 16 * gs, (R.size / 2 / gs) * gs };
  for (int i = 0; i < mon::tier(2, 12); i++) starts.push_back(gs * rng.below(R.size / gs));
  for (uint64_t off : starts) {
    for (i128 cnt : extents(off, gs, rng)) {
      if (cnt >= (static_cast<i128>(1) << 64)) continue;
      size_t c = static_cast<size_t>(cnt);
      i128 start = static_cast<i128>(R.base) + off;
      i128 glen = cnt * static_cast<i128>(gs), hlen = cnt * static_cast<i128>(hs);
      bool legal_g = cnt > 0 && sbx_range_legal(start, glen);
      bool legal_h = cnt > 0 && sbx_range_legal(start, hlen);
      auto p = Wd::tptr<T>(*SB, off);
      mon::distinct(mon::mix(mon::mix(std::hash<std::string>()(tn), off), static_cast<uint64_t>(cnt)));
      // keep the source decodable: zero bytes are valid for every type
      if (legal_g) std::memset(R.mem() + off, 0, static_cast<size_t>(glen));
      // ---- copy_and_verify_range: guest-sized range
      {
        mon::ctx("copy_and_verify_range/%s | base+%llu count=%s", tn, (unsigned long long)off, mon::i128s(cnt).c_str());
        R.snapshot();
        i128 plen = glen > static_cast<i128>(R.size) - off ? static_cast<i128>(R.size) - off : glen;
        R.poison_except(off, static_cast<size_t>(plen));
        bool got_null = false, got_data = false;
        // very large legal counts cannot exist (region is 64 KiB); huge illegal ones must abort before allocating
        bool ab = mon::aborts([&] { p.copy_and_verify_range([&](std::unique_ptr<T[]> x) { (x ? got_data : got_null) = true; return 0; }, c); });
        R.unpoison();
        mon::evals();
        std::string what = mon::fmt("copy_and_verify_range<%s>(start=base+%llu, count=%s) guest element %zu bytes", tn, (unsigned long long)off, mon::i128s(cnt).c_str(), gs);
        { static int ns = 0; if (ns++ % 701 == 0) mon::sample(mon::fmt("{\"request\":\"%s\",\"legal_by_reference\":%s,\"aborted\":%s}", what.c_str(), legal_g ? "true" : "false", ab ? "true" : "false")); }
        if (cnt == 0) { n_empty++; }
        else if (!legal_g) { if (!ab && got_data) report("copy_and_verify_range", "illegal-request-proceeded", what); else n_illegal_abort++; }
        else if (ab || !got_data) report("copy_and_verify_range", "legal-request-aborted", what);
        else if (R.diff_none() >= 0) report("copy_and_verify_range", "modified-memory", what);
        else n_legal_ok++;
      }
      // ---- copy_and_verify_buffer_address
      {
        mon::ctx("copy_and_verify_buffer_address/%s | base+%llu count=%s", tn, (unsigned long long)off, mon::i128s(cnt).c_str());
        uintptr_t addr = 0;
        bool ab = mon::aborts([&] { addr = p.copy_and_verify_buffer_address([](uintptr_t a) { return a; }, c); });
        mon::evals();
        std::string what = mon::fmt("copy_and_verify_buffer_address<%s>(start=base+%llu, size=%s)", tn, (unsigned long long)off, mon::i128s(cnt).c_str());
        if (cnt == 0) n_empty++;
        else if (!legal_g && !legal_h) { if (!ab) report("copy_and_verify_buffer_address", "illegal-request-proceeded", what); else n_illegal_abort++; }
        else if (legal_g && legal_h) { if (ab || addr != static_cast<uintptr_t>(start)) report("copy_and_verify_buffer_address", "legal-request-aborted", what); else n_legal_ok++; }
      }
      // ---- unverified_safe_pointer_because: count whole elements must be inside
      {
        mon::ctx("unverified_safe_pointer_because/%s | base+%llu count=%s", tn, (unsigned long long)off, mon::i128s(cnt).c_str());
        T* raw = nullptr;
        bool ab = mon::aborts([&] { raw = p.unverified_safe_pointer_because(c, "monitor"); });
        mon::evals();
        std::string what = mon::fmt("unverified_safe_pointer_because<%s*>(start=base+%llu, count=%s): host element %zu bytes, guest element %zu bytes, %s bytes to region end", tn,
                                    (unsigned long long)off, mon::i128s(cnt).c_str(), hs, gs, mon::i128s(static_cast<i128>(R.size) - off).c_str());
        if (cnt == 0) n_empty++;
        // the raw pointer that comes back has the APPLICATION's element type and designates SANDBOX objects: the count is
        // certified only if that many whole elements fit under both readings
        else if (!legal_g || !legal_h) { if (!ab) report("unverified_safe_pointer_because", "illegal-request-proceeded", what); else n_illegal_abort++; }
        else if (legal_g && legal_h) {
          if (ab) report("unverified_safe_pointer_because", "legal-request-aborted", what);
          else if (reinterpret_cast<uintptr_t>(raw) != static_cast<uintptr_t>(start)) report("unverified_safe_pointer_because", "wrong-pointer", what);
          else n_legal_ok++;
        }
      }
    }
  }
  // null starts
  {
    tainted<T*, S> np = nullptr;
    bool got_data = false;
    mon::aborts([&] { np.copy_and_verify_range([&](std::unique_ptr<T[]> x) { got_data = (x != nullptr); return 0; }, 4); });
    if (got_data) report("copy_and_verify_range", "null-start-proceeded", tn);
    T* raw = reinterpret_cast<T*>(1);
    bool ab = mon::aborts([&] { raw = np.unverified_safe_pointer_because(4, "monitor"); });
    if (!ab && raw != nullptr) report("unverified_safe_pointer_because", "null-start-proceeded", tn);
    n_illegal_abort++;
    mon::evals(2);
  }
}

// unverified_safe_pointer_because with pointees larger than a host pointer (arrays): El[N], guest element GEl
template<typename El, size_t N>
static void usp_big(mon::Rng& rng)
{
  using T = El[N];
  using GEl = ref::guest_t<Cfg, El>;
  constexpr size_t gs = sizeof(GEl) * N, hs = sizeof(T);
  std::string tns = mon::fmt("%s[%zu]", ref::name<El>(), N);
  const char* tn = tns.c_str();
  std::vector<uint64_t> starts = { 0, gs, R.size - gs, R.size - 2 * gs, (R.size / 2 / gs) * gs };
  for (int i = 0; i < mon::tier(2, 12); i++) starts.push_back(gs * rng.below(R.size / gs));
  for (uint64_t off : starts) {
    for (i128 cnt : extents(off, gs, rng)) {
      // counts in the window where a divisor of 8 and a divisor of the element size disagree
      std::vector<i128> cs = { cnt };
      if (cnt <= 4) { i128 two64 = static_cast<i128>(1) << 64; cs.push_back(two64 / static_cast<i128>(gs) + 1 + cnt); cs.push_back(two64 / static_cast<i128>(hs) + 1 + cnt); cs.push_back((two64 * 2) / static_cast<i128>(gs) + 1 + cnt); }
      for (i128 cc : cs) {
        if (cc >= (static_cast<i128>(1) << 64)) continue;
        size_t c = static_cast<size_t>(cc);
        i128 start = static_cast<i128>(R.base) + off;
        bool legal_g = cc > 0 && sbx_range_legal(start, cc * static_cast<i128>(gs));
        bool legal_h = cc > 0 && sbx_range_legal(start, cc * static_cast<i128>(hs));
        auto p = Wd::tptr<T>(*SB, off);
        mon::distinct(mon::mix(mon::mix(std::hash<std::string>()(tns), off), static_cast<uint64_t>(cc)));
        mon::ctx("unverified_safe_pointer_because/%s | base+%llu count=%s", tn, (unsigned long long)off, mon::i128s(cc).c_str());
        T* raw = nullptr;
        bool ab = mon::aborts([&] { raw = p.unverified_safe_pointer_because(c, "monitor"); });
        mon::evals();
        std::string what = mon::fmt("unverified_safe_pointer_because<%s*>(start=base+%llu, count=%s): host element %zu bytes, guest element %zu bytes, %s bytes to region end", tn,
                                    (unsigned long long)off, mon::i128s(cc).c_str(), hs, gs, mon::i128s(static_cast<i128>(R.size) - off).c_str());
        if (cc == 0) n_empty++;
        // the raw pointer that comes back has the APPLICATION's element type and designates SANDBOX objects: the count is
        // certified only if that many whole elements fit under both readings
        else if (!legal_g || !legal_h) { if (!ab) report("unverified_safe_pointer_because", "illegal-request-proceeded", what); else n_illegal_abort++; }
        else if (legal_g && legal_h) {
          if (ab) report("unverified_safe_pointer_because", "legal-request-aborted", what);
          else if (reinterpret_cast<uintptr_t>(raw) != static_cast<uintptr_t>(start)) report("unverified_safe_pointer_because", "wrong-pointer", what);
          else n_legal_ok++;
        }
      }
    }
  }
}

// ------------------------------------------------------ copy_and_verify_string
static void string_ops(mon::Rng& rng)
{
  struct Src { uint64_t off; size_t len; bool terminated; const char* name; };
  std::vector<Src> srcs = { { 4096, 0, true, "empty" }, { 4100, 1, true, "len1" }, { 5000, 37, true, "interior" }, { R.size - 1, 0, true, "empty-at-last-byte" },
                            { R.size - 11, 10, true, "terminator-in-last-byte" }, { R.size - 301, 300, true, "long-terminator-in-last-byte" } };
  for (auto& s : srcs) {
    for (int flavour = 0; flavour < 2; flavour++) {
      mon::ctx("copy_and_verify_string/%s | flavour %d", s.name, flavour);
      for (size_t i = 0; i < s.len; i++) R.mem()[s.off + i] = static_cast<unsigned char>('a' + rng.below(26));
      R.mem()[s.off + s.len] = 0;
      R.snapshot();
      R.poison_except(s.off, s.len + 1);
      std::string got;
      bool have = false;
      auto p = Wd::tptr<char>(*SB, s.off);
      bool ab = mon::aborts([&] {
        if (flavour == 0) p.copy_and_verify_string([&](std::unique_ptr<char[]> x) { if (x) { have = true; got = x.get(); } return 0; });
        else p.copy_and_verify_string([&](std::string x) { have = true; got = x; return 0; });
      });
      R.unpoison();
      mon::evals();
      std::string expect(reinterpret_cast<char*>(R.mem() + s.off), s.len);
      std::string what = mon::fmt("copy_and_verify_string(%s source at base+%llu, length %zu, %s verifier)", s.name, (unsigned long long)s.off, s.len, flavour ? "std::string" : "unique_ptr<char[]>");
      if (ab) report("copy_and_verify_string", "legal-request-aborted", what);
      else if (!have || got != expect) report("copy_and_verify_string", "wrong-content", what + mon::fmt(": delivered '%s'", got.c_str()));
      else n_legal_ok++;
    }
  }
  // unterminated string running to the last byte of the region: reading on
  // would leave the sandbox (guard page).  Run in a child: the outcome must be
  // an abort (or a string of at most the in-region length), never a wild read.
  for (int flavour = 0; flavour < 2; flavour++) {
    uint64_t off = R.size - 40;
    for (size_t i = 0; i < 40; i++) R.mem()[off + i] = 'u';
    mon::ctx("copy_and_verify_string/unterminated-to-region-end | flavour %d", flavour);
    auto p = Wd::tptr<char>(*SB, off);
    auto res = mon::in_child([&] {
      if (flavour == 0) p.copy_and_verify_string([&](std::unique_ptr<char[]>) { return 0; });
      else p.copy_and_verify_string([&](std::string) { return 0; });
    });
    mon::evals();
    std::string what = mon::fmt("copy_and_verify_string on 40 non-NUL bytes ending at the last byte of sandbox memory (%s verifier): %s", flavour ? "std::string" : "unique_ptr<char[]>", res.str().c_str());
    if (res.wild_access() || res.sanitizer_or_abort()) report("copy_and_verify_string", "unterminated-source-read-past-region-end", what);
    else if (res.rlbox_abort() || res.completed()) n_illegal_abort++;
    else report("copy_and_verify_string", "unexpected-child-outcome", what);
  }
}

// --------------------------------------------- copy_memory_or_grant / deny
template<typename T>
static void grant_deny(mon::Rng& rng)
{
  const char* tn = ref::name<T>();
  // grant: application buffer of num elements is copied into the sandbox
  std::vector<i128> nums = { 1, 2, 7, 64, 1000, static_cast<i128>(R.size) / sizeof(T) / 2, static_cast<i128>(R.size) / sizeof(T), static_cast<i128>(R.size) / sizeof(T) + 1,
                             (static_cast<i128>(1) << 32) - 1, static_cast<i128>(1) << 32, (static_cast<i128>(1) << 32) + 1, (static_cast<i128>(1) << 63) / sizeof(T),
                             (static_cast<i128>(1) << 64) / sizeof(T), (static_cast<i128>(1) << 64) / sizeof(T) + 3 };
  for (i128 num : nums) {
    if (num >= (static_cast<i128>(1) << 64)) continue;
    size_t n = static_cast<size_t>(num);
    bool fits = num * sizeof(T) + 64 <= static_cast<i128>(R.size) - 1024;
    Wd::reset_alloc(*SB);
    SB->get_sandbox_impl()->brk = 1024;
    size_t alloc_elems = fits ? n : 4;
    T* src = static_cast<T*>(malloc(alloc_elems * sizeof(T)));
    for (size_t i = 0; i < alloc_elems; i++) src[i] = static_cast<T>(rng());
    std::vector<T> copy(src, src + alloc_elems);
    bool copied = false;
    tainted<T*, S> res = nullptr;
    mon::ctx("copy_memory_or_grant_access/%s | num=%s", tn, mon::i128s(num).c_str());
    R.snapshot();
    bool ab = mon::aborts([&] { res = copy_memory_or_grant_access(*SB, src, n, false, copied); });
    mon::evals();
    std::string what = mon::fmt("copy_memory_or_grant_access<%s>(num=%s)", tn, mon::i128s(num).c_str());
    { static int ns = 0; if (ns++ % 9 == 0) mon::sample(mon::fmt("{\"request\":\"%s\",\"fits\":%s,\"aborted\":%s}", what.c_str(), fits ? "true" : "false", ab ? "true" : "false")); }
    uintptr_t ra = reinterpret_cast<uintptr_t>(res.UNSAFE_unverified());
    if (fits) {
      if (ab || !copied || ra == 0) report("copy_memory_or_grant_access", "legal-request-failed", what);
      else if (!in_region(R, ra, num * sizeof(T))) report("copy_memory_or_grant_access", "result-outside-sandbox", what);
      else if (std::memcmp(reinterpret_cast<void*>(ra), copy.data(), n * sizeof(T)) != 0) report("copy_memory_or_grant_access", "wrong-content", what);
      else {
        int64_t d = R.diff(ra - R.base, reinterpret_cast<unsigned char*>(copy.data()), n * sizeof(T));
        if (d >= 0) report("copy_memory_or_grant_access", "bytes-outside-target-changed", what + mon::fmt(" at offset %lld", (long long)d));
        else n_legal_ok++;
      }
    } else {
      // does not fit: abort or allocation failure (null, copied==false); never a pointer
      if (!ab && ra != 0) report("copy_memory_or_grant_access", "oversized-request-proceeded", what + mon::fmt(" returned base%+lld", (long long)(ra - R.base)));
      else n_illegal_abort++;
    }
    free(src);
  }
  // grant with a source that must be refused (null; an application buffer that runs into the sandbox): the request never
  // proceeds, and a refused request holds no sandbox block afterwards
  for (int kind = 0; kind < 2; kind++) {
    const T* bad = kind == 0 ? nullptr : reinterpret_cast<const T*>(R.mem() - 8 * sizeof(T));
    Wd::reset_alloc(*SB);
    SB->get_sandbox_impl()->brk = 1024;
    uint64_t live0 = vsbx_ev.mallocs - vsbx_ev.frees;
    bool copied = false;
    tainted<const T*, S> res = nullptr;
    mon::ctx("copy_memory_or_grant_access/%s | refused source kind %d", tn, kind);
    bool ab = mon::aborts([&] { res = copy_memory_or_grant_access(*SB, bad, 16, false, copied); });
    uint64_t live1 = vsbx_ev.mallocs - vsbx_ev.frees;
    mon::evals();
    std::string what = mon::fmt("copy_memory_or_grant_access<%s>(%s, 16)", tn, kind == 0 ? "null source" : "application buffer starting 8 elements below the sandbox");
    if (!ab && res != nullptr) report("copy_memory_or_grant_access", "illegal-source-proceeded", what);
    else if (live1 != live0) report("copy_memory_or_grant_access", "refused-request-left-a-sandbox-block-allocated", what + mon::fmt(": %llu block(s) allocated in the sandbox and never freed", (unsigned long long)(live1 - live0)));
    else n_illegal_abort++;
  }
  // deny with a null start: never proceeds (abort, or nothing handed back)
  for (size_t n : { size_t(1), size_t(16), size_t(1) << 33 }) {
    tainted<T*, S> np = nullptr;
    bool copied = false;
    T* out = reinterpret_cast<T*>(1);
    mon::ctx("copy_memory_or_deny_access/%s | null start num=%zu", tn, n);
    bool ab = mon::aborts([&] { out = copy_memory_or_deny_access(*SB, np, n, false, copied); });
    mon::evals();
    if (!ab && out != nullptr) { report("copy_memory_or_deny_access", "null-start-proceeded", mon::fmt("%s num=%zu returned %p", tn, n, (void*)out)); if (copied) free(out); }
    else n_illegal_abort++;
  }
  // deny: sandbox buffer of num elements copied out to a fresh application buffer
  std::vector<uint64_t> starts = { 8, R.size - 16 * sizeof(T), R.size - sizeof(T), 4096 };
  for (uint64_t off : starts) {
    off -= off % sizeof(T);
    i128 toend = (static_cast<i128>(R.size) - off) / sizeof(T);
    std::vector<i128> dn = { 1, 2, toend - 1, toend, toend + 1, static_cast<i128>(R.size), (static_cast<i128>(1) << 32) + 1, (static_cast<i128>(1) << 64) / sizeof(T),
                             (static_cast<i128>(1) << 64) / sizeof(T) + 1, (static_cast<i128>(1) << 64) / sizeof(T) + toend };
    for (i128 num : dn) {
      if (num <= 0 || num >= (static_cast<i128>(1) << 64)) continue;
      size_t n = static_cast<size_t>(num);
      i128 start = static_cast<i128>(R.base) + off;
      bool legal = sbx_range_legal(start, num * sizeof(T));
      if (legal) for (size_t i = 0; i < n * sizeof(T); i++) R.mem()[off + i] = static_cast<unsigned char>(rng());
      auto p = Wd::tptr<T>(*SB, off);
      bool copied = false;
      T* out = nullptr;
      mon::ctx("copy_memory_or_deny_access/%s | base+%llu num=%s", tn, (unsigned long long)off, mon::i128s(num).c_str());
      R.snapshot();
      i128 plen = num * sizeof(T) > static_cast<i128>(R.size) - off ? static_cast<i128>(R.size) - off : num * sizeof(T);
      R.poison_except(off, static_cast<size_t>(plen));
      bool ab = mon::aborts([&] { out = copy_memory_or_deny_access(*SB, p, n, false, copied); });
      R.unpoison();
      mon::evals();
      std::string what = mon::fmt("copy_memory_or_deny_access<%s>(start=base+%llu, num=%s)", tn, (unsigned long long)off, mon::i128s(num).c_str());
      if (legal) {
        if (ab || !out || !copied) report("copy_memory_or_deny_access", "legal-request-failed", what);
        else if (std::memcmp(out, R.mem() + off, n * sizeof(T)) != 0) report("copy_memory_or_deny_access", "wrong-content", what);
        else if (R.diff_none() >= 0) report("copy_memory_or_deny_access", "modified-sandbox-memory", what);
        else n_legal_ok++;
      } else {
        if (!ab && out != nullptr) report("copy_memory_or_deny_access", "illegal-request-proceeded", what + mon::fmt(" returned a buffer, copied=%d", copied));
        else n_illegal_abort++;
      }
      if (out) free(out);
    }
  }
}

// grant path on the noop backend (can_grant_deny_access): pointer handed through
static void grant_noop()
{
  rlbox_sandbox<rlbox_noop_sandbox> nb;
  nb.create_sandbox();
  char* src = static_cast<char*>(malloc(32));
  memset(src, 'q', 32);
  bool copied = true;
  auto t = copy_memory_or_grant_access(nb, src, 32, false, copied);
  if (copied || t.UNSAFE_unverified() != src) report("copy_memory_or_grant_access", "noop-grant-path", "noop backend should hand the buffer through");
  bool c2 = true;
  char* back = copy_memory_or_deny_access(nb, t, 32, false, c2);
  if (c2 || back != src) report("copy_memory_or_deny_access", "noop-deny-path", "noop backend should hand the buffer back");
  else n_legal_ok++;
  mon::evals(2);
  free(src);
  nb.destroy_sandbox();
}

int main(int argc, char** argv)
{
  mon::init("C10", argc, argv);
  mon::require("legal-request-carried-out-exactly");
  mon::require("illegal-request-aborted");
  mon::Rng rng(mon::seed() * 17 + 10 + mon::slice());
  vsbx_library lib;
  lib.id = 1;
  Wd::sbx sb, sb2;
  sb.create_sandbox(&lib);
  sb2.create_sandbox(&lib);
  SB = &sb;
  SB2 = &sb2;
  R.attach(Wd::base(sb), Wd::size(sb));
  RB.attach(Wd::base(sb2), Wd::size(sb2));
  int part = argc > 1 ? atoi(argv[1]) : -1;
  if (part < 0 || part == 0) {
    for (uint64_t off : sandbox_starts(rng))
      for (i128 n : extents(off, 1, rng)) {
        mon::distinct(mon::mix(mon::mix(0x5e7, off), static_cast<uint64_t>(n)));
        memset_case<0>(off, false, n, rng);
        memset_case<1>(off, false, n, rng);
        memset_case<2>(off, false, n, rng);
        memset_case<3>(off, false, n, rng);
      }
    for (i128 n : { i128(0), i128(1), i128(8), i128(65536) }) memset_case<0>(0, true, n, rng);
    for (uint64_t boff : { uint64_t(0), uint64_t(4096), RB.size - 64, RB.size - 16, RB.size - 1 })
      for (i128 n : { i128(1), i128(8), i128(16), i128(17), i128(64), i128(65), i128(4096), i128(RB.size), i128(RB.size) + 1 }) memset_other_instance(boff, n, rng);
  }
  if (part < 0 || part == 1) {
    for (uint64_t doff : sandbox_starts(rng))
      for (i128 n : extents(doff, 1, rng)) {
        mon::distinct(mon::mix(mon::mix(0xc0, doff), static_cast<uint64_t>(n)));
        uint64_t soff = 8 * rng.below(R.size / 8);
        memcpy_case(doff, false, SRC_SBX, soff, n, rng);
        memcpy_case(doff, false, SRC_SBX, R.size - 16, n, rng); // source near the end
        memcpy_case(doff, false, SRC_HEAP, 0, n, rng);
        memcpy_case(doff, false, SRC_OTHER_SBX, 4096, n, rng);
        memcpy_case(doff, false, SRC_OTHER_SBX, RB.size - 8, n, rng);
        memcpy_case(doff, false, SRC_OTHER_TAINTED, 4096, n, rng);
        memcpy_case(doff, false, SRC_OTHER_TAINTED, RB.size - 16, n, rng);
        memcpy_case(doff, false, SRC_STRADDLE_IN, 0, n, rng);
        memcpy_case(doff, false, SRC_NULL, 0, n, rng);
        memcpy_case(doff, false, SRC_STACK, 0, n, rng);
        memcpy_case(doff, false, SRC_GLOBAL, 0, n, rng);
      }
    memcpy_case(0, true, SRC_HEAP, 0, 8, rng);
  }
  if (part < 0 || part == 2) {
    for (uint64_t aoff : sandbox_starts(rng))
      for (i128 n : extents(aoff, 1, rng)) {
        mon::distinct(mon::mix(mon::mix(0xc3, aoff), static_cast<uint64_t>(n)));
        memcmp_case(aoff, SRC_SBX, 8 * rng.below(R.size / 8), n, true, rng);
        memcmp_case(aoff, SRC_SBX, R.size - 16, n, true, rng);
        memcmp_case(aoff, SRC_HEAP, 0, n, true, rng);
        memcmp_case(aoff, SRC_OTHER_SBX, RB.size - 8, n, true, rng);
        memcmp_case(aoff, SRC_OTHER_TAINTED, 4096, n, true, rng);
        memcmp_case(aoff, SRC_OTHER_TAINTED, RB.size - 16, n, true, rng);
        memcmp_case(aoff, SRC_STRADDLE_IN, 0, n, true, rng);
        memcmp_case(aoff, SRC_NULL, 0, n, true, rng);
      }
  }
  if (part < 0 || part == 3) {
    range_ops<char>(rng);
    range_ops<long>(rng);
    range_ops<short>(rng);
    range_ops<double>(rng);
  }
  if (part < 0 || part == 4) {
    range_ops<int>(rng);
    range_ops<char16_t>(rng);
    range_ops<long long>(rng);
    range_ops<float>(rng);
    usp_big<int, 8>(rng);
    usp_big<long, 5>(rng);
    usp_big<char, 24>(rng);
    usp_big<double, 2>(rng);
    string_ops(rng);
  }
  if (part < 0 || part == 5) {
    grant_deny<char>(rng);
    grant_deny<char16_t>(rng);
    grant_deny<double>(rng);
    grant_noop();
  }
  mon::hit("legal-request-carried-out-exactly", n_legal_ok);
  mon::hit("illegal-request-aborted", n_illegal_abort);
  mon::hit("empty-requests-not-judged", n_empty);
  sb2.destroy_sandbox();
  sb.destroy_sandbox();
  return mon::finish();
}
