// C17 with an index that still lives in sandbox memory (arr[*pidx], arr[ps->i]): the sandbox may rewrite the index cell at any
// moment.  The access-trap interleaver rewrites it to an out-of-range value immediately before each individual access RLBox
// makes to sandbox memory during the indexing operation.  Whatever happens, the element that is designated must be an
// element of the array (the bounds check has to be made on the value that is used) or the operation aborts; it never reaches
// a neighbouring object.  Arrays in application memory (tainted<T[N]>) and in sandbox memory; index types of several widths.
#include "world.hpp"
#include "trap.hpp"

using namespace rlbox;
using Cfg = vsbx_ilp32;
using Wd = world::W<Cfg>;
using S = Wd::S;

static uint64_t n_ok = 0, n_abort = 0, n_inter = 0;
static void report(const char* where, const char* tn, const std::string& d) { mon::violation(mon::fmt("C17/index-in-sandbox-memory/%s/%s/outside-the-array-without-abort", where, tn), d); }

struct Adv { uintptr_t addr; uint64_t val; size_t len; };
static void adversary(void* p) { auto a = static_cast<Adv*>(p); memcpy(reinterpret_cast<void*>(a->addr), &a->val, a->len); }

template<typename I, typename F>
static void variant(Wd::sbx& sb, const char* where, const char* tn, uint64_t idx_off, uintptr_t arr_lo, uintptr_t arr_hi, F&& index_op)
{
  using GI = ref::guest_t<Cfg, I>;
  uintptr_t cell = Wd::base(sb) + idx_off;
  const GI good = 2;
  memcpy(reinterpret_cast<void*>(cell), &good, sizeof(GI));
  trap::arm(-1, nullptr, nullptr);
  uintptr_t a0 = 0;
  bool ab0 = mon::aborts([&] { a0 = index_op(); });
  int N = trap::disarm();
  mon::evals();
  if (ab0 || a0 < arr_lo || a0 >= arr_hi) { mon::violation(mon::fmt("C17/index-in-sandbox-memory/%s/%s/undisturbed-indexing-wrong", where, tn), mon::fmt("aborted=%d address=%p", ab0, (void*)a0)); return; }
  mon::distinct(mon::mix(std::hash<std::string>()(std::string(where) + tn), N));
  mon::sample(mon::fmt("{\"array\":\"%s\",\"index_type\":\"%s\",\"accesses_to_sandbox_memory_during_indexing\":%d}", where, tn, N));
  const int64_t bads[] = { 4, 1000, -2, 0x7fffffff, 5 };
  for (int k = 0; k < N; k++)
    for (int64_t b : bads) {
      GI bad = static_cast<GI>(b);
      if (std::is_unsigned_v<GI> && b < 0) continue;
      memcpy(reinterpret_cast<void*>(cell), &good, sizeof(GI));
      Adv adv{ cell, 0, sizeof(GI) };
      memcpy(&adv.val, &bad, sizeof(GI));
      uintptr_t a = 0;
      mon::ctx("index-in-sandbox-memory/%s/%s | index cell rewritten from 2 to %lld before access %d of %d", where, tn, (long long)b, k, N);
      trap::arm(k, adversary, &adv);
      bool ab = mon::aborts([&] { a = index_op(); });
      trap::disarm();
      mon::evals();
      n_inter++;
      if (ab) { n_abort++; continue; }
      if (a >= arr_lo && a < arr_hi) { n_ok++; continue; }
      report(where, tn, mon::fmt("array of 4 at %p..%p: the index cell held 2 and was rewritten to %lld immediately before access %d of %d; the operation designated %p (element %lld) without aborting",
                                 (void*)arr_lo, (void*)arr_hi, (long long)b, k, N, (void*)a, (long long)((intptr_t)(a - arr_lo) / 4)));
    }
}

template<typename I>
static void for_index_type(Wd::sbx& sb, const char* tn)
{
  const uint64_t idx_off = 8192, arr_off = 12288;
  auto pidx = Wd::tptr<I>(sb, idx_off);
  // array in sandbox memory
  {
    auto parr = Wd::tptr<int[4]>(sb, arr_off);
    uintptr_t lo = Wd::base(sb) + arr_off;
    variant<I>(sb, "sandbox-array", tn, idx_off, lo, lo + 16, [&] { return reinterpret_cast<uintptr_t>((&(*parr)[*pidx]).UNSAFE_unverified()); });
  }
  // array in application memory
  {
    static tainted<int[4], S> app;
    uintptr_t lo = reinterpret_cast<uintptr_t>(&app);
    variant<I>(sb, "application-array", tn, idx_off, lo, lo + 16, [&] { auto& el = app[*pidx]; return reinterpret_cast<uintptr_t>(&el); });
  }
}

int main(int argc, char** argv)
{
  mon::init("C17", argc, argv);
  mon::require("index-in-sandbox-memory/interleavings");
  vsbx_library lib;
  lib.id = 1;
  Wd::sbx sb;
  sb.create_sandbox(&lib);
  trap::install(Wd::base(sb), Wd::size(sb));
  trap::st.foreign_fault = mon::crash_handler;
  for_index_type<int>(sb, "int");
  for_index_type<unsigned int>(sb, "unsigned int");
  for_index_type<short>(sb, "short");
  for_index_type<unsigned char>(sb, "unsigned char");
  for_index_type<long>(sb, "long");
  for_index_type<unsigned long long>(sb, "unsigned long long");
  mon::hit("index-in-sandbox-memory/interleavings", n_inter);
  mon::hit("index-in-sandbox-memory/inside-the-array", n_ok);
  mon::hit("index-in-sandbox-memory/aborted", n_abort);
  sb.destroy_sandbox();
  return mon::finish();
}
