// Overlapping sandbox ranges.  Both operands of rlbox::memcpy, and both sides of a whole-array assignment *q = *p, can be
// tainted pointers the SANDBOX chose, so the application cannot know whether the two ranges overlap; what it asked for is
// "the destination receives what the source held".  Built twice: PROP_C10 (rlbox::memcpy: "every non-empty request whose
// ranges do satisfy this is carried out on exactly those bytes") and PROP_C07 (whole-array stores: the destination cells
// receive the source's elements, no other byte changes).  Oracle: memmove semantics against a shadow copy; the address
// sanitizer additionally reports a memcpy whose parameters overlap.
#include "world.hpp"

using namespace rlbox;
using Cfg = vsbx_ilp32;
using Wd = world::W<Cfg>;
using S = Wd::S;

#ifdef PROP_C07
#  define PROP "C07"
#else
#  define PROP "C10"
#endif

static uint64_t n_ok = 0;

int main(int argc, char** argv)
{
  mon::init(PROP, argc, argv);
  mon::require("overlapping-ranges-carried-out");
  vsbx_library lib;
  lib.id = 1;
  Wd::sbx sb;
  sb.create_sandbox(&lib);
  mon::Rng rng(mon::seed() * 71 + 7);
  unsigned char* mem = reinterpret_cast<unsigned char*>(Wd::base(sb));
  const uint64_t A = 8192, SPAN = 4096;
  for (int round = 0; round < mon::tier(40, 2000); round++) {
    for (int delta : { 1, 4, 8, 16, 64, -1, -4, -8, -16, -64 }) {
      for (auto& b : std::vector<int>{ 0 }) (void)b;
      for (uint64_t i = 0; i < SPAN; i++) mem[A + i] = static_cast<unsigned char>(rng());
      std::vector<unsigned char> before(mem + A, mem + A + SPAN);
#ifndef PROP_C07
      size_t n = 24 + rng.below(1000);
      uint64_t so = 1500, dof = so + delta;
      mon::ctx("memcpy | source and destination overlap: destination = source%+d, %zu bytes", delta, n);
      auto src = Wd::tptr<unsigned char>(sb, A + so);
      auto dst = Wd::tptr<unsigned char>(sb, A + dof);
      bool ab = mon::aborts([&] { rlbox::memcpy(sb, dst, src, n); });
      mon::evals();
      mon::distinct(mon::mix(delta, n));
      if (ab) { n_ok++; continue; } // refusing overlapping ranges would be an answer too
      std::vector<unsigned char> want = before;
      std::memmove(want.data() + dof, before.data() + so, n);
      if (std::memcmp(want.data(), mem + A, SPAN) != 0) {
        size_t first = 0; while (first < SPAN && want[first] == mem[A + first]) first++;
        mon::violation(mon::fmt("C10/memcpy/overlapping-sandbox-ranges/destination-does-not-hold-the-source-bytes"),
                       mon::fmt("memcpy(dest = src%+d, src, %zu): first wrong byte at destination offset %lld (holds 0x%02x, the source held 0x%02x)", delta, n, (long long)(first - dof), mem[A + first], want[first]));
      } else n_ok++;
#else
      using Arr = int[16];
      if (delta % 4) continue;
      uint64_t so = 1600, dof = so + delta;
      mon::ctx("whole-array store | *q = *p with q = p%+d bytes (int[16])", delta);
      auto p = Wd::tptr<Arr>(sb, A + so);
      auto q = Wd::tptr<Arr>(sb, A + dof);
      bool ab = mon::aborts([&] { *q = *p; });
      mon::evals();
      mon::distinct(mon::mix(delta, 16));
      if (ab) { mon::violation("C07/store-whole-array/overlapping-source/spurious-abort", mon::fmt("delta %d", delta)); continue; }
      std::vector<unsigned char> want = before;
      std::memmove(want.data() + dof, before.data() + so, sizeof(Arr));
      if (std::memcmp(want.data(), mem + A, SPAN) != 0)
        mon::violation("C07/store-whole-array/overlapping-source/destination-does-not-hold-the-source-elements", mon::fmt("*q = *p with q = p%+d bytes", delta));
      else n_ok++;
#endif
    }
  }
  mon::hit("overlapping-ranges-carried-out", n_ok);
  sb.destroy_sandbox();
  return mon::finish();
}
