// C09: verified copies are application-memory snapshots: no check/use window.
// Access-trap interleaver: for every copy_and_verify variant, a calibration run
// counts RLBox's N accesses to sandbox memory; then for EVERY k < N and every
// adversary action the call is repeated with the action applied immediately
// before access k.  Oracles: verifier object outside the sandbox, unchanged by
// a scramble of the whole region, result == what the verifier saw, every
// delivered element is a value its source cell held at some time of the call,
// strings terminated and not longer than the range that was checked.
#include "world.hpp"
#include "trap.hpp"

#include <functional>
#include <thread>

using namespace rlbox;
using Cfg = vsbx_ilp32;
using Wd = world::W<Cfg>;
using S = Wd::S;
using P = Cfg::P;

struct PS { long a; char b; int* c; };
struct GPS { int32_t a; char b; uint32_t c; };
#define sandbox_fields_reflection_c09_class_PS(f, g, ...) \
  f(long, a, FIELD_NORMAL, ##__VA_ARGS__) g() f(char, b, FIELD_NORMAL, ##__VA_ARGS__) g() f(int*, c, FIELD_NORMAL, ##__VA_ARGS__) g()
#define sandbox_fields_reflection_c09_allClasses(f, ...) f(PS, c09, ##__VA_ARGS__)
rlbox_load_structs_from_library(c09);

static Wd::sbx* SB;
static uintptr_t BASE;
static size_t SIZE;
static uint64_t n_runs = 0, n_interleavings = 0, n_ok = 0, n_abort = 0, n_fired = 0, n_pairs = 0;

static void report(const char* variant, const char* cls, const std::string& d) { mon::violation(mon::fmt("C09/%s/%s", variant, cls), d); }
static bool in_region(const void* p) { auto a = reinterpret_cast<uintptr_t>(p); return a >= BASE && a - BASE < SIZE; }

using Bytes = std::vector<unsigned char>;
struct Obs
{
  bool ran = false;
  uintptr_t obj = 0;
  Bytes entry, after;     // verifier object at entry / after the region scramble
  Bytes result;           // what the application finally got
  bool have_result = false;
  uint64_t checked_len = 0; // length of the last range check that started at the source
};

static void scramble_region()
{
  trap::Pause p;
  memset(reinterpret_cast<void*>(BASE + 64), 0xA5, SIZE - 64);
}
// called from inside a verifier
static void observe(Obs& o, const void* obj, size_t len)
{
  o.ran = true;
  o.obj = reinterpret_cast<uintptr_t>(obj);
  if (in_region(obj)) { trap::Pause p; o.entry.assign(static_cast<const unsigned char*>(obj), static_cast<const unsigned char*>(obj) + len); }
  else o.entry.assign(static_cast<const unsigned char*>(obj), static_cast<const unsigned char*>(obj) + len);
  scramble_region();
  if (in_region(obj)) { trap::Pause p; o.after.assign(static_cast<const unsigned char*>(obj), static_cast<const unsigned char*>(obj) + len); }
  else o.after.assign(static_cast<const unsigned char*>(obj), static_cast<const unsigned char*>(obj) + len);
}
template<typename T> static void set_result(Obs& o, const T& v) { o.result.assign(reinterpret_cast<const unsigned char*>(&v), reinterpret_cast<const unsigned char*>(&v) + sizeof(T)); o.have_result = true; }

enum Act { A_LENGTHEN, A_SHORTEN, A_FLIP, A_FILLFF, A_RETARGET, A_ZERO, A_NACTS };
static const char* actn[] = { "lengthen-string", "plant-NUL", "flip-values", "fill-0xFF", "retarget-pointers", "zero (null the pointers)" };

struct Case
{
  std::string name;
  uint64_t off;            // source range in the sandbox
  size_t len;              // bytes the adversary may rewrite (source object; strings: capacity incl. slack)
  Bytes A;                 // initial content of [off, off+len)
  bool is_string = false;
  bool at_region_end = false;
  std::vector<Act> acts;
  std::function<void(Obs&)> call;
  // reference: delivered elements (application representation) for a given source content
  std::function<std::vector<Bytes>(const Bytes&)> elems;
  // extra cell rewritten by RETARGET (a pointer cell outside [off,off+len)), or 0
  uint64_t ptr_cell = 0;
};

static Bytes apply(const Case& c, Act a, const Bytes& src)
{
  Bytes b = src;
  switch (a) {
    case A_LENGTHEN: { size_t l = strnlen(reinterpret_cast<const char*>(b.data()), b.size()); for (size_t i = l; i + 1 < b.size(); i++) b[i] = 'Z'; b[b.size() - 1] = 0; break; }
    case A_SHORTEN: if (b.size() > 1) b[b.size() > 2 ? 1 : 0] = 0; break;
    case A_FLIP: for (auto& x : b) x = static_cast<unsigned char>(x ^ (c.is_string ? 0x01 : 0x55)); if (c.is_string) { for (auto& x : b) if (x == 0) x = 1; b[b.size() - 1] = 0; } break;
    case A_FILLFF: for (auto& x : b) x = 0xFF; if (c.is_string) b[b.size() - 1] = 0; break;
    case A_RETARGET: for (size_t i = 0; i + 4 <= b.size(); i += 4) { uint32_t r = 0x2000 + static_cast<uint32_t>(i); memcpy(&b[i], &r, 4); } break;
    case A_ZERO: for (auto& x : b) x = 0; break;
    default: break;
  }
  return b;
}

struct Adv { const Case* c; Bytes B; };
static void adversary(void* p)
{
  Adv* a = static_cast<Adv*>(p);
  memcpy(reinterpret_cast<void*>(BASE + a->c->off), a->B.data(), a->B.size());
}

static void write_source(const Case& c)
{
  memcpy(reinterpret_cast<void*>(BASE + c.off), c.A.data(), c.A.size());
}

static void judge(const Case& c, const Obs& o, bool aborted, const Bytes& A, const Bytes& B, const std::string& when, const Bytes* C3 = nullptr)
{
  n_runs++;
  mon::evals();
  if (aborted) { n_abort++; return; } // an abort is always an acceptable outcome
  if (!o.ran) { return; } // e.g. null source: verifier may be given nothing
  std::string what = mon::fmt("%s, adversary %s", c.name.c_str(), when.c_str());
  if (in_region(reinterpret_cast<void*>(o.obj))) { report(c.name.c_str(), "verifier-object-in-sandbox-memory", what + mon::fmt(": verifier received an object at base%+lld", (long long)(o.obj - BASE))); return; }
  if (o.entry != o.after) { report(c.name.c_str(), "verifier-object-changed-by-sandbox-write", what + ": content differs after the sandbox rewrote its whole memory"); return; }
  if (o.have_result && o.result != o.entry) { report(c.name.c_str(), "result-differs-from-what-verifier-saw", what); return; }
  // provenance: every delivered element equals what its source cell held before or after the action
  auto ea = c.elems(A), eb = c.elems(B);
  const Bytes& C = C3 ? *C3 : B; // third source state (two-action sequences)
  auto ec = c.elems(C);
  if (c.is_string) {
    size_t L = strnlen(reinterpret_cast<const char*>(o.entry.data()), o.entry.size());
    if (L == o.entry.size()) { report(c.name.c_str(), "string-not-terminated-inside-its-buffer", what); return; }
    if (o.checked_len && L + 1 > o.checked_len) {
      report(c.name.c_str(), "string-longer-than-checked-range", what + mon::fmt(": delivered %zu characters + terminator, the range check covered %llu bytes", L, (unsigned long long)o.checked_len));
      return;
    }
    for (size_t i = 0; i < L; i++) {
      unsigned char ch = o.entry[i];
      bool okc = (i < A.size() && A[i] == ch) || (i < B.size() && B[i] == ch) || (i < C.size() && C[i] == ch);
      if (!okc) { report(c.name.c_str(), "delivered-byte-never-held-by-source", what + mon::fmt(": character %zu is 0x%02x", i, ch)); return; }
    }
  } else {
    // o.entry is a concatenation of elements (one per source cell / struct field).
    // Where the delivered object has the source's own representation (decoding is the identity: arrays and ranges that are
    // copied verbatim) the copy is a plain memory copy, which promises no atomicity per element: a concurrent write may tear
    // an element, and what C09 asks is only that every delivered BYTE was taken from the source (in one of its states) before
    // the verifier ran.  Elements that are decoded (another width / encoding) are read with one typed load each.
    {
      Bytes flat;
      for (auto& e : ea) flat.insert(flat.end(), e.begin(), e.end());
      if (flat == A && o.entry.size() == A.size()) {
        for (size_t i = 0; i < A.size(); i++) {
          unsigned char d = o.entry[i];
          if (d != A[i] && d != B[i] && d != C[i]) { report(c.name.c_str(), "delivered-byte-never-held-by-source", what + mon::fmt(": byte %zu is 0x%02x", i, d)); return; }
        }
        n_ok++;
        return;
      }
    }
    size_t pos = 0;
    for (size_t i = 0; i < ea.size() && pos + ea[i].size() <= o.entry.size(); i++) {
      Bytes d(o.entry.begin() + pos, o.entry.begin() + pos + ea[i].size());
      pos += ea[i].size();
      if (d != ea[i] && d != eb[i] && d != ec[i]) { report(c.name.c_str(), "delivered-value-never-held-by-source", what + mon::fmt(": element %zu", i)); return; }
    }
  }
  n_ok++;
}

static void run_case(Case& c)
{
  // calibration: count the accesses
  write_source(c);
  Obs o0;
  vsbx_ev.last_same_p1 = 0;
  mon::ctx("%s | calibration", c.name.c_str());
  trap::arm(-1, nullptr, nullptr);
  bool ab0 = mon::aborts([&] { c.call(o0); });
  int N = trap::disarm();
  if (vsbx_ev.last_same_p1 == BASE + c.off) o0.checked_len = vsbx_ev.last_same_p2 - vsbx_ev.last_same_p1 + 1;
  judge(c, o0, ab0, c.A, c.A, "absent");
  mon::distinct(mon::mix(std::hash<std::string>()(c.name), N));
  static int ns = 0;
  if (ns++ < 8) mon::sample(mon::fmt("{\"variant\":\"%s\",\"accesses_to_sandbox_memory\":%d,\"interleave_points_x_actions\":%zu}", c.name.c_str(), N, (size_t)N * c.acts.size()));
  if (N == 0 && !ab0) mon::hit("variants-without-sandbox-access");
  for (int k = 0; k < N; k++) {
    for (Act a : c.acts) {
      if (a == A_LENGTHEN && c.at_region_end) continue; // an unterminated source at the region end is C10's subject
      write_source(c);
      Adv adv{ &c, apply(c, a, c.A) };
      Obs o;
      vsbx_ev.last_same_p1 = 0;
      mon::ctx("%s | %s before access %d of %d", c.name.c_str(), actn[a], k, N);
      trap::arm(k, adversary, &adv);
      bool ab = mon::aborts([&] { c.call(o); });
      trap::disarm();
      if (trap::st.fired) n_fired++;
      if (vsbx_ev.last_same_p1 == BASE + c.off) o.checked_len = vsbx_ev.last_same_p2 - vsbx_ev.last_same_p1 + 1;
      n_interleavings++;
      judge(c, o, ab, c.A, adv.B, mon::fmt("'%s' immediately before sandbox-memory access %d of %d", actn[a], k, N));
    }
  }
  // sequences of two actions at two different accesses (sampled): source goes A -> B -> C during the call
  if (N >= 2 && c.acts.size() >= 2) {
    mon::Rng pr(mon::seed() * 977 + std::hash<std::string>()(c.name));
    int pairs = mon::tier(24, 400);
    for (int t = 0; t < pairs; t++) {
      int k1 = static_cast<int>(pr.below(N - 1)), k2 = k1 + 1 + static_cast<int>(pr.below(N - 1 - k1));
      Act a1 = c.acts[pr.below(c.acts.size())], a2 = c.acts[pr.below(c.acts.size())];
      if (a1 == a2) continue;
      if ((a1 == A_LENGTHEN || a2 == A_LENGTHEN) && c.at_region_end) continue;
      write_source(c);
      Adv adv1{ &c, apply(c, a1, c.A) }, adv2{ &c, apply(c, a2, c.A) };
      Obs o;
      vsbx_ev.last_same_p1 = 0;
      mon::ctx("%s | %s before access %d then %s before access %d of %d", c.name.c_str(), actn[a1], k1, actn[a2], k2, N);
      trap::arm2(k1, k2, adversary, &adv1, &adv2);
      bool ab = mon::aborts([&] { c.call(o); });
      trap::disarm();
      if (vsbx_ev.last_same_p1 == BASE + c.off) o.checked_len = vsbx_ev.last_same_p2 - vsbx_ev.last_same_p1 + 1;
      n_interleavings++;
      n_pairs++;
      judge(c, o, ab, c.A, adv1.B, mon::fmt("'%s' before access %d and '%s' before access %d of %d", actn[a1], k1, actn[a2], k2, N), &adv2.B);
    }
  }
}

// ---------------------------------------------------------------- variants
template<typename T, typename G>
static std::vector<Bytes> decode_elems(const Bytes& src, size_t n)
{
  std::vector<Bytes> out;
  for (size_t i = 0; i < n; i++) {
    G g;
    memcpy(&g, &src[i * sizeof(G)], sizeof(G));
    T t = static_cast<T>(g);
    out.push_back(Bytes(reinterpret_cast<unsigned char*>(&t), reinterpret_cast<unsigned char*>(&t) + sizeof(T)));
  }
  return out;
}

static std::vector<Case> build_cases(mon::Rng& rng)
{
  std::vector<Case> cs;
  auto bytes_of = [](auto v) { return Bytes(reinterpret_cast<unsigned char*>(&v), reinterpret_cast<unsigned char*>(&v) + sizeof(v)); };
  const std::vector<Act> val_acts = { A_FLIP, A_FILLFF };
  // --- tainted_volatile<int>.copy_and_verify
  {
    Case c; c.name = "copy_and_verify/volatile-int"; c.off = 4096; c.len = 4; c.A = bytes_of(int32_t(0x12345678)); c.acts = val_acts;
    c.elems = [](const Bytes& s) { return decode_elems<int, int32_t>(s, 1); };
    c.call = [](Obs& o) { int r = (*Wd::tptr<int>(*SB, 4096)).copy_and_verify([&](int v) { observe(o, &v, sizeof v); return v; }); set_result(o, r); };
    cs.push_back(c);
  }
  // --- tainted_volatile<long> (guest 32 bit)
  {
    Case c; c.name = "copy_and_verify/volatile-long"; c.off = 4104; c.len = 4; c.A = bytes_of(int32_t(-77)); c.acts = val_acts;
    c.elems = [](const Bytes& s) { return decode_elems<long, int32_t>(s, 1); };
    c.call = [](Obs& o) { long r = (*Wd::tptr<long>(*SB, 4104)).copy_and_verify([&](long v) { observe(o, &v, sizeof v); return v; }); set_result(o, r); };
    cs.push_back(c);
  }
  // --- pointer to fundamental
  {
    Case c; c.name = "copy_and_verify/pointer-to-long"; c.off = 4112; c.len = 4; c.A = bytes_of(int32_t(0x0badf00d)); c.acts = val_acts;
    c.elems = [](const Bytes& s) { return decode_elems<long, int32_t>(s, 1); };
    c.call = [](Obs& o) { long r = Wd::tptr<long>(*SB, 4112).copy_and_verify([&](std::unique_ptr<long> v) { observe(o, v.get(), sizeof(long)); return *v; }); set_result(o, r); };
    cs.push_back(c);
  }
  // --- pointer reached through a sandbox cell (tainted_volatile<long*>): the pointer itself can be retargeted
  {
    Case c; c.name = "copy_and_verify/volatile-pointer-to-long"; c.off = 4120; c.len = 4; c.A = bytes_of(uint32_t(0x2100)); c.acts = { A_RETARGET, A_ZERO };
    c.elems = [](const Bytes& s) {
      uint32_t r; memcpy(&r, s.data(), 4);
      long v = 0; // value at the target the representation designates (targets hold their own offset); null -> verifier(nullptr) -> 0
      v = r ? static_cast<long>(static_cast<int32_t>(r & (SIZE - 1) & ~3u)) : 0;
      return std::vector<Bytes>{ Bytes(reinterpret_cast<unsigned char*>(&v), reinterpret_cast<unsigned char*>(&v) + sizeof v) };
    };
    c.call = [](Obs& o) {
      // every aligned int32 in [0x2000,0x2400) and the 0xFFFFFFFC target hold their own offset, so provenance is decidable
      { trap::Pause p; for (uint32_t t = 0x2000; t < 0x2400; t += 4) Wd::wr<int32_t>(*SB, t, static_cast<int32_t>(t)); Wd::wr<int32_t>(*SB, (0xFFFFFFFFu & (SIZE - 1)) & ~3u, static_cast<int32_t>((0xFFFFFFFFu & (SIZE - 1)) & ~3u)); }
      tainted_volatile<long*, S>& cell = *Wd::tptr<long*>(*SB, 4120);
      long r = cell.copy_and_verify([&](std::unique_ptr<long> v) { static long zero; zero = 0; if (!v) { observe(o, &zero, sizeof(long)); return 0L; } observe(o, v.get(), sizeof(long)); return *v; });
      set_result(o, r);
    };
    cs.push_back(c);
  }
  // --- pointer to struct
  {
    GPS g{ 1234567, 'q', 0x3000 };
    Case c; c.name = "copy_and_verify/pointer-to-struct"; c.off = 4160; c.len = sizeof(GPS); c.A = bytes_of(g); c.acts = { A_FLIP, A_RETARGET, A_ZERO };
    c.elems = [](const Bytes& s) {
      GPS g; memcpy(&g, s.data(), sizeof g);
      long a = g.a; char b = g.b; uintptr_t p = g.c ? BASE + (g.c & (SIZE - 1)) : 0;
      Bytes ea_(8), eb_(1), ec_(8);
      memcpy(&ea_[0], &a, 8); eb_[0] = static_cast<unsigned char>(b); memcpy(&ec_[0], &p, 8);
      return std::vector<Bytes>{ ea_, eb_, ec_ };
    };
    c.call = [](Obs& o) {
      Wd::tptr<PS>(*SB, 4160).copy_and_verify([&](std::unique_ptr<tainted<PS, S>> v) {
        // flatten the fields (padding carries no value)
        static thread_local unsigned char flat[17];
        auto fill = [&] { long a = v->a.UNSAFE_unverified(); char b = v->b.UNSAFE_unverified(); uintptr_t p = reinterpret_cast<uintptr_t>(v->c.UNSAFE_unverified()); memcpy(flat, &a, 8); flat[8] = b; memcpy(flat + 9, &p, 8); };
        fill();
        o.ran = true; o.obj = reinterpret_cast<uintptr_t>(v.get()); o.entry.assign(flat, flat + 17);
        scramble_region();
        fill();
        o.after.assign(flat, flat + 17);
        return 0;
      });
    };
    cs.push_back(c);
  }
  // --- struct copy_and_verify on the tainted_volatile itself
  {
    GPS g{ -5, 'z', 0x3100 };
    Case c; c.name = "copy_and_verify/volatile-struct"; c.off = 4200; c.len = sizeof(GPS); c.A = bytes_of(g); c.acts = { A_FLIP, A_RETARGET };
    c.elems = cs.back().elems;
    c.call = [](Obs& o) {
      auto& tv = *Wd::tptr<PS>(*SB, 4200);
      PS r = tv.copy_and_verify([&](tainted<PS, S> v) {
        static thread_local unsigned char flat[17];
        auto fill = [&] { long a = v.a.UNSAFE_unverified(); char b = v.b.UNSAFE_unverified(); uintptr_t p = reinterpret_cast<uintptr_t>(v.c.UNSAFE_unverified()); memcpy(flat, &a, 8); flat[8] = b; memcpy(flat + 9, &p, 8); };
        fill();
        o.ran = true; o.obj = reinterpret_cast<uintptr_t>(&v); o.entry.assign(flat, flat + 17);
        scramble_region();
        fill();
        o.after.assign(flat, flat + 17);
        return v.UNSAFE_unverified();
      });
      unsigned char flat[17]; long a = r.a; char b = r.b; uintptr_t p = reinterpret_cast<uintptr_t>(r.c); memcpy(flat, &a, 8); flat[8] = b; memcpy(flat + 9, &p, 8);
      o.result.assign(flat, flat + 17); o.have_result = true;
    };
    cs.push_back(c);
  }
  // --- array copy_and_verify
  {
    int32_t arr[3] = { 11, -22, 0x7fffffff };
    Case c; c.name = "copy_and_verify/volatile-array-long3"; c.off = 4240; c.len = 12; c.A = Bytes(reinterpret_cast<unsigned char*>(arr), reinterpret_cast<unsigned char*>(arr) + 12); c.acts = val_acts;
    c.elems = [](const Bytes& s) { return decode_elems<long, int32_t>(s, 3); };
    c.call = [](Obs& o) { (*Wd::tptr<long[3]>(*SB, 4240)).copy_and_verify([&](std::array<long, 3> v) { observe(o, v.data(), sizeof(long) * 3); return 0; }); };
    cs.push_back(c);
  }
  // --- the same with verifiers that take their parameter by const reference (a reference may bind to whatever RLBox passes,
  //     including an lvalue that still lives in sandbox memory); int has the same representation in application and guest
  {
    int32_t arr[3] = { 11, -22, 0x7fffffff };
    Case c; c.name = "copy_and_verify/volatile-array-long3/const-ref-verifier"; c.off = 4240; c.len = 12; c.A = Bytes(reinterpret_cast<unsigned char*>(arr), reinterpret_cast<unsigned char*>(arr) + 12); c.acts = val_acts;
    c.elems = [](const Bytes& s) { return decode_elems<long, int32_t>(s, 3); };
    c.call = [](Obs& o) { (*Wd::tptr<long[3]>(*SB, 4240)).copy_and_verify([&](const std::array<long, 3>& v) { observe(o, v.data(), sizeof(long) * 3); return 0; }); };
    cs.push_back(c);
  }
  {
    int32_t arr[4] = { 5, -6, 0x7fffffff, 8 };
    Case c; c.name = "copy_and_verify/volatile-array-int4/const-ref-verifier"; c.off = 4256; c.len = 16; c.A = Bytes(reinterpret_cast<unsigned char*>(arr), reinterpret_cast<unsigned char*>(arr) + 16); c.acts = val_acts;
    c.elems = [](const Bytes& s) { return decode_elems<int, int32_t>(s, 4); };
    c.call = [](Obs& o) { (*Wd::tptr<int[4]>(*SB, 4256)).copy_and_verify([&](const std::array<int, 4>& v) { observe(o, v.data(), sizeof(int) * 4); return 0; }); };
    cs.push_back(c);
  }
  {
    char arr[8] = { 'a', 'b', 'c', 'd', 'e', 'f', 'g', 'h' };
    Case c; c.name = "copy_and_verify/volatile-array-char8/const-ref-verifier"; c.off = 4272; c.len = 8; c.A = Bytes(reinterpret_cast<unsigned char*>(arr), reinterpret_cast<unsigned char*>(arr) + 8); c.acts = val_acts;
    c.elems = [](const Bytes& s) { return decode_elems<char, char>(s, 8); };
    c.call = [](Obs& o) { (*Wd::tptr<char[8]>(*SB, 4272)).copy_and_verify([&](const std::array<char, 8>& v) { observe(o, v.data(), 8); return 0; }); };
    cs.push_back(c);
  }
  // multi-dimensional arrays (element type with the same representation on both sides: the whole-array copy is one verbatim
  // copy whose size has to be that of the WHOLE array): every element the verifier sees must come from the source
  {
    int32_t arr[3][4] = { { 1, 2, 3, 4 }, { -5, -6, -7, -8 }, { 0x7fffffff, 10, 11, 12 } };
    Case c; c.name = "copy_and_verify/volatile-array-int3x4"; c.off = 4352; c.len = 48; c.A = Bytes(reinterpret_cast<unsigned char*>(arr), reinterpret_cast<unsigned char*>(arr) + 48); c.acts = val_acts;
    c.elems = [](const Bytes& s) { return decode_elems<int, int32_t>(s, 12); };
    c.call = [](Obs& o) { (*Wd::tptr<int[3][4]>(*SB, 4352)).copy_and_verify([&](auto v) { static_assert(sizeof(v) == sizeof(int) * 12); observe(o, &v, sizeof(v)); return 0; }); };
    cs.push_back(c);
  }
  {
    char arr[4][8];
    for (int i = 0; i < 32; i++) reinterpret_cast<char*>(arr)[i] = static_cast<char>('A' + i % 26);
    Case c; c.name = "copy_and_verify/volatile-array-char4x8"; c.off = 4416; c.len = 32; c.A = Bytes(reinterpret_cast<unsigned char*>(arr), reinterpret_cast<unsigned char*>(arr) + 32); c.acts = val_acts;
    c.elems = [](const Bytes& s) { return decode_elems<char, char>(s, 32); };
    c.call = [](Obs& o) { (*Wd::tptr<char[4][8]>(*SB, 4416)).copy_and_verify([&](const auto& v) { static_assert(sizeof(v) == 32); observe(o, &v, sizeof(v)); return 0; }); };
    cs.push_back(c);
  }
  {
    int32_t val = 424242;
    Case c; c.name = "copy_and_verify/volatile-int/const-ref-verifier"; c.off = 4288; c.len = 4; c.A = Bytes(reinterpret_cast<unsigned char*>(&val), reinterpret_cast<unsigned char*>(&val) + 4); c.acts = val_acts;
    c.elems = [](const Bytes& s) { return decode_elems<int, int32_t>(s, 1); };
    c.call = [](Obs& o) { int r = (*Wd::tptr<int>(*SB, 4288)).copy_and_verify([&](const int& v) { observe(o, &v, sizeof(int)); return v; }); set_result(o, r); };
    cs.push_back(c);
  }
  // --- copy_and_verify_string on a char* that itself lives in sandbox memory (tainted_volatile<char*>): the sandbox can
  //     retarget or null the pointer between the measurement of the string and its copy.  The two strings differ in LENGTH,
  //     so a string measured through one value of the cell and copied through another is neither of them; what the verifier
  //     gets is recorded as (length, characters) - for the std::string flavour the length is size(), which an embedded NUL
  //     does not shorten
  for (int flavour = 0; flavour < 2; flavour++) {
    Case c;
    c.name = mon::fmt("copy_and_verify_string/volatile-pointer/%s", flavour ? "std-string" : "unique_ptr");
    c.off = 4520; c.len = 4; c.A = bytes_of(uint32_t(0x2800)); c.acts = { A_RETARGET, A_ZERO };
    // record: [length][characters, zero padded to 15]; a null cell designates nothing (length 0)
    auto record = [](const char* str, size_t len) { Bytes r(16, 0); r[0] = static_cast<unsigned char>(len); for (size_t i = 0; i < len && i < 15; i++) r[1 + i] = static_cast<unsigned char>(str[i]); return r; };
    c.elems = [record](const Bytes& s) {
      uint32_t t; memcpy(&t, s.data(), 4);
      if (t == 0x2800) return std::vector<Bytes>{ record("string-one!!", 12) };
      if (t == 0x2000) return std::vector<Bytes>{ record("two", 3) };
      return std::vector<Bytes>{ record("", 0) };
    };
    c.call = [flavour, record](Obs& o) {
      { trap::Pause p; memcpy(reinterpret_cast<void*>(BASE + 0x2800), "string-one!!", 13); memcpy(reinterpret_cast<void*>(BASE + 0x2000), "two\0ZYXWVUTSRQPONML", 20); }
      tainted_volatile<char*, S>& cell = *Wd::tptr<char*>(*SB, 4520);
      if (flavour == 0) cell.copy_and_verify_string([&](std::unique_ptr<char[]> v) { Bytes r = v ? record(v.get(), strlen(v.get())) : record("", 0); observe(o, r.data(), 16); if (v) o.obj = reinterpret_cast<uintptr_t>(v.get()); return 0; });
      else cell.copy_and_verify_string([&](std::string v) { Bytes r = record(v.data(), v.size()); observe(o, r.data(), 16); o.obj = reinterpret_cast<uintptr_t>(v.data()); return 0; });
    };
    cs.push_back(c);
  }
  // --- bool cells: the byte is CHECKED to be 0 or 1 and then delivered; what is delivered must be the byte that was checked.
  // A source state whose byte is not a bool has no decoding (empty element: nothing delivered may equal it), so a delivered
  // object holding such a byte is "never held by the source" -- only an abort or the value of the other state is acceptable
  {
    auto bool_elems = [](size_t n) { return [n](const Bytes& s) { std::vector<Bytes> out; for (size_t i = 0; i < n; i++) out.push_back(s[i] <= 1 ? Bytes{ s[i] } : Bytes{}); return out; }; };
    const std::vector<Act> bool_acts = { A_FLIP, A_FILLFF, A_ZERO };
    {
      Case c; c.name = "copy_and_verify/volatile-bool"; c.off = 4280; c.len = 1; c.A = { 1 }; c.acts = bool_acts; c.elems = bool_elems(1);
      c.call = [](Obs& o) { bool r = (*Wd::tptr<bool>(*SB, 4280)).copy_and_verify([&](bool v) { observe(o, &v, 1); return v; }); unsigned char rb; memcpy(&rb, &r, 1); set_result(o, rb); };
      cs.push_back(c);
    }
    {
      Case c; c.name = "copy_and_verify/pointer-to-bool"; c.off = 4284; c.len = 1; c.A = { 1 }; c.acts = bool_acts; c.elems = bool_elems(1);
      c.call = [](Obs& o) { Wd::tptr<bool>(*SB, 4284).copy_and_verify([&](std::unique_ptr<bool> v) { if (v) observe(o, v.get(), 1); return 0; }); };
      cs.push_back(c);
    }
    {
      Case c; c.name = "copy_and_verify_range/bool4"; c.off = 4288; c.len = 4; c.A = { 1, 0, 1, 1 }; c.acts = bool_acts; c.elems = bool_elems(4);
      c.call = [](Obs& o) { Wd::tptr<bool>(*SB, 4288).copy_and_verify_range([&](std::unique_ptr<bool[]> v) { if (v) observe(o, v.get(), 4); return 0; }, 4); };
      cs.push_back(c);
    }
    {
      Case c; c.name = "copy_and_verify/volatile-bool-array"; c.off = 4292; c.len = 4; c.A = { 0, 1, 1, 0 }; c.acts = bool_acts; c.elems = bool_elems(4);
      c.call = [](Obs& o) { (*Wd::tptr<bool[4]>(*SB, 4292)).copy_and_verify([&](std::array<bool, 4> v) { observe(o, v.data(), 4); return 0; }); };
      cs.push_back(c);
    }
  }
  // --- ranges
  {
    Case c; c.name = "copy_and_verify_range/char6"; c.off = 4300; c.len = 6; c.A = { 'r', 'a', 'n', 'g', 'e', '!' }; c.acts = val_acts;
    c.elems = [](const Bytes& s) { return decode_elems<char, char>(s, 6); };
    c.call = [](Obs& o) { Wd::tptr<char>(*SB, 4300).copy_and_verify_range([&](std::unique_ptr<char[]> v) { if (v) observe(o, v.get(), 6); return 0; }, 6); };
    cs.push_back(c);
  }
  {
    int32_t arr[4] = { 1, 2, -3, 40000 };
    Case c; c.name = "copy_and_verify_range/long4"; c.off = 4320; c.len = 16; c.A = Bytes(reinterpret_cast<unsigned char*>(arr), reinterpret_cast<unsigned char*>(arr) + 16); c.acts = val_acts;
    c.elems = [](const Bytes& s) { return decode_elems<long, int32_t>(s, 4); };
    c.call = [](Obs& o) { Wd::tptr<long>(*SB, 4320).copy_and_verify_range([&](std::unique_ptr<long[]> v) { if (v) observe(o, v.get(), sizeof(long) * 4); return 0; }, 4); };
    cs.push_back(c);
  }
  // --- strings, both verifier flavours
  struct SC { const char* n; uint64_t off; std::string s; bool at_end; };
  std::vector<SC> scs = { { "empty", 5000, "", false }, { "len1", 5100, "x", false }, { "len12", 5200, "hello, world", false }, { "len40", 5300, std::string(40, 'm'), false },
                          { "terminator-in-last-byte", SIZE - 9, "lastbyte", true } };
  // lengths around the chunk sizes of vectorised strlen/memcpy, at assorted alignments
  static std::vector<std::string> names;
  names.reserve(32); // the cases keep pointers to these strings
  for (int L : { 7, 8, 15, 16, 17, 31, 32, 33, 63, 64, 65 }) {
    names.push_back("len" + std::to_string(L));
    scs.push_back({ names.back().c_str(), static_cast<uint64_t>(8192 + 256 * L + (L % 5)), std::string(L, static_cast<char>('a' + L % 26)), false });
  }
  for (auto& sc : scs) {
    for (int flavour = 0; flavour < 2; flavour++) {
      Case c;
      c.name = mon::fmt("copy_and_verify_string/%s/%s", flavour ? "std-string" : "unique_ptr", sc.n);
      c.off = sc.off; c.is_string = true; c.at_region_end = sc.at_end;
      size_t cap = sc.at_end ? sc.s.size() + 1 : sc.s.size() + 24; // room for the adversary to lengthen
      c.len = cap;
      c.A.assign(cap, 0);
      memcpy(c.A.data(), sc.s.data(), sc.s.size());
      c.acts = { A_LENGTHEN, A_SHORTEN, A_FLIP, A_FILLFF, A_ZERO };
      c.elems = [](const Bytes&) { return std::vector<Bytes>{}; };
      uint64_t off = sc.off;
      if (flavour == 0)
        c.call = [off](Obs& o) { Wd::tptr<char>(*SB, off).copy_and_verify_string([&](std::unique_ptr<char[]> v) { if (v) { size_t n = strlen(v.get()) + 1; observe(o, v.get(), n); } return 0; }); };
      else
        c.call = [off](Obs& o) { Wd::tptr<char>(*SB, off).copy_and_verify_string([&](std::string v) { observe(o, v.c_str(), v.size() + 1); return 0; }); };
      cs.push_back(c);
    }
  }
  // --- addresses
  {
    Case c; c.name = "copy_and_verify_address/volatile-pointer"; c.off = 4400; c.len = 4; c.A = bytes_of(uint32_t(0x2200)); c.acts = { A_RETARGET, A_FILLFF, A_ZERO };
    c.elems = [](const Bytes& s) { uint32_t r; memcpy(&r, s.data(), 4); uintptr_t a = r ? BASE + (r & (SIZE - 1)) : 0; return std::vector<Bytes>{ Bytes(reinterpret_cast<unsigned char*>(&a), reinterpret_cast<unsigned char*>(&a) + 8) }; };
    c.call = [](Obs& o) { uintptr_t r = (*Wd::tptr<int*>(*SB, 4400)).copy_and_verify_address([&](uintptr_t a) { observe(o, &a, sizeof a); return a; }); set_result(o, r); };
    cs.push_back(c);
  }
  {
    Case c; c.name = "copy_and_verify_buffer_address/volatile-pointer"; c.off = 4408; c.len = 4; c.A = bytes_of(uint32_t(0x2300)); c.acts = { A_RETARGET, A_FILLFF, A_ZERO };
    c.elems = cs.back().elems;
    c.call = [](Obs& o) { uintptr_t r = (*Wd::tptr<char*>(*SB, 4408)).copy_and_verify_buffer_address([&](uintptr_t a) { observe(o, &a, sizeof a); return a; }, 16); set_result(o, r); };
    cs.push_back(c);
  }
  // --- copy_memory_or_deny_access (copy path): the returned application buffer
  {
    Case c; c.name = "copy_memory_or_deny_access/char8"; c.off = 4500; c.len = 8; c.A = { 'd', 'e', 'n', 'y', '1', '2', '3', '4' }; c.acts = val_acts;
    c.elems = [](const Bytes& s) { return decode_elems<char, char>(s, 8); };
    c.call = [](Obs& o) {
      bool copied = false;
      char* out = copy_memory_or_deny_access(*SB, Wd::tptr<char>(*SB, 4500), 8, false, copied);
      if (out) { observe(o, out, 8); free(out); }
    };
    cs.push_back(c);
  }
  (void)rng;
  return cs;
}

// ---------------------------------------------------- real adversary thread
static void threaded(mon::Rng& rng)
{
  // one thread keeps toggling a string between a short and a long state while
  // the main thread copies and verifies it (intentional race on sandbox memory)
  volatile bool stop = false;
  uint64_t off = 6000;
  memset(reinterpret_cast<void*>(BASE + off), 0, 64);
  std::thread adv([&] {
    mon::Rng r(rng());
    while (!stop) {
      char* s = reinterpret_cast<char*>(BASE + off);
      if (r.coin()) { for (int i = 0; i < 3; i++) s[i] = 'a'; s[3] = 0; }
      else { for (int i = 0; i < 40; i++) s[i] = 'b'; s[40] = 0; }
    }
  });
  int calls = mon::tier(20000, 1000000);
  uint64_t bad = 0;
  for (int i = 0; i < calls && !bad; i++) {
    vsbx_ev.last_same_p1 = 0;
    size_t L = 0;
    bool terminated = true;
    bool ab = mon::aborts([&] {
      if (i & 1) Wd::tptr<char>(*SB, off).copy_and_verify_string([&](std::string v) { L = strlen(v.c_str()); terminated = v.c_str()[v.size()] == 0; return 0; });
      else Wd::tptr<char>(*SB, off).copy_and_verify_string([&](std::unique_ptr<char[]> v) { L = strlen(v.get()); return 0; });
    });
    uint64_t checked = (vsbx_ev.last_same_p1 == BASE + off) ? vsbx_ev.last_same_p2 - vsbx_ev.last_same_p1 + 1 : 0;
    if (!ab && checked && L + 1 > checked) { bad++; report("copy_and_verify_string/racing-thread", "string-longer-than-checked-range", mon::fmt("call %d: delivered %zu characters, range check covered %llu bytes", i, L, (unsigned long long)checked)); }
    if (!terminated) { bad++; report("copy_and_verify_string/racing-thread", "string-not-terminated-inside-its-buffer", mon::fmt("call %d", i)); }
  }
  stop = true;
  adv.join();
  mon::evals(calls);
  mon::extra_num("racing_thread_calls", calls);
  if (!bad) n_ok++;
}

int main(int argc, char** argv)
{
  mon::init("C09", argc, argv, /*install_crash_handlers=*/false); // SIGSEGV/SIGTRAP belong to the interleaver
  signal(SIGABRT, mon::crash_handler);
  mon::require("interleavings-with-adversary-action-applied");
  mon::require("snapshot-held");
  mon::Rng rng(mon::seed() * 43 + 9);
  vsbx_library lib;
  lib.id = 1;
  Wd::sbx sb;
  sb.create_sandbox(&lib);
  SB = &sb;
  BASE = Wd::base(sb);
  SIZE = Wd::size(sb);
  int part = argc > 1 ? atoi(argv[1]) : 0;
  if (part == 0) {
    trap::install(BASE, SIZE);
    trap::st.foreign_fault = mon::crash_handler; // a fault outside the trapped region (e.g. a null dereference) is recorded with its context
    auto cases = build_cases(rng);
    for (size_t i = 0; i < cases.size(); i++)
      if (i % mon::nslices() == mon::slice()) run_case(cases[i]);
    mon::extra_num("interleavings_executed", n_interleavings);
    mon::extra_num("two_action_sequences_executed", n_pairs);
    mon::extra_num("adversary_actions_fired", n_fired);
  } else {
    threaded(rng);
    n_fired++; n_interleavings++;
  }
  mon::hit("interleavings-with-adversary-action-applied", n_fired);
  mon::hit("snapshot-held", n_ok);
  mon::hit("aborted-under-attack", n_abort);
  sb.destroy_sandbox();
  return mon::finish();
}
