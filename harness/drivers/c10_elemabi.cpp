// C10/C06 (element semantics of the bulk transfer helpers under ABIs whose short is not 16 bits): the buffers handed to
// copy_memory_or_grant_access / taken from copy_memory_or_deny_access are arrays of T; what arrives must be those elements
// as the other side sees them.  Driven on the WIDE (32-bit short) and NARROW (8-bit short) model ABIs for the element
// types the helpers accept besides the byte types.
#include "world.hpp"

using namespace rlbox;
using Cfg = CFG;
using Wd = world::W<Cfg>;
using S = Wd::S;

// a registered struct whose image under the WIDE ABI is larger (8 bytes) and under the NARROW ABI smaller (2) than the application's 4
struct Pair { short a; short b; };
#define sandbox_fields_reflection_c10e_class_Pair(f, g, ...) f(short, a, FIELD_NORMAL, ##__VA_ARGS__) g() f(short, b, FIELD_NORMAL, ##__VA_ARGS__) g()
#define sandbox_fields_reflection_c10e_allClasses(f, ...) f(Pair, c10e, ##__VA_ARGS__)
rlbox_load_structs_from_library(c10e);

static uint64_t n_ok = 0;
static void report(const char* op, const char* tn, const char* cls, const std::string& d) { mon::violation(mon::fmt("C10/%s/%s/%s", op, tn, cls), d); }

template<typename T>
static void probe(Wd::sbx& sb, const char* tn, mon::Rng& rng)
{
  using G = ref::guest_t<Cfg, T>;
  for (int round = 0; round < mon::tier(4, 200); round++) {
    T v[4];
    for (auto& x : v) x = static_cast<T>(static_cast<G>(rng.interesting() & 0x7f)); // representable on both sides
    // ---- grant: the sandbox must see v[0..3]
    {
      sb.get_sandbox_impl()->brk = 4096;
      bool copied = false;
      tainted<T*, S> t = nullptr;
      mon::ctx("copy_memory_or_grant_access/%s | element semantics", tn);
      bool ab = mon::aborts([&] { t = copy_memory_or_grant_access(sb, v, 4, false, copied); });
      mon::evals();
      if (ab || !t) report("copy_memory_or_grant_access", tn, "legal-request-failed", Cfg::name);
      else {
        bool same = true;
        std::string got;
        for (int i = 0; i < 4; i++) {
          T g{};
          bool rab = mon::aborts([&] { g = t[i].UNSAFE_unverified(); });
          got += rab ? "(not representable) " : mon::fmt("%lld ", (long long)g);
          same = same && !rab && g == v[i];
        }
        if (!same)
          report("copy_memory_or_grant_access", tn, "elements-not-those-given-under-this-abi",
                 mon::fmt("%s (guest %s is %zu bytes, application %zu): gave {%lld %lld %lld %lld}, the sandbox's elements read {%s}", Cfg::name, tn, sizeof(G), sizeof(T), (long long)v[0], (long long)v[1], (long long)v[2], (long long)v[3], got.c_str()));
        else n_ok++;
      }
    }
    // ---- deny: the application must get the elements the sandbox holds
    {
      auto p = Wd::template tptr<T>(sb, 8192);
      for (int i = 0; i < 4; i++) p[i] = v[i];
      bool copied = false;
      T* out = nullptr;
      mon::ctx("copy_memory_or_deny_access/%s | element semantics", tn);
      bool ab = mon::aborts([&] { out = copy_memory_or_deny_access(sb, p, 4, false, copied); });
      mon::evals();
      if (ab || !out) report("copy_memory_or_deny_access", tn, "legal-request-failed", Cfg::name);
      else {
        bool same = true;
        std::string got;
        for (int i = 0; i < 4; i++) { got += mon::fmt("%lld ", (long long)out[i]); same = same && out[i] == v[i]; }
        if (!same)
          report("copy_memory_or_deny_access", tn, "elements-not-those-held-under-this-abi",
                 mon::fmt("%s (guest %s is %zu bytes, application %zu): the sandbox holds {%lld %lld %lld %lld}, the application received {%s}", Cfg::name, tn, sizeof(G), sizeof(T), (long long)v[0], (long long)v[1], (long long)v[2], (long long)v[3], got.c_str()));
        else n_ok++;
        if (copied) free(out);
      }
    }
  }
}

// unverified_safe_pointer_because(count): "a raw pointer handed back together with an element count really has that many
// whole elements inside the sandbox".  The elements a tainted pointer designates are sandbox objects (that is how [], +, ->
// and malloc_in_sandbox count them), so a count whose last sandbox element ends behind the region must abort, whatever the
// application's sizeof says; the raw pointer that comes back has the application's element type, so a count whose last
// application-sized element ends behind the region must abort too; a count for which both layouts fit must be accepted.
template<typename T>
static void usp_probe(Wd::sbx& sb, const char* tn, size_t gsz, mon::Rng& rng)
{
  const uint64_t rsize = Wd::size(sb);
  const size_t hsz = sizeof(T);
  std::vector<uint64_t> starts = { 16, gsz * 3, rsize - gsz, rsize - 7 * gsz, (rsize / 2 / gsz) * gsz };
  for (int i = 0; i < mon::tier(4, 40); i++) starts.push_back(gsz * rng.below(rsize / gsz));
  for (uint64_t off : starts) {
    uint64_t room_g = (rsize - off) / gsz, room_h = (rsize - off) / hsz;
    std::vector<uint64_t> counts = { 1, 2, room_g - 1, room_g, room_g + 1, room_h - 1, room_h, room_h + 1, room_g * 2, room_h * 2, (room_g + room_h) / 2 };
    for (uint64_t c : counts) {
      if (c == 0) continue;
      bool legal_g = c <= room_g, legal_h = c <= room_h;
      auto p = Wd::template tptr<T>(sb, off);
      mon::ctx("unverified_safe_pointer_because/%s | base+%llu count=%llu", tn, (unsigned long long)off, (unsigned long long)c);
      mon::distinct(mon::mix(mon::mix(std::hash<std::string>()(tn), off), c));
      const void* raw = nullptr;
      bool ab = mon::aborts([&] { raw = p.unverified_safe_pointer_because(c, "monitor"); });
      mon::evals();
      std::string what = mon::fmt("%s: unverified_safe_pointer_because<%s*>(start=base+%llu, count=%llu): sandbox element %zu bytes (room for %llu), application element %zu bytes (room for %llu)", Cfg::name, tn,
                                  (unsigned long long)off, (unsigned long long)c, gsz, (unsigned long long)room_g, hsz, (unsigned long long)room_h);
      if (!legal_g) { if (!ab) report("unverified_safe_pointer_because", tn, "count-exceeds-whole-sandbox-elements", what); else n_ok++; }
      else if (!legal_h) { if (!ab) report("unverified_safe_pointer_because", tn, "count-exceeds-whole-elements-of-the-returned-pointer-type", what); else n_ok++; }
      else if (legal_h) { if (ab || raw != reinterpret_cast<const void*>(Wd::base(sb) + off)) report("unverified_safe_pointer_because", tn, "legal-request-aborted", what); else n_ok++; }
    }
  }
}

#if MON_ASAN
extern "C" size_t __sanitizer_get_current_allocated_bytes(void); // ASan runtime (gcc ships no header for it)
static size_t app_heap_bytes() { return __sanitizer_get_current_allocated_bytes(); }
#else
#include <malloc.h>
static size_t app_heap_bytes() { return mallinfo2().uordblks; }
#endif

// (a) a request whose k-th element cannot be represented on the other side aborts (C06) -- and a refused request must not keep
// what it had allocated: neither the application buffer of the deny helper nor the sandbox block of the grant helper;
// (b) the element-wise grant path must refuse an application buffer that CONTAINS the sandbox, like the other paths do
template<typename T>
static void refused_requests(Wd::sbx& sb, const char* tn)
{
  using G = ref::guest_t<Cfg, T>;
  if constexpr (sizeof(G) > sizeof(T)) {
    // deny: the sandbox holds a value the application's T cannot hold
    auto p = Wd::template tptr<T>(sb, 8192);
    const size_t N = 2048;
    for (size_t i = 0; i < N; i++) Wd::template wr<G>(sb, 8192 + i * sizeof(G), static_cast<G>(i & 0x7f));
    Wd::template wr<G>(sb, 8192 + (N - 1) * sizeof(G), static_cast<G>(70000)); // the LAST element is the unrepresentable one
    size_t before = app_heap_bytes();
    int aborted = 0;
    mon::ctx("copy_memory_or_deny_access/%s | element %zu unrepresentable, 100 refused requests", tn, N - 1);
    for (int r = 0; r < 100; r++) { bool copied = false; aborted += mon::aborts([&] { T* out = copy_memory_or_deny_access(sb, p, N, false, copied); if (copied) free(out); }); }
    size_t after = app_heap_bytes();
    mon::evals(100);
    if (aborted != 100) report("copy_memory_or_deny_access", tn, "unrepresentable-element-delivered", mon::fmt("%s: %d of 100 requests aborted", Cfg::name, aborted));
    else if (after > before + 16 * N * sizeof(T)) report("copy_memory_or_deny_access", tn, "refused-request-leaked-application-buffer", mon::fmt("%s: 100 refused requests of %zu bytes each grew the application heap by %zu bytes", Cfg::name, N * sizeof(T), after - before));
    else n_ok++;
  }
  if constexpr (sizeof(G) < sizeof(T)) {
    // grant: the application holds a value the sandbox's T cannot hold -> abort, and no sandbox block may stay allocated
    static T buf[64];
    for (auto& x : buf) x = static_cast<T>(1);
    buf[63] = static_cast<T>(30000);
    sb.get_sandbox_impl()->brk = 4096;
    uint64_t live0 = vsbx_ev.mallocs - vsbx_ev.frees;
    bool copied = false;
    mon::ctx("copy_memory_or_grant_access/%s | element 63 unrepresentable", tn);
    bool ab = mon::aborts([&] { auto t = copy_memory_or_grant_access(sb, buf, 64, false, copied); (void)t; });
    uint64_t live1 = vsbx_ev.mallocs - vsbx_ev.frees;
    mon::evals();
    if (!ab) report("copy_memory_or_grant_access", tn, "unrepresentable-element-delivered", Cfg::name);
    else if (live1 != live0) report("copy_memory_or_grant_access", tn, "refused-request-left-a-sandbox-block-allocated", mon::fmt("%s: %llu block(s)", Cfg::name, (unsigned long long)(live1 - live0)));
    else n_ok++;
    // an application buffer that starts below the sandbox and ends above it: both ends are application memory, the
    // sandbox image of its elements would fit -- it contains the sandbox and must be refused
    const uintptr_t base = Wd::base(sb), size = Wd::size(sb);
    size_t n = (size + 16 * sizeof(T)) / sizeof(T);
    sb.get_sandbox_impl()->brk = 16;
    copied = false;
    tainted<const T*, S> res = nullptr;
    mon::ctx("copy_memory_or_grant_access/%s | application buffer containing the whole sandbox (%zu elements)", tn, n);
    ab = mon::aborts([&] { res = copy_memory_or_grant_access(sb, reinterpret_cast<const T*>(base - 8 * sizeof(T)), n, false, copied); });
    mon::evals();
    if (!ab && res != nullptr) report("copy_memory_or_grant_access", tn, "buffer-containing-the-sandbox-accepted", mon::fmt("%s: source [base-%zu, base+%zu) of %zu elements was copied (copied=%d)", Cfg::name, 8 * sizeof(T), n * sizeof(T) - 8 * sizeof(T), n, copied));
    else n_ok++;
  }
}

// copy_and_verify_range(count): the verifier must receive exactly the count elements the sandbox holds, taken from the
// count sandbox-sized elements that were range-checked - at the interior and flush against the end of the region, where a
// copy sized with the application's element would run off the region (address-sanitizer: the model's region is followed by
// a poisoned zone)
template<typename T>
static void range_probe(Wd::sbx& sb, const char* tn, mon::Rng& rng)
{
  using G = ref::guest_t<Cfg, T>;
  const uint64_t total = sb.get_total_memory();
  for (int round = 0; round < mon::tier(4, 100); round++) {
    for (uint64_t off : { uint64_t(8192), total - 4 * sizeof(G) }) {
      T v[4];
      for (auto& x : v) x = static_cast<T>(static_cast<G>(rng.interesting() & 0x7f));
      auto p = Wd::template tptr<T>(sb, off);
      for (int i = 0; i < 4; i++) p[i] = v[i];
      T got[4] = {};
      bool called = false;
      mon::ctx("copy_and_verify_range/%s at offset %llu | element semantics", tn, (unsigned long long)off);
      bool ab = mon::aborts([&] { p.copy_and_verify_range([&](std::unique_ptr<T[]> u) { called = true; if (u) for (int i = 0; i < 4; i++) got[i] = u[i]; return 0; }, 4); });
      mon::evals();
      if (ab || !called) { report("copy_and_verify_range", tn, "legal-request-failed", Cfg::name); continue; }
      bool same = true;
      for (int i = 0; i < 4; i++) same = same && got[i] == v[i];
      if (!same)
        report("copy_and_verify_range", tn, "elements-not-those-held-under-this-abi",
               mon::fmt("%s (guest %s is %zu bytes, application %zu): the sandbox holds {%lld %lld %lld %lld}, the verifier received {%lld %lld %lld %lld}", Cfg::name, tn, sizeof(G), sizeof(T),
                        (long long)v[0], (long long)v[1], (long long)v[2], (long long)v[3], (long long)got[0], (long long)got[1], (long long)got[2], (long long)got[3]));
      else n_ok++;
    }
  }
}

// copy_memory_or_deny_access at the end of the region: the buffer it reads is num SANDBOX-sized elements; a buffer whose last
// element starts inside the region and ends behind it must be refused, one that ends flush with the region must be served
template<typename T>
static void deny_edge(Wd::sbx& sb, const char* tn)
{
  using G = ref::guest_t<Cfg, T>;
  const uint64_t total = sb.get_total_memory();
  for (size_t num : { size_t(1), size_t(3) }) {
    for (int64_t back = 1; back <= int64_t(sizeof(G) * num) + int64_t(sizeof(G)); back++) {
      uint64_t off = total - back;
      if (off % alignof(G) != 0) continue; // (aligned cells only)
      bool fits = back >= int64_t(sizeof(G) * num);
      auto p = Wd::template tptr<T>(sb, off);
      bool copied = false;
      T* out = nullptr;
      mon::ctx("copy_memory_or_deny_access/%s x %zu | buffer starts %lld bytes before the end of the region", tn, num, (long long)back);
      bool ab = mon::aborts([&] { out = copy_memory_or_deny_access(sb, p, num, false, copied); });
      mon::evals();
      if (fits) {
        if (ab || !out) report("copy_memory_or_deny_access", tn, "legal-request-failed", mon::fmt("%s, %zu elements %lld bytes before the end", Cfg::name, num, (long long)back));
        else n_ok++;
      } else {
        if (!ab) report("copy_memory_or_deny_access", tn, "source-range-leaves-the-sandbox",
                        mon::fmt("%s: %zu element(s) of %zu bytes (sandbox size) starting %lld bytes before the end of the region were read without abort", Cfg::name, num, sizeof(G), (long long)back));
        else n_ok++;
      }
      if (!ab && out && copied) free(out);
    }
  }
}

// malloc_in_sandbox<T>(count) asks the backend for count images of T under the sandbox's ABI - for every spelling of T: plain,
// cv-qualified, arrays, cv-qualified arrays (the image of `const S` is the image of S)
template<typename T, typename T_Base>
static void malloc_size(Wd::sbx& sb, const char* tn, size_t elems_per_T)
{
  for (uint32_t count : { 1u, 3u }) {
    sb.get_sandbox_impl()->brk = 4096;
    vsbx_ev.last_malloc_size = 0;
    mon::ctx("malloc_in_sandbox<%s>(%u) | size requested from the backend", tn, count);
    bool ab = mon::aborts([&] { auto p = sb.template malloc_in_sandbox<T>(count); if (!p) throw std::runtime_error("null"); });
    mon::evals();
    uint64_t want = static_cast<uint64_t>(sizeof(tainted_volatile<T_Base, S>)) * elems_per_T * count;
    if (ab) report("malloc_in_sandbox", tn, "legal-request-failed", Cfg::name);
    else if (vsbx_ev.last_malloc_size != want)
      report("malloc_in_sandbox", tn, "block-not-sized-by-the-sandbox-image",
             mon::fmt("%s: malloc_in_sandbox<%s>(%u) asked the backend for %llu bytes; %u object(s) of %zu element(s) whose image is %zu bytes need %llu", Cfg::name, tn, count,
                      (unsigned long long)vsbx_ev.last_malloc_size, count, elems_per_T, sizeof(tainted_volatile<T_Base, S>), (unsigned long long)want));
    else n_ok++;
  }
}

int main(int argc, char** argv)
{
  mon::init("C10", argc, argv);
  mon::Rng rng(mon::seed() * 61 + 10);
  vsbx_library lib;
  lib.id = 1;
  Wd::sbx sb;
  sb.create_sandbox(&lib);
  probe<char>(sb, "char", rng);
  probe<short>(sb, "short", rng);
  probe<char16_t>(sb, "char16_t", rng);
  probe<float>(sb, "float", rng);
  probe<double>(sb, "double", rng);
  deny_edge<char>(sb, "char");
  deny_edge<short>(sb, "short");
  deny_edge<char16_t>(sb, "char16_t");
  deny_edge<wchar_t>(sb, "wchar_t");
  deny_edge<float>(sb, "float");
  deny_edge<double>(sb, "double");
  malloc_size<Pair, Pair>(sb, "Pair", 1);
  malloc_size<const Pair, Pair>(sb, "const Pair", 1);
  malloc_size<Pair[3], Pair>(sb, "Pair[3]", 3);
  malloc_size<const Pair[2], Pair>(sb, "const Pair[2]", 2);
  malloc_size<Pair[2][3], Pair>(sb, "Pair[2][3]", 6);
  malloc_size<short[2][4], short>(sb, "short[2][4]", 8);
  malloc_size<long[2][2][2], long>(sb, "long[2][2][2]", 8);
  malloc_size<short, short>(sb, "short", 1);
  malloc_size<const short, short>(sb, "const short", 1);
  malloc_size<const short[5], short>(sb, "const short[5]", 5);
  malloc_size<const long* const, long*>(sb, "const long* const", 1);
  range_probe<char>(sb, "char", rng);
  range_probe<short>(sb, "short", rng);
  range_probe<char16_t>(sb, "char16_t", rng);
  range_probe<char32_t>(sb, "char32_t", rng);
  range_probe<wchar_t>(sb, "wchar_t", rng);
  range_probe<long>(sb, "long", rng);
  range_probe<double>(sb, "double", rng);
  refused_requests<short>(sb, "short");
  refused_requests<char16_t>(sb, "char16_t");
  usp_probe<Pair>(sb, "struct{short,short}", sizeof(tainted_volatile<Pair, S>) == 2 * sizeof(ref::guest_t<Cfg, short>) ? 2 * sizeof(ref::guest_t<Cfg, short>) : 0, rng);
  usp_probe<short[6]>(sb, "short[6]", 6 * sizeof(ref::guest_t<Cfg, short>), rng);
  usp_probe<long[3]>(sb, "long[3]", 3 * sizeof(ref::guest_t<Cfg, long>), rng);
  usp_probe<short>(sb, "short", sizeof(ref::guest_t<Cfg, short>), rng);
  usp_probe<long>(sb, "long", sizeof(ref::guest_t<Cfg, long>), rng);
  mon::hit("element-semantics-preserved", n_ok);
  mon::distinct(0xe1e); mon::distinct(0xe1f);
  sb.destroy_sandbox();
  return mon::finish();
}
