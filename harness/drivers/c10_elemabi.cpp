// C10/C06 (element semantics of the bulk transfer helpers under ABIs whose short is not 16 bits): the buffers handed to
// copy_memory_or_grant_access / taken from copy_memory_or_deny_access are arrays of T; what arrives must be those elements
// as the other side sees them.  Driven on the WIDE (32-bit short) and NARROW (8-bit short) model ABIs for the element
// types the helpers accept besides the byte types.
#include "world.hpp"

using namespace rlbox;
using Cfg = CFG;
using Wd = world::W<Cfg>;
using S = Wd::S;

// a registered struct whose image under the WIDE ABI is larger (8 bytes) and under the NARROW ABI smaller (2) than the application's 4
struct Pair { short a; short b; };
#define sandbox_fields_reflection_c10e_class_Pair(f, g, ...) f(short, a, FIELD_NORMAL, ##__VA_ARGS__) g() f(short, b, FIELD_NORMAL, ##__VA_ARGS__) g()
#define sandbox_fields_reflection_c10e_allClasses(f, ...) f(Pair, c10e, ##__VA_ARGS__)
rlbox_load_structs_from_library(c10e);

static uint64_t n_ok = 0;
static void report(const char* op, const char* tn, const char* cls, const std::string& d) { mon::violation(mon::fmt("C10/%s/%s/%s", op, tn, cls), d); }

template<typename T>
static void probe(Wd::sbx& sb, const char* tn, mon::Rng& rng)
{
  using G = ref::guest_t<Cfg, T>;
  for (int round = 0; round < mon::tier(4, 200); round++) {
    T v[4];
    for (auto& x : v) x = static_cast<T>(static_cast<G>(rng.interesting() & 0x7f)); // representable on both sides
    // ---- grant: the sandbox must see v[0..3]
    {
      sb.get_sandbox_impl()->brk = 4096;
      bool copied = false;
      tainted<T*, S> t = nullptr;
      mon::ctx("copy_memory_or_grant_access/%s | element semantics", tn);
      bool ab = mon::aborts([&] { t = copy_memory_or_grant_access(sb, v, 4, false, copied); });
      mon::evals();
      if (ab || !t) report("copy_memory_or_grant_access", tn, "legal-request-failed", Cfg::name);
      else {
        bool same = true;
        std::string got;
        for (int i = 0; i < 4; i++) {
          T g{};
          bool rab = mon::aborts([&] { g = t[i].UNSAFE_unverified(); });
          got += rab ? "(not representable) " : mon::fmt("%lld ", (long long)g);
          same = same && !rab && g == v[i];
        }
        if (!same)
          report("copy_memory_or_grant_access", tn, "elements-not-those-given-under-this-abi",
                 mon::fmt("%s (guest %s is %zu bytes, application %zu): gave {%lld %lld %lld %lld}, the sandbox's elements read {%s}", Cfg::name, tn, sizeof(G), sizeof(T), (long long)v[0], (long long)v[1], (long long)v[2], (long long)v[3], got.c_str()));
        else n_ok++;
      }
    }
    // ---- deny: the application must get the elements the sandbox holds
    {
      auto p = Wd::template tptr<T>(sb, 8192);
      for (int i = 0; i < 4; i++) p[i] = v[i];
      bool copied = false;
      T* out = nullptr;
      mon::ctx("copy_memory_or_deny_access/%s | element semantics", tn);
      bool ab = mon::aborts([&] { out = copy_memory_or_deny_access(sb, p, 4, false, copied); });
      mon::evals();
      if (ab || !out) report("copy_memory_or_deny_access", tn, "legal-request-failed", Cfg::name);
      else {
        bool same = true;
        std::string got;
        for (int i = 0; i < 4; i++) { got += mon::fmt("%lld ", (long long)out[i]); same = same && out[i] == v[i]; }
        if (!same)
          report("copy_memory_or_deny_access", tn, "elements-not-those-held-under-this-abi",
                 mon::fmt("%s (guest %s is %zu bytes, application %zu): the sandbox holds {%lld %lld %lld %lld}, the application received {%s}", Cfg::name, tn, sizeof(G), sizeof(T), (long long)v[0], (long long)v[1], (long long)v[2], (long long)v[3], got.c_str()));
        else n_ok++;
        if (copied) free(out);
      }
    }
  }
}

// unverified_safe_pointer_because(count): "a raw pointer handed back together with an element count really has that many
// whole elements inside the sandbox".  The elements a tainted pointer designates are sandbox objects (that is how [], +, ->
// and malloc_in_sandbox count them), so a count whose last sandbox element ends behind the region must abort, whatever the
// application's sizeof says; the raw pointer that comes back has the application's element type, so a count whose last
// application-sized element ends behind the region must abort too; a count for which both layouts fit must be accepted.
template<typename T>
static void usp_probe(Wd::sbx& sb, const char* tn, size_t gsz, mon::Rng& rng)
{
  const uint64_t rsize = Wd::size(sb);
  const size_t hsz = sizeof(T);
  std::vector<uint64_t> starts = { 16, gsz * 3, rsize - gsz, rsize - 7 * gsz, (rsize / 2 / gsz) * gsz };
  for (int i = 0; i < mon::tier(4, 40); i++) starts.push_back(gsz * rng.below(rsize / gsz));
  for (uint64_t off : starts) {
    uint64_t room_g = (rsize - off) / gsz, room_h = (rsize - off) / hsz;
    std::vector<uint64_t> counts = { 1, 2, room_g - 1, room_g, room_g + 1, room_h - 1, room_h, room_h + 1, room_g * 2, room_h * 2, (room_g + room_h) / 2 };
    for (uint64_t c : counts) {
      if (c == 0) continue;
      bool legal_g = c <= room_g, legal_h = c <= room_h;
      auto p = Wd::template tptr<T>(sb, off);
      mon::ctx("unverified_safe_pointer_because/%s | base+%llu count=%llu", tn, (unsigned long long)off, (unsigned long long)c);
      mon::distinct(mon::mix(mon::mix(std::hash<std::string>()(tn), off), c));
      const void* raw = nullptr;
      bool ab = mon::aborts([&] { raw = p.unverified_safe_pointer_because(c, "monitor"); });
      mon::evals();
      std::string what = mon::fmt("%s: unverified_safe_pointer_because<%s*>(start=base+%llu, count=%llu): sandbox element %zu bytes (room for %llu), application element %zu bytes (room for %llu)", Cfg::name, tn,
                                  (unsigned long long)off, (unsigned long long)c, gsz, (unsigned long long)room_g, hsz, (unsigned long long)room_h);
      if (!legal_g) { if (!ab) report("unverified_safe_pointer_because", tn, "count-exceeds-whole-sandbox-elements", what); else n_ok++; }
      else if (!legal_h) { if (!ab) report("unverified_safe_pointer_because", tn, "count-exceeds-whole-elements-of-the-returned-pointer-type", what); else n_ok++; }
      else if (legal_h) { if (ab || raw != reinterpret_cast<const void*>(Wd::base(sb) + off)) report("unverified_safe_pointer_because", tn, "legal-request-aborted", what); else n_ok++; }
    }
  }
}

int main(int argc, char** argv)
{
  mon::init("C10", argc, argv);
  mon::Rng rng(mon::seed() * 61 + 10);
  vsbx_library lib;
  lib.id = 1;
  Wd::sbx sb;
  sb.create_sandbox(&lib);
  probe<char>(sb, "char", rng);
  probe<short>(sb, "short", rng);
  probe<char16_t>(sb, "char16_t", rng);
  probe<float>(sb, "float", rng);
  probe<double>(sb, "double", rng);
  usp_probe<Pair>(sb, "struct{short,short}", sizeof(tainted_volatile<Pair, S>) == 2 * sizeof(ref::guest_t<Cfg, short>) ? 2 * sizeof(ref::guest_t<Cfg, short>) : 0, rng);
  usp_probe<short[6]>(sb, "short[6]", 6 * sizeof(ref::guest_t<Cfg, short>), rng);
  usp_probe<long[3]>(sb, "long[3]", 3 * sizeof(ref::guest_t<Cfg, long>), rng);
  usp_probe<short>(sb, "short", sizeof(ref::guest_t<Cfg, short>), rng);
  usp_probe<long>(sb, "long", sizeof(ref::guest_t<Cfg, long>), rng);
  mon::hit("element-semantics-preserved", n_ok);
  mon::distinct(0xe1e); mon::distinct(0xe1f);
  sb.destroy_sandbox();
  return mon::finish();
}
