// C10/C06 (element semantics of the bulk transfer helpers under ABIs whose short is not 16 bits): the buffers handed to
// copy_memory_or_grant_access / taken from copy_memory_or_deny_access are arrays of T; what arrives must be those elements
// as the other side sees them.  Driven on the WIDE (32-bit short) and NARROW (8-bit short) model ABIs for the element
// types the helpers accept besides the byte types.
#include "world.hpp"

using namespace rlbox;
using Cfg = CFG;
using Wd = world::W<Cfg>;
using S = Wd::S;

static uint64_t n_ok = 0;
static void report(const char* op, const char* tn, const char* cls, const std::string& d) { mon::violation(mon::fmt("C10/%s/%s/%s", op, tn, cls), d); }

template<typename T>
static void probe(Wd::sbx& sb, const char* tn, mon::Rng& rng)
{
  using G = ref::guest_t<Cfg, T>;
  for (int round = 0; round < mon::tier(4, 200); round++) {
    T v[4];
    for (auto& x : v) x = static_cast<T>(static_cast<G>(rng.interesting() & 0x7f)); // representable on both sides
    // ---- grant: the sandbox must see v[0..3]
    {
      sb.get_sandbox_impl()->brk = 4096;
      bool copied = false;
      tainted<T*, S> t = nullptr;
      mon::ctx("copy_memory_or_grant_access/%s | element semantics", tn);
      bool ab = mon::aborts([&] { t = copy_memory_or_grant_access(sb, v, 4, false, copied); });
      mon::evals();
      if (ab || !t) report("copy_memory_or_grant_access", tn, "legal-request-failed", Cfg::name);
      else {
        bool same = true;
        std::string got;
        for (int i = 0; i < 4; i++) {
          T g{};
          bool rab = mon::aborts([&] { g = t[i].UNSAFE_unverified(); });
          got += rab ? "(not representable) " : mon::fmt("%lld ", (long long)g);
          same = same && !rab && g == v[i];
        }
        if (!same)
          report("copy_memory_or_grant_access", tn, "elements-not-those-given-under-this-abi",
                 mon::fmt("%s (guest %s is %zu bytes, application %zu): gave {%lld %lld %lld %lld}, the sandbox's elements read {%s}", Cfg::name, tn, sizeof(G), sizeof(T), (long long)v[0], (long long)v[1], (long long)v[2], (long long)v[3], got.c_str()));
        else n_ok++;
      }
    }
    // ---- deny: the application must get the elements the sandbox holds
    {
      auto p = Wd::template tptr<T>(sb, 8192);
      for (int i = 0; i < 4; i++) p[i] = v[i];
      bool copied = false;
      T* out = nullptr;
      mon::ctx("copy_memory_or_deny_access/%s | element semantics", tn);
      bool ab = mon::aborts([&] { out = copy_memory_or_deny_access(sb, p, 4, false, copied); });
      mon::evals();
      if (ab || !out) report("copy_memory_or_deny_access", tn, "legal-request-failed", Cfg::name);
      else {
        bool same = true;
        std::string got;
        for (int i = 0; i < 4; i++) { got += mon::fmt("%lld ", (long long)out[i]); same = same && out[i] == v[i]; }
        if (!same)
          report("copy_memory_or_deny_access", tn, "elements-not-those-held-under-this-abi",
                 mon::fmt("%s (guest %s is %zu bytes, application %zu): the sandbox holds {%lld %lld %lld %lld}, the application received {%s}", Cfg::name, tn, sizeof(G), sizeof(T), (long long)v[0], (long long)v[1], (long long)v[2], (long long)v[3], got.c_str()));
        else n_ok++;
        if (copied) free(out);
      }
    }
  }
}

int main(int argc, char** argv)
{
  mon::init("C10", argc, argv);
  mon::Rng rng(mon::seed() * 61 + 10);
  vsbx_library lib;
  lib.id = 1;
  Wd::sbx sb;
  sb.create_sandbox(&lib);
  probe<char>(sb, "char", rng);
  probe<short>(sb, "short", rng);
  probe<char16_t>(sb, "char16_t", rng);
  probe<float>(sb, "float", rng);
  probe<double>(sb, "double", rng);
  mon::hit("element-semantics-preserved", n_ok);
  mon::distinct(0xe1e); mon::distinct(0xe1f);
  sb.destroy_sandbox();
  return mon::finish();
}
