// C05: tainted pointer arithmetic stays in the sandbox and uses the sandbox
// stride.  Oracle: target = p +/- n*s in 128-bit arithmetic, s from an
// independent guest-size table; inside => exact address, no abort; else abort.
#include "world.hpp"

using namespace rlbox;
using ref::i128;

struct PA { long a; char b; int* c; };
struct PB { char tag; long v[3]; char t2; };
// independent guest images (ILP32): sizes 12 and 20
struct GPA32 { int32_t a; char b; uint32_t c; };
struct GPB32 { char tag; int32_t v[3]; char t2; };
struct GPA64 { int64_t a; char b; uint64_t c; };
struct GPB64 { char tag; int64_t v[3]; char t2; };

#define sandbox_fields_reflection_c05_class_PA(f, g, ...) \
  f(long, a, FIELD_NORMAL, ##__VA_ARGS__) g() f(char, b, FIELD_NORMAL, ##__VA_ARGS__) g() f(int*, c, FIELD_NORMAL, ##__VA_ARGS__) g()
#define sandbox_fields_reflection_c05_class_PB(f, g, ...) \
  f(char, tag, FIELD_NORMAL, ##__VA_ARGS__) g() f(long[3], v, FIELD_NORMAL, ##__VA_ARGS__) g() f(char, t2, FIELD_NORMAL, ##__VA_ARGS__) g()
#define sandbox_fields_reflection_c05_allClasses(f, ...) f(PA, c05, ##__VA_ARGS__) f(PB, c05, ##__VA_ARGS__)
rlbox_load_structs_from_library(c05);

template<typename Cfg, typename T> struct gsize { static constexpr size_t v = sizeof(ref::guest_t<Cfg, T>); };
template<typename Cfg> struct gsize<Cfg, PA> { static constexpr size_t v = sizeof(typename Cfg::P) == 4 ? sizeof(GPA32) : sizeof(GPA64); };
template<typename Cfg> struct gsize<Cfg, PB> { static constexpr size_t v = sizeof(typename Cfg::P) == 4 ? sizeof(GPB32) : sizeof(GPB64); };
template<typename T> struct pname { static const char* n() { return ref::name<T>(); } };
template<> struct pname<PA> { static const char* n() { return "struct PA"; } };
template<> struct pname<PB> { static const char* n() { return "struct PB"; } };
template<> struct pname<int*> { static const char* n() { return "int*"; } };
template<> struct pname<int[4]> { static const char* n() { return "int[4]"; } };
template<> struct pname<long[3]> { static const char* n() { return "long[3]"; } };

enum OpK { ADD, SUB, ADDEQ, SUBEQ, PREINC, POSTINC, PREDEC, POSTDEC, INDEX, ADDR_INDEX, NOPS };
static const char* opname[] = { "+", "-", "+=", "-=", "pre++", "post++", "pre--", "post--", "[]", "&[]" };
enum NW { NPLAIN, NTAINTED, NVOL };
static const char* nwname[] = { "plain", "tainted", "tainted_volatile" };

static uint64_t n_exact = 0, n_abort = 0, n_nullabort = 0;
static bool g_big = false;

template<typename Cfg>
struct Ctx
{
  using Wd = world::W<Cfg>;
  typename Wd::sbx sb;
  vsbx_library lib;
  uintptr_t base;
  size_t size;
  uint64_t ncell; // offset of a cell for tainted_volatile index operands
  Ctx()
  {
    lib.id = 1;
    sb.create_sandbox(&lib);
    base = Wd::base(sb);
    size = Wd::size(sb);
    ncell = 24;
  }
  ~Ctx() { sb.destroy_sandbox(); }
};

static void report(const char* op, const char* cls, const char* disc, const std::string& d)
{
  mon::violation(mon::fmt("C05/%s/%s/%s", op, cls, disc), d);
}

// run one operation; returns (aborted, resulting address)
template<typename Cfg, typename T, typename N, int W>
static bool do_op(Ctx<Cfg>& c, OpK op, tainted<T*, typename Ctx<Cfg>::Wd::S> p, N n, uintptr_t& out, uintptr_t& post)
{
  using S = typename Ctx<Cfg>::Wd::S;
  using Wd = typename Ctx<Cfg>::Wd;
  out = 0;
  post = 0;
  auto body = [&](auto& nn) {
    tainted<T*, S> q = p;
    switch (op) {
      case ADD: out = reinterpret_cast<uintptr_t>((q + nn).UNSAFE_unverified()); break;
      case SUB: out = reinterpret_cast<uintptr_t>((q - nn).UNSAFE_unverified()); break;
      case ADDEQ: q += nn; out = reinterpret_cast<uintptr_t>(q.UNSAFE_unverified()); break;
      case SUBEQ: q -= nn; out = reinterpret_cast<uintptr_t>(q.UNSAFE_unverified()); break;
      case INDEX: out = reinterpret_cast<uintptr_t>(std::addressof(q[nn])); break;
      case ADDR_INDEX:
        // &tainted_volatile<struct> does not compile in this library (undrivable form)
        if constexpr (!std::is_class_v<T>) out = reinterpret_cast<uintptr_t>((&q[nn]).UNSAFE_unverified());
        else out = reinterpret_cast<uintptr_t>(std::addressof(q[nn]));
        break;
      default: break;
    }
    post = reinterpret_cast<uintptr_t>(q.UNSAFE_unverified());
  };
  return mon::aborts([&] {
    if constexpr (W == NPLAIN) {
      body(n);
    } else if constexpr (W == NTAINTED) {
      tainted<N, S> tn = n;
      body(tn);
    } else {
      using GN = ref::guest_t<Cfg, N>;
      Wd::template wr<GN>(c.sb, c.ncell, static_cast<GN>(n));
      auto& vn = *Wd::template tptr<N>(c.sb, c.ncell);
      body(vn);
    }
  });
}

template<typename Cfg, typename T>
static bool do_incdec(Ctx<Cfg>& c, OpK op, tainted<T*, typename Ctx<Cfg>::Wd::S> p, uintptr_t& ret, uintptr_t& post)
{
  using S = typename Ctx<Cfg>::Wd::S;
  (void)c;
  return mon::aborts([&] {
    tainted<T*, S> q = p;
    tainted<T*, S> r = nullptr;
    switch (op) {
      case PREINC: r = ++q; break;
      case POSTINC: r = q++; break;
      case PREDEC: r = --q; break;
      case POSTDEC: r = q--; break;
      default: break;
    }
    ret = reinterpret_cast<uintptr_t>(r.UNSAFE_unverified());
    post = reinterpret_cast<uintptr_t>(q.UNSAFE_unverified());
  });
}

template<typename Cfg, typename T, typename N, int W>
static void judge(Ctx<Cfg>& c, OpK op, uintptr_t p, N n)
{
  using Wd = typename Ctx<Cfg>::Wd;
  constexpr size_t s = gsize<Cfg, T>::v;
  if constexpr (W == NVOL) {
    using GN = ref::guest_t<Cfg, N>;
    if (!ref::fits<GN>(ref::val(n))) return; // cannot reside in sandbox memory
  }
  i128 nn = ref::val(n);
  int sign = (op == SUB || op == SUBEQ) ? -1 : 1;
  i128 prod = nn * static_cast<i128>(s);
  i128 target = static_cast<i128>(p) + sign * prod;
  bool inside = target >= static_cast<i128>(c.base) && target < static_cast<i128>(c.base) + static_cast<i128>(c.size);
  auto tp = Wd::template tptr<T>(c.sb, p - c.base);
  uintptr_t out = 0, post = 0;
  mon::ctx("%s/%s/%s %s | p=base+%llu n=%s", opname[op], pname<T>::n(), nwname[W], ref::name<N>(), (unsigned long long)(p - c.base), mon::i128s(nn).c_str());
  bool ab = do_op<Cfg, T, N, W>(c, op, tp, n, out, post);
  mon::evals();
  std::string what = mon::fmt("%s: pointee %s (guest size %zu), p=base+0x%llx, n=%s (%s %s): exact target=base%s%s, %s, result=base%+lld",
                              Cfg::name, pname<T>::n(), s, (unsigned long long)(p - c.base), mon::i128s(nn).c_str(), nwname[W], ref::name<N>(),
                              (target >= static_cast<i128>(c.base)) ? "+" : "", mon::i128s(target - static_cast<i128>(c.base)).c_str(), ab ? "aborted" : "no abort",
                              (long long)(static_cast<i128>(out) - static_cast<i128>(c.base)));
  const char* disc = "in-range-product";
  i128 two64 = static_cast<i128>(1) << 64;
  if (prod >= two64 || prod <= -two64) disc = "product-exceeds-64-bits";
  else if (target >= two64 || target < 0) disc = "address-wraps-64-bits";
  if (inside) {
    if (ab) { report(opname[op], "spurious-abort", disc, what); return; }
    if (static_cast<i128>(out) != target) { report(opname[op], "wrong-address", disc, what); return; }
    if ((op == ADDEQ || op == SUBEQ) && post != out) { report(opname[op], "operand-not-updated", disc, what); return; }
    if ((op == ADD || op == SUB || op == INDEX || op == ADDR_INDEX) && post != p) { report(opname[op], "operand-modified", disc, what); return; }
    n_exact++;
  } else {
    if (!ab) { report(opname[op], "outside-without-abort", disc, what); return; }
    n_abort++;
  }
}

template<typename Cfg, typename T>
static void judge_incdec(Ctx<Cfg>& c, OpK op, uintptr_t p)
{
  using Wd = typename Ctx<Cfg>::Wd;
  constexpr size_t s = gsize<Cfg, T>::v;
  int sign = (op == PREDEC || op == POSTDEC) ? -1 : 1;
  i128 target = static_cast<i128>(p) + sign * static_cast<i128>(s);
  bool inside = target >= static_cast<i128>(c.base) && target < static_cast<i128>(c.base) + static_cast<i128>(c.size);
  auto tp = Wd::template tptr<T>(c.sb, p - c.base);
  uintptr_t ret = 0, post = 0;
  mon::ctx("%s/%s | p=base+%llu", opname[op], pname<T>::n(), (unsigned long long)(p - c.base));
  bool ab = do_incdec<Cfg, T>(c, op, tp, ret, post);
  mon::evals();
  std::string what = mon::fmt("%s: pointee %s (guest size %zu), p=base+0x%llx: %s, returns base%+lld leaves base%+lld", Cfg::name, pname<T>::n(), s,
                              (unsigned long long)(p - c.base), ab ? "aborted" : "no abort", (long long)(ret - c.base), (long long)(post - c.base));
  if (inside) {
    if (ab) { report(opname[op], "spurious-abort", "in-range-product", what); return; }
    bool isPost = (op == POSTINC || op == POSTDEC);
    if (static_cast<i128>(post) != target) { report(opname[op], "wrong-address", "in-range-product", what); return; }
    if (ret != (isPost ? p : post)) { report(opname[op], "wrong-result", "in-range-product", what); return; }
    n_exact++;
  } else {
    if (!ab) { report(opname[op], "outside-without-abort", "in-range-product", what); return; }
    n_abort++;
  }
}

// candidate n values (as i128) for a pointer at p with stride s
static std::vector<i128> n_candidates(uintptr_t p, uintptr_t base, size_t size, size_t s, mon::Rng& rng, int nrand)
{
  std::vector<i128> c;
  i128 idx = (p - base) / s;
  i128 toend = (static_cast<i128>(base) + size - p) / s;
  for (i128 d = -3; d <= 3; d++) {
    c.push_back(d); c.push_back(idx + d); c.push_back(-idx + d); c.push_back(toend + d); c.push_back(-toend + d);
    c.push_back(static_cast<i128>(size / s) + d); c.push_back(-static_cast<i128>(size / s) + d);
    for (int b : { 7, 8, 15, 16, 31, 32, 62, 63, 64 }) {
      i128 v = static_cast<i128>(1) << b;
      c.push_back(v + d); c.push_back(-v + d);
      c.push_back(v / static_cast<i128>(s) + d); c.push_back(-(v / static_cast<i128>(s)) + d);
      // values whose product with s lands back near the pointer after wrapping
      c.push_back(v / static_cast<i128>(s) + idx + d); c.push_back(v / static_cast<i128>(s) - idx + d);
    }
  }
  for (int i = 0; i < nrand; i++) {
    c.push_back(static_cast<i128>(static_cast<int64_t>(rng.interesting())));
    c.push_back(static_cast<i128>(rng.range(-static_cast<int64_t>(size / s) - 4, size / s + 4)));
  }
  return c;
}

template<typename Cfg, typename T, typename N>
static void sweep_ntype(Ctx<Cfg>& c, const std::vector<uintptr_t>& bases, mon::Rng& rng)
{
  constexpr size_t s = gsize<Cfg, T>::v;
  for (uintptr_t p : bases) {
    auto cand = n_candidates(p, c.base, c.size, s, rng, mon::tier(4, 64));
    for (i128 v : cand) {
      if (!ref::fits<N>(v)) continue;
      N n = static_cast<N>(v);
      mon::distinct(mon::mix(mon::mix(std::hash<std::string>()(pname<T>::n()), std::hash<std::string>()(ref::name<N>())), mon::mix(p - c.base, (uint64_t)v)));
      for (int op : { ADD, SUB, ADDEQ, SUBEQ, INDEX, ADDR_INDEX }) {
        judge<Cfg, T, N, NPLAIN>(c, static_cast<OpK>(op), p, n);
        judge<Cfg, T, N, NTAINTED>(c, static_cast<OpK>(op), p, n);
        judge<Cfg, T, N, NVOL>(c, static_cast<OpK>(op), p, n);
      }
    }
  }
}

// 128-bit index types (integer types of the GNU dialect, where std::is_integral_v<__int128> holds and the library's "numeric
// types" gate lets them through): plain operands only - they have no sandbox representation
#if defined(__SIZEOF_INT128__) && !defined(__STRICT_ANSI__)
#  define C05_HAVE_INT128 1
namespace ref { template<> struct tname<__int128> { static constexpr const char* v = "__int128"; }; template<> struct tname<unsigned __int128> { static constexpr const char* v = "unsigned __int128"; }; }
template<typename Cfg, typename T, typename N>
static void sweep_ntype_wide(Ctx<Cfg>& c, const std::vector<uintptr_t>& bases, mon::Rng& rng)
{
  constexpr size_t s = gsize<Cfg, T>::v;
  for (uintptr_t p : bases) {
    auto cand = n_candidates(p, c.base, c.size, s, rng, mon::tier(4, 64));
    // and the same candidates moved beyond 64 bits: the low 64 bits alone would designate an address inside the sandbox
    size_t n0 = cand.size();
    for (size_t i = 0; i < n0; i++)
      for (int b : { 64, 65, 96 }) { cand.push_back(cand[i] + (static_cast<i128>(1) << b)); cand.push_back(cand[i] - (static_cast<i128>(1) << b)); }
    for (i128 v : cand) {
      if (std::is_unsigned_v<N> && v < 0) continue;
      N n = static_cast<N>(v);
      mon::distinct(mon::mix(mon::mix(std::hash<std::string>()(pname<T>::n()), std::hash<std::string>()(ref::name<N>())), mon::mix(p - c.base, mon::mix((uint64_t)v, (uint64_t)(v >> 64)))));
      for (int op : { ADD, SUB, ADDEQ, SUBEQ, INDEX, ADDR_INDEX }) judge<Cfg, T, N, NPLAIN>(c, static_cast<OpK>(op), p, n);
    }
  }
  mon::hit("index-types-wider-than-a-pointer");
}
#endif

template<typename Cfg, typename T>
static void sweep_pointee(Ctx<Cfg>& c, mon::Rng& rng, bool exhaustive_range)
{
  using Wd = typename Ctx<Cfg>::Wd;
  using S = typename Wd::S;
  constexpr size_t s = gsize<Cfg, T>::v;
  // the library's stride must be the guest size
  if (sizeof(tainted_volatile<T, S>) != s)
    report("stride", "sizeof-tainted_volatile-differs-from-guest-size", pname<T>::n(),
           mon::fmt("%s: sizeof(tainted_volatile<%s>)=%zu, guest size %zu", Cfg::name, pname<T>::n(), sizeof(tainted_volatile<T, S>), s));
  size_t count = c.size / s;
  std::vector<uintptr_t> bases = { c.base, c.base + s, c.base + (count - 1) * s, c.base + (count - 2) * s, c.base + (count / 2) * s };
  if (c.size % s) bases.push_back(c.base + c.size - s); // last whole element flush with the end
  for (int i = 0; i < mon::tier(2, 8); i++) bases.push_back(c.base + rng.below(count) * s);

  sweep_ntype<Cfg, T, int>(c, bases, rng);
  sweep_ntype<Cfg, T, long>(c, bases, rng);
  sweep_ntype<Cfg, T, unsigned long>(c, bases, rng);
  sweep_ntype<Cfg, T, unsigned int>(c, bases, rng);
  sweep_ntype<Cfg, T, short>(c, bases, rng);
  sweep_ntype<Cfg, T, unsigned char>(c, bases, rng);
#ifdef C05_HAVE_INT128
  sweep_ntype_wide<Cfg, T, __int128>(c, bases, rng);
  sweep_ntype_wide<Cfg, T, unsigned __int128>(c, bases, rng);
#endif
  if (mon::thorough()) {
    sweep_ntype<Cfg, T, signed char>(c, bases, rng);
    sweep_ntype<Cfg, T, char>(c, bases, rng);
    sweep_ntype<Cfg, T, unsigned short>(c, bases, rng);
    sweep_ntype<Cfg, T, long long>(c, bases, rng);
    sweep_ntype<Cfg, T, unsigned long long>(c, bases, rng);
  }
  for (uintptr_t p : bases)
    for (int op : { PREINC, POSTINC, PREDEC, POSTDEC }) judge_incdec<Cfg, T>(c, static_cast<OpK>(op), p);

  if (exhaustive_range && !g_big) {
    // every n in [-(count)-8, count+8] from three bases, plain int64 index
    int64_t lim = static_cast<int64_t>(count) + 8;
    std::vector<uintptr_t> eb = { c.base, c.base + (count - 1) * s, c.base + (count / 3) * s };
    for (uintptr_t p : eb)
      for (int64_t n = -lim; n <= lim; n++) {
        judge<Cfg, T, long, NPLAIN>(c, ADD, p, n);
        judge<Cfg, T, long, NPLAIN>(c, SUB, p, n);
        judge<Cfg, T, long, NPLAIN>(c, ADDR_INDEX, p, n);
      }
    mon::distinct_counted(3 * (2 * lim + 1));
    mon::hit("exhaustive-n-range-pointees");
  }

  // null base: + and - forms must abort
  {
    tainted<T*, S> nullp = nullptr;
    for (long n : { 0L, 1L, -1L, 1000L }) {
      bool a1 = mon::aborts([&] { auto q = nullp + n; (void)q; });
      bool a2 = mon::aborts([&] { auto q = nullp - n; (void)q; });
      bool a3 = mon::aborts([&] { auto q = nullp; q += n; });
      bool a4 = mon::aborts([&] { auto q = nullp; q -= n; });
      bool a5 = mon::aborts([&] { auto q = nullp; ++q; });
      bool a6 = mon::aborts([&] { auto q = nullp; q--; });
      mon::evals(6);
      if (a1 && a2 && a3 && a4 && a5 && a6) n_nullabort += 6;
      else report("null-base", "no-abort", pname<T>::n(), mon::fmt("n=%ld: + %d, - %d, += %d, -= %d, ++ %d, -- %d (1 = aborted)", n, a1, a2, a3, a4, a5, a6));
    }
  }
  static int ns = 0;
  if (ns++ < 5) mon::sample(mon::fmt("{\"abi\":\"%s\",\"pointee\":\"%s\",\"guest_stride\":%zu,\"host_sizeof\":%zu,\"bases\":%zu}", Cfg::name, pname<T>::n(), s, sizeof(T), bases.size()));
}

template<typename Cfg>
static void run_cfg(mon::Rng& rng)
{
  Ctx<Cfg> c;
  // pointee groups are separate binaries (-DGROUP=n) so they compile in parallel
#if GROUP == 0
  sweep_pointee<Cfg, char>(c, rng, false);
  sweep_pointee<Cfg, int>(c, rng, true);
  sweep_pointee<Cfg, double>(c, rng, false);
#elif GROUP == 1
  sweep_pointee<Cfg, short>(c, rng, false);
  sweep_pointee<Cfg, long>(c, rng, mon::thorough());
  sweep_pointee<Cfg, PB>(c, rng, false);
#elif GROUP == 2
  sweep_pointee<Cfg, long long>(c, rng, false);
  sweep_pointee<Cfg, int*>(c, rng, mon::thorough());
  sweep_pointee<Cfg, int[4]>(c, rng, false);
#else
  sweep_pointee<Cfg, float>(c, rng, false);
  sweep_pointee<Cfg, long[3]>(c, rng, true);
  sweep_pointee<Cfg, PA>(c, rng, true);
#endif
  mon::hit(std::string("abi/") + Cfg::name);
}

int main(int argc, char** argv)
{
  mon::init("C05", argc, argv);
  mon::require("exact-address-expected-and-observed");
  mon::require("abort-expected-and-observed");
  mon::require("null-base-abort-observed");
  mon::Rng rng(mon::seed() + 5);
  // "big": a 4 GiB region, so that element counts and byte offsets reach 2^31..2^32
  if (argc > 1 && !strcmp(argv[1], "big")) { Ctx<CFG>::Wd::S::region_size = size_t(1) << 32; Ctx<CFG>::Wd::S::commit_size = size_t(1) << 20; g_big = true; mon::hit("four-gib-region-runs"); }
  run_cfg<CFG>(rng);
  mon::hit("exact-address-expected-and-observed", n_exact);
  mon::hit("abort-expected-and-observed", n_abort);
  mon::hit("null-base-abort-observed", n_nullabort);
  return mon::finish();
}
