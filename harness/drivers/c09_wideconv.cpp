// C09/C06 on an ABI that is WIDER than the host (WIDE: guest int and long are 64 bits): a load from sandbox memory narrows the
// guest value with a range check.  The access-trap interleaver rewrites the cell to an unrepresentable value immediately
// before each individual access RLBox makes to it; what the application receives must be a value the cell actually held
// and that is representable -- or the load aborts.  A value that appears nowhere (a truncation of the second content that
// passed the check made on the first) is a check/use window inside the conversion.
#include "world.hpp"
#include "trap.hpp"

using namespace rlbox;
using Cfg = vsbx_wide;
using Wd = world::W<Cfg>;
using S = Wd::S;

static uint64_t n_ok = 0, n_abort = 0, n_interleavings = 0;
static void report(const char* op, const char* cls, const std::string& d) { mon::violation(mon::fmt("C09/wide-abi/%s/%s", op, cls), d); }

struct Adv { uintptr_t addr; int64_t val; };
static void adversary(void* p) { auto a = static_cast<Adv*>(p); memcpy(reinterpret_cast<void*>(a->addr), &a->val, 8); }

template<typename F>
static void variant(Wd::sbx& sb, const char* name, uint64_t off, F&& load, int64_t lo = INT32_MIN, int64_t hi = INT32_MAX)
{
  const int64_t A = 5;
  const int64_t Bs[] = { (int64_t(1) << 32) + 7, -(int64_t(1) << 33) - 9, int64_t(0x7fffffff) + 1, 6 };
  uintptr_t addr = Wd::base(sb) + off;
  // calibration
  memcpy(reinterpret_cast<void*>(addr), &A, 8);
  trap::arm(-1, nullptr, nullptr);
  long long got0 = 0;
  bool ab0 = mon::aborts([&] { got0 = load(); });
  int N = trap::disarm();
  mon::evals();
  if (ab0 || got0 != A) { report(name, "undisturbed-load-wrong", mon::fmt("got %lld aborted=%d", got0, ab0)); return; }
  mon::distinct(mon::mix(std::hash<std::string>()(name), N));
  mon::sample(mon::fmt("{\"variant\":\"%s\",\"accesses_to_the_cell\":%d}", name, N));
  for (int k = 0; k < N; k++)
    for (int64_t B : Bs) {
      memcpy(reinterpret_cast<void*>(addr), &A, 8);
      Adv adv{ addr, B };
      long long got = 0;
      mon::ctx("%s | cell rewritten to %lld before access %d of %d", name, (long long)B, k, N);
      trap::arm(k, adversary, &adv);
      bool ab = mon::aborts([&] { got = load(); });
      trap::disarm();
      mon::evals();
      n_interleavings++;
      if (ab) { n_abort++; continue; }
      bool b_rep = B >= lo && B <= hi;
      if (got == A || (b_rep && got == B)) { n_ok++; continue; }
      report(name, "delivered-value-never-held-by-the-cell",
             mon::fmt("the cell held %lld, then %lld (written immediately before access %d of %d): the application received %lld without an abort", (long long)A, (long long)B, k, N, got));
    }
  // the roles swapped: the cell first holds a value the application type cannot represent and is rewritten to a small one
  // between two reads - a check made on the second read must not vouch for a value taken from the first
  const int64_t Bigs[] = { (int64_t(1) << 32) + 7, static_cast<int64_t>(0xFFFFFFFFFFFFFFF7ull), (int64_t(1) << 40) + 3 };
  for (int k = 1; k < N; k++)
    for (int64_t Big : Bigs) {
      if (Big >= lo && Big <= hi) continue;
      memcpy(reinterpret_cast<void*>(addr), &Big, 8);
      Adv adv{ addr, 6 };
      long long got = 0;
      mon::ctx("%s | cell holds %lld (not representable) and is rewritten to 6 before access %d of %d", name, (long long)Big, k, N);
      trap::arm(k, adversary, &adv);
      bool ab = mon::aborts([&] { got = load(); });
      trap::disarm();
      mon::evals();
      n_interleavings++;
      if (ab) { n_abort++; continue; }
      if (got == 6) { n_ok++; continue; }
      report(name, "delivered-value-never-held-by-the-cell",
             mon::fmt("the cell held %lld, then 6 (written immediately before access %d of %d): the application received %lld without an abort", (long long)Big, k, N, got));
    }
}

int main(int argc, char** argv)
{
  mon::init("C09", argc, argv);
  mon::require("wide-abi/interleavings");
  vsbx_library lib;
  lib.id = 1;
  Wd::sbx sb;
  sb.create_sandbox(&lib);
  trap::install(Wd::base(sb), Wd::size(sb));
  trap::st.foreign_fault = mon::crash_handler;
  auto p = Wd::tptr<int>(sb, 4096);
  variant(sb, "load-to-tainted", 4096, [&]() -> long long { tainted<int, S> t = *p; return t.UNSAFE_unverified(); });
  variant(sb, "UNSAFE_unverified", 4096, [&]() -> long long { return (*p).UNSAFE_unverified(); });
  variant(sb, "copy_and_verify-volatile", 4096, [&]() -> long long { return (*p).copy_and_verify([](int v) { return v; }); });
  variant(sb, "copy_and_verify-pointer", 4096, [&]() -> long long { return p.copy_and_verify([](std::unique_ptr<int> v) { return *v; }); });
  variant(sb, "copy_and_verify_range", 4096, [&]() -> long long { return p.copy_and_verify_range([](std::unique_ptr<int[]> v) { return v[0]; }, 1); });
  auto pl = Wd::tptr<unsigned int>(sb, 4104);
  variant(sb, "load-unsigned", 4104, [&]() -> long long { tainted<unsigned int, S> t = *pl; return static_cast<long long>(t.UNSAFE_unverified()); }, 0, int64_t(UINT32_MAX));
  mon::hit("wide-abi/interleavings", n_interleavings);
  mon::hit("wide-abi/consistent-value", n_ok);
  mon::hit("wide-abi/abort", n_abort);
  sb.destroy_sandbox();
  return mon::finish();
}
