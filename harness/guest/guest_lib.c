/* Guest shared object for the dylib backend (built twice: -DLIBID=1 / 2).
 * Every function reports (library id, function id, argument) through a log
 * the host reads with guest_log_*; same names in both libraries. */
#include <stdint.h>
#include <string.h>
#ifndef LIBID
#define LIBID 1
#endif
struct gev { int lib; int fn; long a0; long a1; };
static struct gev g_log[256];
static int g_n = 0;
static void lg(int fn, long a0, long a1) { if (g_n < 256) { g_log[g_n].lib = LIBID; g_log[g_n].fn = fn; g_log[g_n].a0 = a0; g_log[g_n].a1 = a1; g_n++; } }
int guest_log_count(void) { return g_n; }
void guest_log_clear(void) { g_n = 0; }
long guest_log_get(int i, int field) { if (i < 0 || i >= g_n) return -1; switch (field) { case 0: return g_log[i].lib; case 1: return g_log[i].fn; case 2: return g_log[i].a0; default: return g_log[i].a1; } }
int lib_id(void) { lg(1, 0, 0); return LIBID; }
long add(long a, long b) { lg(2, a, b); return a + b + (LIBID - 1) * 1000; }
int call_cb(int (*cb)(int), int x) { int r = cb(x); lg(3, x, r); return r; }
int call_cb_twice(int (*cb)(int), int x) { int r = cb(x); r += cb(x + 1); lg(4, x, r); return r; }
long echo_long(long x) { lg(5, x, 0); return x; }
void* echo_ptr(void* p) { lg(6, (long)(intptr_t)p, 0); return p; }
unsigned long slen(const char* s) { lg(7, 0, 0); return strlen(s); }
/* nested: calls cb, which may invoke back into a sandbox */
int nest(int (*cb)(int), int depth) { int r; lg(8, depth, 0); r = cb(depth); r += cb(-1 - depth); return r; }
long call_cb_l(long (*cb)(long, char), long a, char c) { long r = cb(a, c); lg(9, a, r); return r; }
void* call_cb_p(void* (*cb)(void*), void* p) { void* r = cb(p); lg(10, (long)(intptr_t)p, (long)(intptr_t)r); return r; }
double call_cb_d(double (*cb)(double, float), double d, float f) { double r = cb(d, f); lg(11, 0, 0); return r; }
void call_cb_v(void (*cb)(int), int x) { cb(x); lg(12, x, 0); }
unsigned long long call_cb_u(unsigned long long (*cb)(unsigned long long), unsigned long long x) { unsigned long long r = cb(x); lg(13, (long)x, (long)r); return r; }
/* quiet variants (no shared log) for the multi-threaded workloads */
long add_q(long a, long b) { return a + b + (LIBID - 1) * 1000; }
int call_cb_q(int (*cb)(int), int x) { return cb(x); }
int lib_id_q(void) { return LIBID; }
/* a renamed entry point (the library's header says '#define api api_v2') next to its legacy version, and a plain one */
int api(int x) { lg(20, x, 0); return x; }
long api_v2(long a, long b) { lg(21, a, b); return a * 1000 + b; }
long plain_fn(long a) { lg(22, a, 0); return a + 7; }
/* a function that reaches ANOTHER default-visibility symbol of its own library (calls through the PLT, a global through the GOT):
 * which library's helper answers depends on how the library was loaded, not only on which entry point was looked up */
int guest_via_count = 0;
int helper_id(void) { return LIBID; }
long via_helper(long x) { guest_via_count++; return x * 10 + helper_id(); }
