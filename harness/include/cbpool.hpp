#pragma once
// Pools of distinct application callbacks (one function per index) for the
// history explorers (C12, C13, C14).
#include <array>
#include <cstdint>
#include <utility>

namespace cbpool {
struct RunLog
{
  int last_fn = -1;      // index of the function that ran last
  int runs = 0;          // runs since reset
  void* sandbox = nullptr; // sandbox reference it received
  long arg = 0;
  void reset() { last_fn = -1; runs = 0; sandbox = nullptr; arg = 0; }
};
inline thread_local RunLog runlog;

template<typename SbxT, int I>
rlbox::tainted<int, SbxT> fn(rlbox::rlbox_sandbox<SbxT>& sb, rlbox::tainted<int, SbxT> x)
{
  runlog.last_fn = I;
  runlog.runs++;
  runlog.sandbox = &sb;
  runlog.arg = x.UNSAFE_unverified();
  return x + I;
}
template<typename SbxT>
using fn_t = rlbox::tainted<int, SbxT> (*)(rlbox::rlbox_sandbox<SbxT>&, rlbox::tainted<int, SbxT>);

template<typename SbxT, int... Is>
constexpr std::array<fn_t<SbxT>, sizeof...(Is)> make(std::integer_sequence<int, Is...>)
{
  return { { &fn<SbxT, Is>... } };
}
template<typename SbxT, int N>
inline const std::array<fn_t<SbxT>, N>& pool()
{
  static const std::array<fn_t<SbxT>, N> p = make<SbxT>(std::make_integer_sequence<int, N>{});
  return p;
}
}
