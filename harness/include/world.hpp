#pragma once
// Shared driver scaffolding for the model backend: sandbox aliases, raw
// (guest-view) memory access, forging tainted pointers, guest event log,
// generic guest functions, invoke-by-name helper.
//
// Drivers define RLBOX_USE_EXCEPTIONS (or another abort mode) on the command
// line; this header only includes RLBox and the model.

#include "mon.hpp"
#include "ref.hpp"

#include "rlbox.hpp"
#include "rlbox_vsbx_sandbox.hpp"

#include <cstring>
#include <string>
#include <vector>

namespace world {

using namespace rlbox;

// ------------------------------------------------------------ guest event log
struct GEvent
{
  int lib = 0;
  const char* fn = "";
  int nargs = 0;
  uint64_t a[14] = { 0 };      // integer / pointer args zero- or sign-extended
  double f[4] = { 0, 0, 0, 0 }; // floating args
  void* instance = nullptr;  // backend instance that was current
};
inline thread_local std::vector<GEvent> glog;
inline thread_local int cur_lib = 0; // set by library thunks where relevant

template<typename Cfg>
struct W
{
  using S = rlbox_vsbx_sandbox<Cfg>;
  using sbx = rlbox_sandbox<S>;
  using P = typename Cfg::P;
  template<typename T> using G = ref::guest_t<Cfg, T>;
  template<typename T> using T_ = tainted<T, S>;
  template<typename T> using TV_ = tainted_volatile<T, S>;

  static uintptr_t base(sbx& sb) { return reinterpret_cast<uintptr_t>(sb.get_memory_location()); }
  static size_t size(sbx& sb) { return sb.get_total_memory(); }
  static bool inside(sbx& sb, const void* p)
  {
    auto v = reinterpret_cast<uintptr_t>(p);
    return v >= base(sb) && v - base(sb) < size(sb);
  }
  // forge a tainted pointer to an arbitrary in-region offset through the
  // library's own checked entry point
  template<typename T>
  static tainted<T*, S> tptr(sbx& sb, uint64_t off)
  {
    return sb.template UNSAFE_accept_pointer<T*>(reinterpret_cast<T*>(base(sb) + off));
  }
  // guest-view raw access (memcpy: no alignment or aliasing assumptions)
  template<typename Gt>
  static Gt rd(sbx& sb, uint64_t off)
  {
    Gt v;
    std::memcpy(&v, reinterpret_cast<const void*>(base(sb) + off), sizeof(Gt));
    return v;
  }
  template<typename Gt>
  static void wr(sbx& sb, uint64_t off, Gt v)
  {
    std::memcpy(reinterpret_cast<void*>(base(sb) + off), &v, sizeof(Gt));
  }
  static void fill(sbx& sb, mon::Rng& r, uint64_t off, size_t len)
  {
    auto p = reinterpret_cast<unsigned char*>(base(sb) + off);
    for (size_t i = 0; i < len; i++) p[i] = static_cast<unsigned char>(r());
  }
  static void reset_alloc(sbx& sb) { sb.get_sandbox_impl()->brk = 16; }

  template<typename Sig, typename... A>
  static auto invoke(sbx& sb, const char* name, A&&... a)
  {
    return sb.template INTERNAL_invoke_with_func_name<Sig>(name, std::forward<A>(a)...);
  }

  // ---------------------------------------------------- generic guest code
  // per-(type) override of what the guest returns
  template<typename Gt>
  struct ret_override
  {
    static inline thread_local bool on = false;
    static inline thread_local Gt value{};
  };

  template<typename Gt>
  static uint64_t widen(Gt v)
  {
    if constexpr (std::is_floating_point_v<Gt>) {
      uint64_t r = 0;
      std::memcpy(&r, &v, sizeof(Gt));
      return r;
    } else if constexpr (std::is_enum_v<Gt>) {
      return static_cast<uint64_t>(static_cast<int64_t>(static_cast<std::underlying_type_t<Gt>>(v)));
    } else {
      return static_cast<uint64_t>(static_cast<int64_t>(v)); // sign-extends signed
    }
  }

  template<typename Gt>
  static Gt g_echo(Gt x)
  {
    GEvent e;
    e.fn = "echo";
    e.nargs = 1;
    e.a[0] = widen(x);
    e.instance = S::current();
    e.lib = S::current() && S::current()->lib ? S::current()->lib->id : -1;
    glog.push_back(e);
    if (ret_override<Gt>::on) return ret_override<Gt>::value;
    return x;
  }

  // guest calls callback `cb` (slot representation) with x, returns result
  template<typename Gt>
  static Gt g_call_cb(P cb, Gt x)
  {
    S* s = S::current();
    Gt r = s->template call_indirect<Gt, Gt>(static_cast<uint64_t>(cb), x);
    GEvent e;
    e.fn = "call_cb.ret";
    e.nargs = 2;
    e.a[0] = widen(x);
    e.a[1] = widen(r);
    e.instance = s;
    glog.push_back(e);
    return r;
  }
};

} // namespace world
