#pragma once
// E9 -- independent references: guest type mapping per ABI configuration,
// 128-bit representability, boundary value sets, type names.
// Nothing in here includes or consults RLBox.

#include <cstdint>
#include <limits>
#include <string>
#include <type_traits>
#include <vector>

namespace ref {

using i128 = __int128;
using u128 = unsigned __int128;

// ---------------------------------------------------------------- type names
template<typename T> struct tname { static constexpr const char* v = "?"; };
#define REF_TNAME(T) template<> struct tname<T> { static constexpr const char* v = #T; }
REF_TNAME(bool); REF_TNAME(char); REF_TNAME(signed char); REF_TNAME(unsigned char);
REF_TNAME(short); REF_TNAME(unsigned short); REF_TNAME(int); REF_TNAME(unsigned int);
REF_TNAME(long); REF_TNAME(unsigned long); REF_TNAME(long long); REF_TNAME(unsigned long long);
REF_TNAME(char16_t); REF_TNAME(char32_t); REF_TNAME(wchar_t); REF_TNAME(float); REF_TNAME(double);
#undef REF_TNAME
template<typename T> constexpr const char* name() { return tname<std::remove_cv_t<T>>::v; }

// ------------------------------------------------- guest type of an app type
// Cfg provides S (short), I (int), L (long), LL (long long), P (pointer repr).
template<typename Cfg, typename T, typename = void> struct guest { using type = T; };
template<typename Cfg> struct guest<Cfg, short> { using type = typename Cfg::S; };
template<typename Cfg> struct guest<Cfg, unsigned short> { using type = std::make_unsigned_t<typename Cfg::S>; };
template<typename Cfg> struct guest<Cfg, int> { using type = typename Cfg::I; };
template<typename Cfg> struct guest<Cfg, unsigned int> { using type = std::make_unsigned_t<typename Cfg::I>; };
template<typename Cfg> struct guest<Cfg, long> { using type = typename Cfg::L; };
template<typename Cfg> struct guest<Cfg, unsigned long> { using type = std::make_unsigned_t<typename Cfg::L>; };
template<typename Cfg> struct guest<Cfg, long long> { using type = typename Cfg::LL; };
template<typename Cfg> struct guest<Cfg, unsigned long long> { using type = std::make_unsigned_t<typename Cfg::LL>; };
// char16_t / char32_t are unsigned 16/32-bit integer types; the library maps
// every unsigned type through its signed counterpart (short / int)
template<typename Cfg> struct guest<Cfg, char16_t> { using type = std::make_unsigned_t<typename Cfg::S>; };
template<typename Cfg> struct guest<Cfg, char32_t> { using type = std::make_unsigned_t<typename Cfg::I>; };
// wchar_t is signed here and travels as the signed integer type of its size (int)
template<typename Cfg> struct guest<Cfg, wchar_t> { using type = typename Cfg::I; };
template<typename Cfg, typename T> struct guest<Cfg, T*> { using type = typename Cfg::P; };
template<typename Cfg, typename T> struct guest<Cfg, const T, std::enable_if_t<!std::is_pointer_v<T>>>
{ using type = const typename guest<Cfg, T>::type; };
template<typename Cfg, typename T, size_t N> struct guest<Cfg, T[N]> { using type = typename guest<Cfg, T>::type[N]; };
template<typename Cfg, typename T> using guest_t = typename guest<Cfg, T>::type;

// ------------------------------------------------------- integer semantics
template<typename T> constexpr i128 lo() { return static_cast<i128>(std::numeric_limits<T>::min()); }
template<typename T> constexpr i128 hi() { return static_cast<i128>(std::numeric_limits<T>::max()); }
template<typename T> constexpr bool fits(i128 v) { return v >= lo<T>() && v <= hi<T>(); }
template<typename T> constexpr i128 val(T v) { return static_cast<i128>(v); }

// boundary set for values of type T (all representable in T)
template<typename T>
inline std::vector<T> boundaries()
{
  std::vector<i128> c = { 0, 1, 2, -1, -2, 127, 128, 129, -127, -128, -129, 255, 256, 257,
                          32767, 32768, 32769, -32767, -32768, -32769, 65535, 65536, 65537 };
  for (int b = 0; b < 64; b++) {
    i128 p = static_cast<i128>(1) << b;
    c.push_back(p - 1); c.push_back(p); c.push_back(p + 1);
    c.push_back(-p - 1); c.push_back(-p); c.push_back(-p + 1);
  }
  c.push_back(hi<T>()); c.push_back(hi<T>() - 1); c.push_back(lo<T>()); c.push_back(lo<T>() + 1);
  c.push_back((static_cast<i128>(1) << 64) - 1);
  std::vector<T> out;
  for (auto v : c) {
    if (!fits<T>(v)) continue;
    if (std::is_same_v<T, bool> && v > 1) continue;
    T t = static_cast<T>(v);
    bool dup = false;
    for (auto o : out) if (o == t) { dup = true; break; }
    if (!dup) out.push_back(t);
  }
  return out;
}

// 64-bit "interesting" values as i128 candidates, signed and unsigned views
inline std::vector<i128> wide_boundaries()
{
  std::vector<i128> c;
  for (int b = 0; b <= 64; b++) {
    i128 p = static_cast<i128>(1) << b;
    for (int d = -2; d <= 2; d++) { c.push_back(p + d); c.push_back(-p + d); }
  }
  c.push_back(0);
  return c;
}

} // namespace ref
