#pragma once
// RLBox's shared-lock customisation point wrapped so that every acquisition/release is followed by a PRNG-driven yield or
// short sleep (between critical sections, never inside one) and contention is counted.  Include before any RLBox header.
#include <atomic>
#include <shared_mutex>
#include <thread>
namespace c18 {
inline std::atomic<uint64_t> contended_shared{ 0 }, contended_unique{ 0 }, acquisitions{ 0 };
inline thread_local uint64_t yield_state = 88172645463325252ULL;
inline void maybe_yield()
{
  // PRNG-driven delay between critical sections (never inside one)
  yield_state ^= yield_state << 13; yield_state ^= yield_state >> 7; yield_state ^= yield_state << 17;
  if ((yield_state & 7) == 0) std::this_thread::yield();
  else if ((yield_state & 127) == 1) std::this_thread::sleep_for(std::chrono::microseconds(yield_state % 50));
}
struct Lock { std::shared_timed_mutex m; };
struct SharedGuard
{
  Lock& l;
  explicit SharedGuard(Lock& ll) : l(ll)
  {
    maybe_yield();
    if (!l.m.try_lock_shared()) { contended_shared.fetch_add(1, std::memory_order_relaxed); l.m.lock_shared(); }
    acquisitions.fetch_add(1, std::memory_order_relaxed);
  }
  ~SharedGuard() { l.m.unlock_shared(); maybe_yield(); }
};
struct UniqueGuard
{
  Lock& l;
  explicit UniqueGuard(Lock& ll) : l(ll)
  {
    maybe_yield();
    if (!l.m.try_lock()) { contended_unique.fetch_add(1, std::memory_order_relaxed); l.m.lock(); }
    acquisitions.fetch_add(1, std::memory_order_relaxed);
  }
  ~UniqueGuard() { l.m.unlock(); maybe_yield(); }
};
}
#define RLBOX_USE_CUSTOM_SHARED_LOCK
#define RLBOX_SHARED_LOCK(name) ::c18::Lock name
#define RLBOX_ACQUIRE_SHARED_GUARD(name, ...) ::c18::SharedGuard name(__VA_ARGS__)
#define RLBOX_ACQUIRE_UNIQUE_GUARD(name, ...) ::c18::UniqueGuard name(__VA_ARGS__)
