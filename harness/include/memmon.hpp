#pragma once
// E4 -- memory monitors for the model backend: whole-region byte diff against
// "snapshot (+) expected footprint image", ASan manual poisoning of everything
// outside the permitted footprint, reference little-endian encoders.
#include "mon.hpp"
#include "ref.hpp"

#include <cstring>
#include <vector>

#if MON_ASAN
#  include <sanitizer/asan_interface.h>
#else
#  ifndef ASAN_POISON_MEMORY_REGION
#    define ASAN_POISON_MEMORY_REGION(a, s) ((void)(a), (void)(s))
#    define ASAN_UNPOISON_MEMORY_REGION(a, s) ((void)(a), (void)(s))
#  endif
#endif

namespace memmon {

struct Region
{
  uintptr_t base = 0;
  size_t size = 0;
  std::vector<unsigned char> snap;
  bool poisoned = false;

  void attach(uintptr_t b, size_t s)
  {
    base = b;
    size = s;
    snap.resize(s);
  }
  unsigned char* mem() const { return reinterpret_cast<unsigned char*>(base); }

  // randomise [lo,hi) (clipped to the region)
  void randomize(mon::Rng& r, int64_t lo, int64_t hi)
  {
    if (lo < 0) lo = 0;
    if (hi > static_cast<int64_t>(size)) hi = size;
    for (int64_t i = lo; i < hi; i++) mem()[i] = static_cast<unsigned char>(r());
  }
  void snapshot() { std::memcpy(snap.data(), mem(), size); }

  // permitted footprint [off, off+len): poison everything else for the
  // duration of the access (left edge exact only for 8-aligned off)
  void poison_except(uint64_t off, size_t len)
  {
    ASAN_POISON_MEMORY_REGION(mem(), size);
    if (len) ASAN_UNPOISON_MEMORY_REGION(mem() + off, len);
    poisoned = true;
  }
  // two permitted ranges
  void poison_except2(uint64_t off1, size_t len1, uint64_t off2, size_t len2)
  {
    ASAN_POISON_MEMORY_REGION(mem(), size);
    if (len1) ASAN_UNPOISON_MEMORY_REGION(mem() + off1, len1);
    if (len2) ASAN_UNPOISON_MEMORY_REGION(mem() + off2, len2);
    poisoned = true;
  }
  void unpoison()
  {
    ASAN_UNPOISON_MEMORY_REGION(mem(), size);
    poisoned = false;
  }

  // compare region with snapshot patched by expect[0..len) at off.
  // returns -1 if equal, else first differing offset
  int64_t diff(uint64_t off, const unsigned char* expect, size_t len) const
  {
    const unsigned char* m = mem();
    if (off > 0 && std::memcmp(m, snap.data(), off) != 0) {
      for (uint64_t i = 0; i < off; i++)
        if (m[i] != snap[i]) return static_cast<int64_t>(i);
    }
    for (size_t i = 0; i < len; i++)
      if (m[off + i] != expect[i]) return static_cast<int64_t>(off + i);
    uint64_t tail = off + len;
    if (tail < size && std::memcmp(m + tail, snap.data() + tail, size - tail) != 0) {
      for (uint64_t i = tail; i < size; i++)
        if (m[i] != snap[i]) return static_cast<int64_t>(i);
    }
    return -1;
  }
  // region unchanged?
  int64_t diff_none() const { return diff(0, nullptr, 0); }
};

// reference little-endian two's-complement encoding of an integer value
inline void enc_int(unsigned char* out, size_t nbytes, ref::i128 v)
{
  unsigned __int128 u = static_cast<unsigned __int128>(v);
  for (size_t i = 0; i < nbytes; i++) {
    out[i] = static_cast<unsigned char>(u & 0xff);
    u >>= 8;
  }
}
inline ref::i128 dec_int(const unsigned char* in, size_t nbytes, bool is_signed)
{
  unsigned __int128 u = 0;
  for (size_t i = 0; i < nbytes; i++) u |= static_cast<unsigned __int128>(in[i]) << (8 * i);
  if (is_signed && nbytes < 16 && (in[nbytes - 1] & 0x80)) u |= ~static_cast<unsigned __int128>(0) << (8 * nbytes);
  return static_cast<ref::i128>(u);
}
inline std::string hex(const unsigned char* p, size_t n)
{
  std::string s;
  for (size_t i = 0; i < n; i++) s += mon::fmt("%02x", p[i]);
  return s;
}

} // namespace memmon
