#pragma once
// C08 core: generic struct-marshalling tests over generated structs.  The
// generator (gen/structs.py) emits for every struct S: the application
// struct, an independent guest image template G<Cfg> (fixed-width members
// chosen from the ABI configuration only), RLBox's reflection macros, and a
// Traits<S> specialization that enumerates the leaf fields of a
// tainted<S>/guest-image pair and of a tainted_volatile<S>, plus the layout
// (offset, size) the generator computed in Python for each ABI.
#include "world.hpp"
#include "memmon.hpp"

#include <functional>

namespace c08 {
using namespace rlbox;
using ref::i128;

template<typename S> struct Traits; // generated
enum E8 { E8_A, E8_B, E8_C };
enum class E64 : unsigned long long { A = 0, B = 1ull << 40, C = 0x123456789aull, D = 0x8000000000000005ull, E = 0x7fffffffffffffffull };
struct LeafLayout { std::string name; size_t offset; size_t size; };
struct Layout { size_t size; size_t align; std::vector<LeafLayout> leaves; };

using Cfg = CFG;
using Wd = world::W<Cfg>;
using Sbx = Wd::S;
using P = typename Cfg::P;

struct Env
{
  Wd::sbx sb;
  vsbx_library lib;
  memmon::Region R;
  tainted<int (*)(int), Sbx> fnaddr = nullptr;
  uint64_t fn_repr = 0;
};
inline Env* E;
inline typename Cfg::I dummy_guest_fn(typename Cfg::I x) { return x; }
inline char dummy_internal;

inline uint64_t n_layout_ok = 0, n_store_ok = 0, n_load_ok = 0, n_arg_ok = 0, n_ret_ok = 0, n_abort_ok = 0, n_cv_ok = 0;
inline void report(const char* sname, const char* what, const char* cls, const std::string& d) { mon::violation(mon::fmt("C08/%s/%s/%s", what, cls, sname), d); }

// ----------------------------------------------------------------- registry
struct Reg { const char* name; void (*run)(mon::Rng&); void (*add_exports)(vsbx_library&); };
inline std::vector<Reg>& regs() { static std::vector<Reg> r; return r; }
struct RegAdder { RegAdder(const char* n, void (*run)(mon::Rng&), void (*ae)(vsbx_library&)) { regs().push_back({ n, run, ae }); } };

// ------------------------------------------------------------ value sources
// to-sandbox direction: application values (unique per leaf) representable in the guest type
template<typename T, typename GT>
inline T gen_app_value(mon::Rng& r, int leaf, int mode)
{
  if constexpr (std::is_same_v<T, bool>) return mode == 0 ? (leaf & 1) : r.coin();
  else if constexpr (std::is_enum_v<T> && sizeof(T) == 8) { static const unsigned long long vs[] = { 0, 1ull << 40, 0x123456789aull, 0x8000000000000005ull, 0x7fffffffffffffffull }; return static_cast<T>(vs[(leaf + r.below(5)) % 5]); }
  else if constexpr (std::is_enum_v<T>) return static_cast<T>((leaf + static_cast<int>(r.below(3))) % 3);
  else if constexpr (std::is_floating_point_v<T>) return mode == 0 ? static_cast<T>(1000 + leaf) + static_cast<T>(0.25) : static_cast<T>(static_cast<double>(static_cast<int64_t>(r())) / 7.0);
  else {
    // integers: a pattern that makes every byte of the guest encoding distinct per leaf
    i128 lo = ref::lo<GT>() > ref::lo<T>() ? ref::lo<GT>() : ref::lo<T>(), hi = ref::hi<GT>() < ref::hi<T>() ? ref::hi<GT>() : ref::hi<T>();
    i128 v;
    if (mode == 0) {
      unsigned __int128 pat = 0;
      for (size_t b = 0; b < sizeof(GT); b++) pat |= static_cast<unsigned __int128>((0x11 * (b + 1) + leaf * 7) & 0x7f) << (8 * b);
      v = static_cast<i128>(pat);
    } else if (mode == 1) {
      i128 c[] = { lo, hi, 0, -1, 1, lo + 1, hi - 1 };
      v = c[r.below(7)];
    } else v = static_cast<i128>(static_cast<int64_t>(r.interesting()));
    if (v < lo || v > hi) {
      unsigned __int128 span = static_cast<unsigned __int128>(hi - lo) + 1;
      v = lo + static_cast<i128>(static_cast<unsigned __int128>(r()) % span);
    }
    return static_cast<T>(v);
  }
}

// an application value that is NOT representable in the guest type (if any)
// which side of the destination range the poisoned value lies on when both exist (0: above the maximum, 1: below the minimum)
inline int g_poison_below = 0;
template<typename T, typename GT>
inline bool unrepresentable_app_value(mon::Rng& r, T& out)
{
  if constexpr (std::is_integral_v<T> && !std::is_same_v<T, bool>) {
    const bool hi_ok = ref::hi<T>() > ref::hi<GT>(), lo_ok = ref::lo<T>() < ref::lo<GT>();
    if (hi_ok && (g_poison_below == 0 || !lo_ok)) { out = static_cast<T>(ref::hi<GT>() + 1 + static_cast<i128>(r.below(3))); return true; }
    if (lo_ok) { out = static_cast<T>(ref::lo<GT>() - 1 - static_cast<i128>(r.below(3))); return true; }
  }
  (void)r; (void)out;
  return false;
}
template<typename T, typename GT>
inline bool unrepresentable_guest_value(mon::Rng& r, GT& out)
{
  if constexpr (std::is_integral_v<T> && !std::is_same_v<T, bool>) {
    const bool hi_ok = ref::hi<GT>() > ref::hi<T>(), lo_ok = ref::lo<GT>() < ref::lo<T>();
    if (hi_ok && (g_poison_below == 0 || !lo_ok)) { out = static_cast<GT>(ref::hi<T>() + 1 + static_cast<i128>(r.below(3))); return true; }
    if (lo_ok) { out = static_cast<GT>(ref::lo<T>() - 1 - static_cast<i128>(r.below(3))); return true; }
  }
  (void)r; (void)out;
  return false;
}

template<typename A, typename B>
inline bool same_num(A a, B b)
{
  if constexpr (std::is_floating_point_v<A> || std::is_floating_point_v<B>) { return std::memcmp(&a, &b, sizeof(A)) == 0 && sizeof(A) == sizeof(B); }
  else if constexpr (std::is_enum_v<A> || std::is_enum_v<B>) return static_cast<long long>(a) == static_cast<long long>(b);
  else return ref::val(a) == ref::val(b);
}
template<typename A> inline std::string nstr(A a)
{
  if constexpr (std::is_floating_point_v<A>) return mon::fmt("%a", (double)a);
  else if constexpr (std::is_enum_v<A>) return std::to_string((long long)a);
  else return mon::i128s(ref::val(a));
}

// --------------------------------------------------------- leaf operations
// Leaf visitor signature: f(const char* name, tainted<T>& leaf, GT& guest_leaf)
// Overloads below are selected by the leaf's static types.

struct PutCtx { mon::Rng* rng; int mode; int leaf = 0; int poison_leaf = -1; bool poisoned = false; };

// scalar leaf
template<typename T, typename GT>
inline void put_leaf(PutCtx& c, tainted<T, Sbx>& tl, GT& gl)
{
  if constexpr (std::is_pointer_v<T>) {
    if constexpr (detail::is_func_ptr_v<T>) {
      if (c.leaf & 1) { tl = nullptr; gl = 0; }
      else { tl = sandbox_reinterpret_cast<T>(E->fnaddr); gl = static_cast<GT>(E->fn_repr); }
    } else {
      uint64_t off = (c.mode != 0 && c.rng->below(5) == 0) ? 0 : 8 + 8 * c.rng->below((Wd::size(E->sb) - 16) / 8);
      if (off) tl = sandbox_reinterpret_cast<T>(Wd::tptr<char>(E->sb, off)); else tl = nullptr;
      gl = static_cast<GT>(off);
    }
  } else {
    T v = gen_app_value<T, GT>(*c.rng, c.leaf, c.mode);
    if (c.leaf == c.poison_leaf) { T bad; if (unrepresentable_app_value<T, GT>(*c.rng, bad)) { v = bad; c.poisoned = true; } }
    tl = v;
    gl = static_cast<GT>(v);
  }
  c.leaf++;
}

struct GetCtx { mon::Rng* rng; int mode; int leaf = 0; int poison_leaf = -1; bool poisoned = false; };
// to-application: choose a guest value, remember the application value expected
template<typename T, typename GT>
inline void get_leaf(GetCtx& c, tainted<T, Sbx>& expect, GT& gl)
{
  if constexpr (std::is_pointer_v<T>) {
    if constexpr (detail::is_func_ptr_v<T>) { gl = 0; expect = nullptr; }
    else {
      uint64_t off = (c.rng->below(5) == 0) ? 0 : 8 + 8 * c.rng->below((Wd::size(E->sb) - 16) / 8);
      gl = static_cast<GT>(off);
      if (off) expect = sandbox_reinterpret_cast<T>(Wd::tptr<char>(E->sb, off)); else expect = nullptr;
    }
  } else {
    // a guest value representable in T: generate an app value representable in GT (symmetric helper)
    T v = gen_app_value<T, GT>(*c.rng, c.leaf, c.mode);
    gl = static_cast<GT>(v);
    if (c.leaf == c.poison_leaf) { GT bad; if (unrepresentable_guest_value<T, GT>(*c.rng, bad)) { gl = bad; c.poisoned = true; } }
    expect = v;
  }
  c.leaf++;
}

template<typename T, typename GT>
inline bool guest_leaf_equal(const GT& got, const GT& want) { return std::memcmp(&got, &want, sizeof(GT)) == 0; }

template<typename T>
inline bool tainted_leaf_equal(const tainted<T, Sbx>& got, const tainted<T, Sbx>& want)
{
  if constexpr (std::is_pointer_v<T>) return reinterpret_cast<uintptr_t>(got.UNSAFE_unverified()) == reinterpret_cast<uintptr_t>(want.UNSAFE_unverified());
  else return same_num(got.UNSAFE_unverified(), want.UNSAFE_unverified());
}
template<typename T>
inline std::string tstr(const tainted<T, Sbx>& t)
{
  if constexpr (std::is_pointer_v<T>) return mon::fmt("%p", reinterpret_cast<const void*>(t.UNSAFE_unverified()));
  else return nstr(t.UNSAFE_unverified());
}

// ----------------------------------------------------------------- the test
template<typename S>
void run_struct(mon::Rng& rng)
{
  using Tr = Traits<S>;
  using G = typename Tr::template G<Cfg>;
  const char* sn = Tr::name();
  Env& e = *E;
  auto& sb = e.sb;
  const auto& lay = Tr::template layout<Cfg>(); // python-computed: vector of {name, offset, size}, plus total size/align
  // ---- harness self-consistency: independent guest struct vs python layout
  if (sizeof(G) != lay.size || alignof(G) != lay.align) { mon::note(mon::fmt("harness layout disagreement for %s: C++ %zu/%zu python %zu/%zu", sn, sizeof(G), alignof(G), lay.size, lay.align)); mon::hit("harness-layout-disagreement"); return; }

  // ---- 1. layout observed through RLBox: sizeof and &p->field
  {
    mon::ctx("%s/layout", sn);
    if (sizeof(tainted_volatile<S, Sbx>) != lay.size)
      report(sn, "layout", "wrong-size", mon::fmt("%s: sizeof(sandbox image) is %zu, the %s ABI prescribes %zu (application sizeof %zu)", sn, sizeof(tainted_volatile<S, Sbx>), Cfg::name, lay.size, sizeof(S)));
    uint64_t off = 4096;
    auto p = Wd::tptr<S>(sb, off);
    std::vector<std::pair<std::string, uint64_t>> seen;
    Tr::template for_leaf_addresses<Cfg>(*p, [&](const char* name, uintptr_t a) { seen.push_back({ name, a - (Wd::base(sb) + off) }); });
    bool ok = seen.size() == lay.leaves.size();
    for (size_t i = 0; ok && i < seen.size(); i++)
      if (seen[i].second != lay.leaves[i].offset) {
        report(sn, "layout", "wrong-field-offset", mon::fmt("%s.%s: RLBox places it at offset %llu of the sandbox image, the %s ABI prescribes %zu", sn, seen[i].first.c_str(), (unsigned long long)seen[i].second, Cfg::name, lay.leaves[i].offset));
        ok = false;
      }
    mon::evals();
    if (ok) n_layout_ok++;
  }

  int rounds = mon::tier(6, 60);
  for (int round = 0; round < rounds; round++) {
    int mode = round == 0 ? 0 : (round % 2 ? 1 : 2);
    uint64_t off = (round == 1) ? Wd::size(sb) - sizeof(G) - (Wd::size(sb) - sizeof(G)) % alignof(G) /* image ends at the region end */ : 8192 + alignof(G) * rng.below(1000);
    if (off % alignof(G)) off -= off % alignof(G);
    auto p = Wd::tptr<S>(sb, off);
    mon::distinct(mon::mix(mon::mix(std::hash<std::string>()(sn), round), off));
    // ---------------- 2. store whole struct
    {
      tainted<S, Sbx> t;
      G expect;
      std::memset(&expect, 0, sizeof expect);
      PutCtx pc{ &rng, mode };
      Tr::template for_leaves<Cfg>(t, expect, [&](const char*, auto& tl, auto& gl) { put_leaf(pc, tl, gl); });
      e.R.randomize(rng, int64_t(off) - 64, int64_t(off + sizeof(G)) + 64);
      e.R.snapshot();
      mon::ctx("%s/store-whole | off=%llu round %d", sn, (unsigned long long)off, round);
      e.R.poison_except(off, sizeof(G));
      bool ab = mon::aborts([&] { *p = t; });
      e.R.unpoison();
      mon::evals();
      if (ab) report(sn, "store-whole-struct", "spurious-abort", mon::fmt("%s round %d: all fields representable", sn, round));
      else {
        G got;
        std::memcpy(&got, e.R.mem() + off, sizeof(G));
        std::string why;
        int li = 0;
        Tr::template for_leaves<Cfg>(t, got, [&](const char* name, auto& tl, auto& gl) {
          using GT = std::remove_reference_t<decltype(gl)>;
          GT want;
          std::memcpy(&want, reinterpret_cast<const char*>(&expect) + (reinterpret_cast<const char*>(&gl) - reinterpret_cast<const char*>(&got)), sizeof(GT));
          if (std::memcmp(&gl, &want, sizeof(GT)) != 0 && why.empty()) {
            // is it a neighbour's value?
            std::string from;
            int lj = 0;
            Tr::template for_leaves<Cfg>(t, expect, [&](const char* n2, auto&, auto& g2) { if (sizeof(g2) == sizeof(GT) && std::memcmp(&g2, &gl, sizeof(GT)) == 0 && lj != li && from.empty()) from = n2; lj++; });
            why = mon::fmt("field %s: sandbox image holds %s, expected %s%s (source %s)", name, memmon::hex(reinterpret_cast<const unsigned char*>(&gl), sizeof(GT)).c_str(),
                           memmon::hex(reinterpret_cast<const unsigned char*>(&want), sizeof(GT)).c_str(), from.empty() ? "" : (" -- that is the value of field " + from).c_str(), tstr(tl).c_str());
          }
          li++;
        });
        // bytes outside the image
        unsigned char* cur = e.R.mem();
        int64_t outside = -1;
        for (uint64_t i = (off >= 64 ? off - 64 : 0); i < off && outside < 0; i++) if (cur[i] != e.R.snap[i]) outside = i;
        for (uint64_t i = off + sizeof(G); i < off + sizeof(G) + 64 && i < e.R.size && outside < 0; i++) if (cur[i] != e.R.snap[i]) outside = i;
        if (!why.empty()) report(sn, "store-whole-struct", "field-not-marshalled-faithfully", mon::fmt("%s (%s): %s", sn, Cfg::name, why.c_str()));
        else if (outside >= 0) report(sn, "store-whole-struct", "bytes-outside-image-changed", mon::fmt("%s: byte at offset %lld (image is %llu..%llu)", sn, (long long)outside, (unsigned long long)off, (unsigned long long)(off + sizeof(G) - 1)));
        else n_store_ok++;
      }
      // ---------------- 3. by-value argument: the guest must see the same image
      {
        mon::ctx("%s/by-value-argument | round %d", sn, round);
        world::glog.clear();
        std::memset(&Tr::template seen<Cfg>(), 0xEE, sizeof(G));
        bool ab2 = mon::aborts([&] { Tr::template invoke_take<Cfg>(sb, t); });
        mon::evals();
        if (ab2 || world::glog.size() != 1) report(sn, "by-value-argument", ab2 ? "spurious-abort" : "guest-not-called-exactly-once", mon::fmt("%s round %d: %zu calls", sn, round, world::glog.size()));
        else {
          std::string why;
          G& got = Tr::template seen<Cfg>();
          Tr::template for_leaves<Cfg>(t, got, [&](const char* name, auto& tl, auto& gl) {
            using GT = std::remove_reference_t<decltype(gl)>;
            GT want;
            std::memcpy(&want, reinterpret_cast<const char*>(&expect) + (reinterpret_cast<const char*>(&gl) - reinterpret_cast<const char*>(&got)), sizeof(GT));
            if (std::memcmp(&gl, &want, sizeof(GT)) != 0 && why.empty()) why = mon::fmt("field %s: guest received %s, expected %s (source %s)", name, memmon::hex(reinterpret_cast<const unsigned char*>(&gl), sizeof(GT)).c_str(), memmon::hex(reinterpret_cast<const unsigned char*>(&want), sizeof(GT)).c_str(), tstr(tl).c_str());
          });
          if (!why.empty()) report(sn, "by-value-argument", "field-not-marshalled-faithfully", mon::fmt("%s (%s): %s", sn, Cfg::name, why.c_str()));
          else n_arg_ok++;
        }
      }
    }
    // ---------------- 4. load whole struct / copy_and_verify / by-value result from a guest image
    {
      tainted<S, Sbx> expect;
      G img;
      std::memset(&img, 0, sizeof img);
      GetCtx gc{ &rng, mode };
      Tr::template for_leaves<Cfg>(expect, img, [&](const char*, auto& tl, auto& gl) { get_leaf(gc, tl, gl); });
      e.R.randomize(rng, int64_t(off) - 64, int64_t(off + sizeof(G)) + 64);
      std::memcpy(e.R.mem() + off, &img, sizeof(G));
      e.R.snapshot();
      auto compare = [&](const char* what, tainted<S, Sbx>& got, uint64_t& okctr) {
        std::string why;
        Tr::template for_leaf_pairs<Cfg>(got, expect, [&](const char* name, auto& gl, auto& wl) {
          if (!tainted_leaf_equal(gl, wl) && why.empty()) why = mon::fmt("field %s: application sees %s, reference conversion of the sandbox image gives %s", name, tstr(gl).c_str(), tstr(wl).c_str());
        });
        if (!why.empty()) report(sn, what, "field-not-marshalled-faithfully", mon::fmt("%s (%s): %s", sn, Cfg::name, why.c_str()));
        else okctr++;
      };
      {
        mon::ctx("%s/load-whole | off=%llu round %d", sn, (unsigned long long)off, round);
        tainted<S, Sbx> got;
        e.R.poison_except(off, sizeof(G));
        bool ab = mon::aborts([&] { tainted<S, Sbx> tmp = *p; got = tmp; });
        e.R.unpoison();
        mon::evals();
        if (ab) report(sn, "load-whole-struct", "spurious-abort", sn);
        else if (e.R.diff_none() >= 0) report(sn, "load-whole-struct", "load-modified-memory", sn);
        else compare("load-whole-struct", got, n_load_ok);
      }
      {
        // unwrapping the whole struct in place (no intermediate tainted copy): every field as in the load above
        mon::ctx("%s/unwrap-in-place | off=%llu round %d", sn, (unsigned long long)off, round);
        S got{}, got2{}, want{};
        bool ab = mon::aborts([&] { got = (*p).UNSAFE_unverified(); got2 = (*p).unverified_safe_because("monitor"); });
        mon::evals();
        if (ab) report(sn, "unwrap-volatile-struct-in-place", "spurious-abort", sn);
        else {
          want = expect.UNSAFE_unverified();
          std::string why;
          auto cmp = [&](const S& g, const char* api) {
            Tr::for_plain_pairs(g, want, [&](const char* name, const auto& gl, const auto& wl) {
              if (std::memcmp(&gl, &wl, sizeof gl) != 0 && why.empty()) why = mon::fmt("%s: field %s differs from the field-wise load of the same image", api, name);
            });
          };
          cmp(got, "UNSAFE_unverified()");
          cmp(got2, "unverified_safe_because()");
          if (!why.empty()) report(sn, "unwrap-volatile-struct-in-place", "field-not-marshalled-faithfully", mon::fmt("%s (%s): %s", sn, Cfg::name, why.c_str()));
          else n_load_ok++;
        }
      }
      {
        mon::ctx("%s/copy_and_verify | round %d", sn, round);
        tainted<S, Sbx> got;
        bool ab = mon::aborts([&] { p.copy_and_verify([&](std::unique_ptr<tainted<S, Sbx>> v) { got = *v; return 0; }); });
        mon::evals();
        if (ab) report(sn, "copy_and_verify-struct-pointer", "spurious-abort", sn);
        else compare("copy_and_verify-struct-pointer", got, n_cv_ok);
      }
      {
        mon::ctx("%s/by-value-result | round %d", sn, round);
        Tr::template ret<Cfg>() = img;
        tainted<S, Sbx> got;
        bool ab = mon::aborts([&] { got = Tr::template invoke_ret<Cfg>(sb); });
        mon::evals();
        if (ab) report(sn, "by-value-result", "spurious-abort", sn);
        else compare("by-value-result", got, n_ret_ok);
      }
    }
  }

  // ---------------- 4b. allocation: malloc_in_sandbox<S>(n) must ask the backend for room for n sandbox images, and two
  //                  consecutive allocations must not overlap as images (the model allocator packs them)
  {
    mon::ctx("%s/allocation", sn);
    for (uint32_t n : { 1u, 2u, 5u }) {
      sb.get_sandbox_impl()->brk = 32768;
      vsbx_ev.last_malloc_size = 0;
      tainted<S*, Sbx> a = nullptr, b = nullptr;
      bool ab = mon::aborts([&] { a = n == 1 ? sb.template malloc_in_sandbox<S>() : sb.template malloc_in_sandbox<S>(n); });
      uint64_t asked = vsbx_ev.last_malloc_size;
      bool ab2 = mon::aborts([&] { b = sb.template malloc_in_sandbox<S>(); });
      mon::evals();
      uintptr_t ua = reinterpret_cast<uintptr_t>(a.UNSAFE_unverified()), ub = reinterpret_cast<uintptr_t>(b.UNSAFE_unverified());
      if (ab || ab2 || !ua || !ub) report(sn, "allocation", "spurious-abort-or-null", mon::fmt("%s x %u", sn, n));
      else if (asked < uint64_t(n) * sizeof(G) || ub - ua < uint64_t(n) * sizeof(G))
        report(sn, "allocation", "smaller-than-the-sandbox-image",
               mon::fmt("%s (%s): malloc_in_sandbox<%s>(%u) asked the backend for %llu bytes; %u image(s) of %zu bytes need %llu (application sizeof %zu); the next allocation starts %llu bytes further",
                        sn, Cfg::name, sn, n, (unsigned long long)asked, n, sizeof(G), (unsigned long long)(uint64_t(n) * sizeof(G)), sizeof(S), (unsigned long long)(ub - ua)));
      else n_load_ok++;
    }
    sb.get_sandbox_impl()->brk = 16;
  }

  // ---------------- 5. every narrowing field in turn unrepresentable: abort expected
  {
    int nleaves = static_cast<int>(lay.leaves.size());
    uint64_t off = 16384;
    auto p = Wd::tptr<S>(sb, off);
    for (int vv = 0; vv < 2 * nleaves; vv++) {
      int victim = vv / 2;
      g_poison_below = vv % 2;
      // to-sandbox: store and by-value argument
      {
        tainted<S, Sbx> t;
        G expect;
        std::memset(&expect, 0, sizeof expect);
        PutCtx pc{ &rng, 1, 0, victim };
        Tr::template for_leaves<Cfg>(t, expect, [&](const char*, auto& tl, auto& gl) { put_leaf(pc, tl, gl); });
        if (pc.poisoned) {
          mon::ctx("%s/unrepresentable-field-store | leaf %s", sn, lay.leaves[victim].name.c_str());
          bool ab = mon::aborts([&] { *p = t; });
          mon::evals();
          if (!ab) report(sn, "store-whole-struct", "unrepresentable-field-no-abort", mon::fmt("%s.%s holds a value not representable under %s", sn, lay.leaves[victim].name.c_str(), Cfg::name));
          else n_abort_ok++;
          // by-value argument: marshalling runs inside a noexcept function => an abort surfaces as std::terminate; observe it in a child
          mon::ctx("%s/unrepresentable-field-argument | leaf %s", sn, lay.leaves[victim].name.c_str());
          world::glog.clear();
          auto res = mon::in_child([&] { Tr::template invoke_take<Cfg>(sb, t); if (!world::glog.empty()) _exit(55); });
          mon::evals();
          if (res.exited && res.code == 55) report(sn, "by-value-argument", "guest-called-with-unrepresentable-field", mon::fmt("%s.%s", sn, lay.leaves[victim].name.c_str()));
          else if (res.completed()) report(sn, "by-value-argument", "unrepresentable-field-no-abort", mon::fmt("%s.%s", sn, lay.leaves[victim].name.c_str()));
          else if (res.rlbox_abort()) n_abort_ok++;
          else report(sn, "by-value-argument", "unexpected-child-outcome", mon::fmt("%s.%s: %s", sn, lay.leaves[victim].name.c_str(), res.str().c_str()));
        }
      }
      // to-application: load and by-value result
      {
        tainted<S, Sbx> expect;
        G img;
        std::memset(&img, 0, sizeof img);
        GetCtx gc{ &rng, 1, 0, victim };
        Tr::template for_leaves<Cfg>(expect, img, [&](const char*, auto& tl, auto& gl) { get_leaf(gc, tl, gl); });
        if (gc.poisoned) {
          std::memcpy(e.R.mem() + off, &img, sizeof(G));
          mon::ctx("%s/unrepresentable-field-load | leaf %s", sn, lay.leaves[victim].name.c_str());
          bool ab = mon::aborts([&] { tainted<S, Sbx> tmp = *p; (void)tmp; });
          mon::evals();
          if (!ab) report(sn, "load-whole-struct", "unrepresentable-field-no-abort", mon::fmt("%s.%s", sn, lay.leaves[victim].name.c_str()));
          else n_abort_ok++;
          Tr::template ret<Cfg>() = img;
          bool ab2 = mon::aborts([&] { auto got = Tr::template invoke_ret<Cfg>(sb); (void)got; });
          mon::evals();
          if (!ab2) report(sn, "by-value-result", "unrepresentable-field-no-abort", mon::fmt("%s.%s", sn, lay.leaves[victim].name.c_str()));
          else n_abort_ok++;
        }
      }
    }
  }
  static int ns = 0;
  if (ns++ < 6) mon::sample(mon::fmt("{\"struct\":\"%s\",\"abi\":\"%s\",\"leaf_fields\":%zu,\"application_sizeof\":%zu,\"sandbox_sizeof\":%zu}", sn, Cfg::name, lay.leaves.size(), sizeof(S), sizeof(G)));
}

inline int run_all(int argc, char** argv)
{
  mon::init("C08", argc, argv);
  mon::require("layout-matches-abi");
  mon::require("store-whole-struct-faithful");
  mon::require("load-whole-struct-faithful");
  mon::require("by-value-argument-faithful");
  mon::require("by-value-result-faithful");
  mon::Rng rng(mon::seed() * 37 + 8 + mon::slice());
  Env env;
  E = &env;
  env.lib.id = 1;
  env.lib.add("dummy_fn", reinterpret_cast<void*>(&dummy_guest_fn), &dummy_internal);
  for (auto& r : regs()) r.add_exports(env.lib);
  env.sb.create_sandbox(&env.lib);
  env.R.attach(Wd::base(env.sb), Wd::size(env.sb));
  env.fnaddr = env.sb.template INTERNAL_get_sandbox_function_name<int(int)>("dummy_fn");
  env.fn_repr = Sbx::EXPORT_TABLE_BASE + 0;
  for (auto& r : regs()) r.run(rng);
  mon::hit("layout-matches-abi", n_layout_ok);
  mon::hit("store-whole-struct-faithful", n_store_ok);
  mon::hit("load-whole-struct-faithful", n_load_ok);
  mon::hit("by-value-argument-faithful", n_arg_ok);
  mon::hit("by-value-result-faithful", n_ret_ok);
  mon::hit("copy_and_verify-faithful", n_cv_ok);
  mon::hit("unrepresentable-field-aborted", n_abort_ok);
  mon::extra_num("structs_in_this_runner", regs().size());
  env.sb.destroy_sandbox();
  return mon::finish();
}

} // namespace c08
