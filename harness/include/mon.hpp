#pragma once
// E2/E3 -- monitor core: PRNG, violation records, coverage counters, evidence
// output, abort capture (exception mode, flag mode, process mode).
//
// Every driver:   int main(int argc,char**argv){ mon::init("C06", argc, argv); ...; return mon::finish(); }
// Results go to $VERIF_OUT (JSON, one object).  A fatal signal writes a one-line
// crash record to $VERIF_OUT.crash using write(2) only.

#include <algorithm>
#include <atomic>
#include <cinttypes>
#include <csignal>
#include <cstdarg>
#include <cstdint>
#include <cstdio>
#include <cstdlib>
#include <cstring>
#include <fcntl.h>
#include <map>
#include <mutex>
#include <set>
#include <stdexcept>
#include <string>
#include <sys/mman.h>
#include <sys/wait.h>
#include <unistd.h>
#include <unordered_set>
#include <vector>

#if defined(__SANITIZE_ADDRESS__)
#  define MON_ASAN 1
#elif defined(__has_feature)
#  if __has_feature(address_sanitizer)
#    define MON_ASAN 1
#  endif
#endif
#ifndef MON_ASAN
#  define MON_ASAN 0
#endif
#if defined(__SANITIZE_THREAD__)
#  define MON_TSAN 1
#elif defined(__has_feature)
#  if __has_feature(thread_sanitizer)
#    define MON_TSAN 1
#  endif
#endif
#ifndef MON_TSAN
#  define MON_TSAN 0
#endif

namespace mon {

// ------------------------------------------------------------------- PRNG
struct Rng
{
  uint64_t s[4];
  static uint64_t splitmix(uint64_t& x)
  {
    uint64_t z = (x += 0x9e3779b97f4a7c15ULL);
    z = (z ^ (z >> 30)) * 0xbf58476d1ce4e5b9ULL;
    z = (z ^ (z >> 27)) * 0x94d049bb133111ebULL;
    return z ^ (z >> 31);
  }
  explicit Rng(uint64_t seed = 1)
  {
    uint64_t x = seed;
    for (auto& v : s) v = splitmix(x);
  }
  static uint64_t rotl(uint64_t x, int k) { return (x << k) | (x >> (64 - k)); }
  uint64_t next()
  {
    uint64_t r = rotl(s[1] * 5, 7) * 9, t = s[1] << 17;
    s[2] ^= s[0]; s[3] ^= s[1]; s[1] ^= s[2]; s[0] ^= s[3];
    s[2] ^= t; s[3] = rotl(s[3], 45);
    return r;
  }
  uint64_t operator()() { return next(); }
  // uniform in [0,n)
  uint64_t below(uint64_t n) { return n ? next() % n : 0; }
  // inclusive range
  int64_t range(int64_t lo, int64_t hi)
  {
    return lo + static_cast<int64_t>(below(static_cast<uint64_t>(hi - lo) + 1));
  }
  bool coin() { return next() & 1; }
  // "interesting" 64-bit value: mixes boundaries, small values, random
  uint64_t interesting()
  {
    switch (below(8)) {
      case 0: return below(16);
      case 1: return static_cast<uint64_t>(-static_cast<int64_t>(below(16)));
      case 2: { uint64_t b = 1ULL << below(64); return b + below(3) - 1; }
      case 3: { uint64_t b = 1ULL << below(64); return ~b + below(3) - 1; }
      case 4: return next() >> below(64);
      case 5: return static_cast<uint64_t>(static_cast<int64_t>(next()) >> below(64));
      default: return next();
    }
  }
};

// --------------------------------------------------------------- state
struct ViolRec
{
  uint64_t count = 0;
  std::vector<std::string> details;
};

struct State
{
  std::string prop;
  std::string driver;
  uint64_t seed = 1;
  bool thorough = false;
  std::string only_key; // replay filter
  bool verbose = false;
  uint64_t slice = 0, nslices = 1;
  std::map<std::string, ViolRec> viol;
  std::map<std::string, uint64_t> branch;
  std::set<std::string> required;
  uint64_t evaluations = 0;
  std::unordered_set<uint64_t> fps;
  uint64_t distinct_extra = 0; // counted without fingerprints (exhaustive loops)
  std::vector<std::string> samples;
  std::map<std::string, std::string> extra; // raw JSON values
  std::vector<std::string> notes;
  int crash_fd = -1;
  int viol_fd = -1; // violations are also appended here as they happen (survives a later crash of the driver)
  char ctx[512] = { 0 };
  std::mutex mtx;
};
inline State& st()
{
  static State* s = new State; // leaked on purpose (usable from atexit/signal)
  return *s;
}

inline std::string jesc(const std::string& s)
{
  std::string o;
  for (unsigned char c : s) {
    if (c == '"' || c == '\\') { o += '\\'; o += c; }
    else if (c == '\n') o += "\\n";
    else if (c < 0x20) { char b[8]; snprintf(b, sizeof b, "\\u%04x", c); o += b; }
    else o += c;
  }
  return o;
}

inline std::string fmt(const char* f, ...)
{
  char buf[2048];
  va_list ap;
  va_start(ap, f);
  vsnprintf(buf, sizeof buf, f, ap);
  va_end(ap);
  return buf;
}

// string form of a 128-bit value
inline std::string i128s(__int128 v)
{
  if (v == 0) return "0";
  bool neg = v < 0;
  unsigned __int128 u = neg ? -static_cast<unsigned __int128>(v) : static_cast<unsigned __int128>(v);
  std::string s;
  while (u) { s += static_cast<char>('0' + static_cast<int>(u % 10)); u /= 10; }
  if (neg) s += '-';
  std::reverse(s.begin(), s.end());
  return s;
}

// --------------------------------------------------------------- context
// Cheap "what is running now" string; shown in crash records.
inline void ctx(const char* f, ...)
{
  va_list ap;
  va_start(ap, f);
  vsnprintf(st().ctx, sizeof(st().ctx), f, ap);
  va_end(ap);
}

inline void crash_handler(int sig)
{
  State& s = st();
  if (s.crash_fd >= 0) {
    char buf[700];
    int n = snprintf(buf, sizeof buf, "{\"crash_signal\":%d,\"ctx\":\"", sig);
    for (const char* p = s.ctx; *p && n < 680; p++) {
      if (*p == '"' || *p == '\\') buf[n++] = '\\';
      buf[n++] = (*p >= 0x20) ? *p : ' ';
    }
    n += snprintf(buf + n, sizeof buf - n, "\"}\n");
    ssize_t r = write(s.crash_fd, buf, n);
    (void)r;
  }
  signal(sig, SIG_DFL);
  raise(sig);
}

inline bool getenv_flag(const char* n)
{
  const char* v = getenv(n);
  return v && *v && strcmp(v, "0") != 0;
}

inline void init(const char* prop, int argc = 0, char** argv = nullptr, bool install_crash_handlers = true)
{
  State& s = st();
  s.prop = prop;
  if (argc > 0 && argv) s.driver = argv[0];
  if (const char* e = getenv("VERIF_SEED")) s.seed = strtoull(e, nullptr, 0);
  if (const char* e = getenv("VERIF_TIER")) s.thorough = !strcmp(e, "thorough");
  if (const char* e = getenv("VERIF_ONLY_KEY")) s.only_key = e;
  if (const char* e = getenv("VERIF_SLICE")) s.slice = strtoull(e, nullptr, 0);
  if (const char* e = getenv("VERIF_NSLICES")) s.nslices = strtoull(e, nullptr, 0);
  if (s.nslices == 0) s.nslices = 1;
  s.verbose = getenv_flag("VERIF_VERBOSE");
  if (const char* o = getenv("VERIF_OUT")) {
    std::string c = std::string(o) + ".crash";
    s.crash_fd = open(c.c_str(), O_WRONLY | O_CREAT | O_TRUNC, 0644);
    std::string vf = std::string(o) + ".viol";
    s.viol_fd = open(vf.c_str(), O_WRONLY | O_CREAT | O_TRUNC | O_APPEND, 0644);
  }
  if (install_crash_handlers) {
#if MON_ASAN
    // keep ASan's own SEGV/BUS handlers: they print the stack and then abort()
    for (int sig : { SIGABRT }) {
#else
    for (int sig : { SIGABRT, SIGSEGV, SIGBUS, SIGFPE, SIGILL }) {
#endif
      struct sigaction sa;
      memset(&sa, 0, sizeof sa);
      sa.sa_handler = crash_handler;
      sa.sa_flags = SA_NODEFER;
      sigaction(sig, &sa, nullptr);
    }
  }
  setvbuf(stdout, nullptr, _IOLBF, 0);
}

inline uint64_t seed() { return st().seed; }
inline bool thorough() { return st().thorough; }
inline uint64_t slice() { return st().slice; }
inline uint64_t nslices() { return st().nslices; }
// pick quick or thorough bound
template<typename T>
inline T tier(T quick, T thor) { return st().thorough ? thor : quick; }

// -------------------------------------------------------------- recording
inline void violation(const std::string& key, const std::string& detail)
{
  State& s = st();
  std::lock_guard<std::mutex> l(s.mtx);
  if (!s.only_key.empty() && key != s.only_key) return;
  auto& r = s.viol[key];
  r.count++;
  if (r.details.size() < 3) r.details.push_back(detail);
  if (r.count == 1 && s.viol_fd >= 0) {
    std::string line = "{\"key\":\"" + jesc(key) + "\",\"count\":1,\"details\":[\"" + jesc(detail.substr(0, 1500)) + "\"]}\n";
    ssize_t w = write(s.viol_fd, line.data(), line.size());
    (void)w;
  }
  if (s.verbose || r.count == 1)
    fprintf(stderr, "[mon] violation key=%s : %s\n", key.c_str(), detail.c_str());
}
inline void hit(const std::string& b, uint64_t n = 1)
{
  State& s = st();
  std::lock_guard<std::mutex> l(s.mtx);
  s.branch[b] += n;
}
inline void require(const std::string& b)
{
  State& s = st();
  std::lock_guard<std::mutex> l(s.mtx);
  s.required.insert(b);
  s.branch[b] += 0;
}
inline void evals(uint64_t n = 1)
{
  State& s = st();
  std::lock_guard<std::mutex> l(s.mtx);
  s.evaluations += n;
}
inline uint64_t mix(uint64_t h, uint64_t v)
{
  h ^= v + 0x9e3779b97f4a7c15ULL + (h << 6) + (h >> 2);
  h *= 0xff51afd7ed558ccdULL;
  return h ^ (h >> 33);
}
// record a 64-bit fingerprint of a non-trivial case
inline void distinct(uint64_t fp)
{
  State& s = st();
  std::lock_guard<std::mutex> l(s.mtx);
  if (s.fps.size() < (1u << 22)) s.fps.insert(fp);
  else s.distinct_extra += 0; // saturated: stays a lower bound
}
// for exhaustive loops that enumerate without repetition by construction
inline void distinct_counted(uint64_t n)
{
  State& s = st();
  std::lock_guard<std::mutex> l(s.mtx);
  s.distinct_extra += n;
}
inline void sample(const std::string& json_value)
{
  State& s = st();
  std::lock_guard<std::mutex> l(s.mtx);
  if (s.samples.size() < 12) s.samples.push_back(json_value);
}
inline void sample_str(const std::string& text) { sample("\"" + jesc(text) + "\""); }
inline void extra(const std::string& k, const std::string& json_value)
{
  State& s = st();
  std::lock_guard<std::mutex> l(s.mtx);
  s.extra[k] = json_value;
}
inline void extra_num(const std::string& k, uint64_t v) { extra(k, std::to_string(v)); }
inline void note(const std::string& n)
{
  State& s = st();
  std::lock_guard<std::mutex> l(s.mtx);
  s.notes.push_back(n);
}

// returns exit code: 0 held, 1 violation(s), 2 inconclusive
inline int finish()
{
  State& s = st();
  std::string j = "{";
  j += "\"property\":\"" + jesc(s.prop) + "\",\"seed\":" + std::to_string(s.seed);
  j += ",\"tier\":\"" + std::string(s.thorough ? "thorough" : "quick") + "\"";
  j += ",\"evaluations\":" + std::to_string(s.evaluations);
  j += ",\"distinct\":" + std::to_string(s.fps.size() + s.distinct_extra);
  j += ",\"branches\":{";
  bool first = true;
  std::vector<std::string> missing;
  for (auto& b : s.branch) {
    if (!first) j += ",";
    first = false;
    j += "\"" + jesc(b.first) + "\":" + std::to_string(b.second);
  }
  j += "},\"required\":[";
  first = true;
  for (auto& r : s.required) {
    if (!first) j += ",";
    first = false;
    j += "\"" + jesc(r) + "\"";
    if (s.branch[r] == 0) missing.push_back(r);
  }
  j += "],\"missing\":[";
  first = true;
  for (auto& r : missing) {
    if (!first) j += ",";
    first = false;
    j += "\"" + jesc(r) + "\"";
  }
  j += "],\"violations\":[";
  first = true;
  for (auto& v : s.viol) {
    if (!first) j += ",";
    first = false;
    j += "{\"key\":\"" + jesc(v.first) + "\",\"count\":" + std::to_string(v.second.count) + ",\"details\":[";
    for (size_t i = 0; i < v.second.details.size(); i++) {
      if (i) j += ",";
      j += "\"" + jesc(v.second.details[i]) + "\"";
    }
    j += "]}";
  }
  j += "],\"samples\":[";
  for (size_t i = 0; i < s.samples.size(); i++) {
    if (i) j += ",";
    j += s.samples[i];
  }
  j += "],\"notes\":[";
  for (size_t i = 0; i < s.notes.size(); i++) {
    if (i) j += ",";
    j += "\"" + jesc(s.notes[i]) + "\"";
  }
  j += "],\"extra\":{";
  first = true;
  for (auto& e : s.extra) {
    if (!first) j += ",";
    first = false;
    j += "\"" + jesc(e.first) + "\":" + e.second;
  }
  j += "}}\n";
  if (const char* o = getenv("VERIF_OUT")) {
    FILE* f = fopen(o, "w");
    if (f) { fputs(j.c_str(), f); fclose(f); }
  } else {
    fputs(j.c_str(), stdout);
  }
  if (!s.viol.empty()) return 1;
  if (!missing.empty()) {
    for (auto& m : missing) fprintf(stderr, "[mon] required branch never reached: %s\n", m.c_str());
    return 2;
  }
  return 0;
}

// -------------------------------------------------------- abort capture
// exception mode: needs -DRLBOX_USE_EXCEPTIONS
template<typename F>
inline bool aborts(F&& f, std::string* msg = nullptr)
{
  try {
    f();
    return false;
  } catch (const std::runtime_error& e) {
    if (msg) *msg = e.what();
    return true;
  }
}

// flag mode: -DRLBOX_CUSTOM_ABORT(msg)=::mon::note_abort(msg) without
// RLBOX_USE_EXCEPTIONS; only for side-effect-free leaf computations.
inline thread_local uint64_t abort_flag = 0;
inline void note_abort(const char*) { abort_flag++; }

// process mode: run f in a forked child.
struct ChildResult
{
  bool exited = false;
  int code = 0;   // exit code if exited
  int signal = 0; // terminating signal otherwise
  // conventions: exit 0 = completed without abort; exit 77 = RLBox abort
  // surfaced as exception; exit 78 = std::terminate (an RLBox abort that
  // crossed a noexcept frame); SIGABRT = sanitizer report or real std::abort;
  // SIGSEGV/SIGBUS = wild or guard-page access.
  bool completed() const { return exited && code == 0; }
  bool rlbox_abort() const { return exited && (code == 77 || code == 78); }
  bool sanitizer_or_abort() const { return !exited && signal == SIGABRT; }
  bool wild_access() const { return !exited && (signal == SIGSEGV || signal == SIGBUS); }
  std::string str() const
  {
    return exited ? fmt("exit(%d)", code) : fmt("signal(%d)", signal);
  }
};

template<typename F>
inline ChildResult in_child(F&& f)
{
  fflush(stdout);
  fflush(stderr);
  pid_t pid = fork();
  if (pid < 0) { perror("fork"); exit(2); }
  if (pid == 0) {
    // child: quiet death, no crash record of its own
    for (int sig : { SIGABRT, SIGSEGV, SIGBUS, SIGFPE, SIGILL }) signal(sig, SIG_DFL);
    int devnull = open("/dev/null", O_WRONLY);
    if (devnull >= 0 && !st().verbose) dup2(devnull, 2);
    int code = 0;
    std::set_terminate([] { _exit(78); });
    try {
      f();
    } catch (const std::runtime_error&) {
      code = 77;
    }
    _exit(code);
  }
  int status = 0;
  while (waitpid(pid, &status, 0) < 0) {}
  ChildResult r;
  if (WIFEXITED(status)) { r.exited = true; r.code = WEXITSTATUS(status); }
  else if (WIFSIGNALED(status)) { r.signal = WTERMSIG(status); }
  return r;
}

// a page shared between parent and forked children
template<typename T>
inline T* shared_page()
{
  void* p = mmap(nullptr, (sizeof(T) + 4095) & ~size_t(4095), PROT_READ | PROT_WRITE,
                 MAP_SHARED | MAP_ANONYMOUS, -1, 0);
  if (p == MAP_FAILED) { perror("mmap"); exit(2); }
  return new (p) T();
}

} // namespace mon
