#pragma once
// Pointer-carrying positions (shared by C03 and C04): every place a guest
// pointer representation can enter the application (to-app) or a tainted
// pointer can enter the sandbox (to-sandbox), each implemented with the public
// RLBox API on one side and raw guest-view memory / the guest event log on the
// other side.  Requires -DCFG=<vsbx config>.
#include "world.hpp"

#include <memory>

namespace pp {
using namespace rlbox;
using Cfg = CFG;
using Wd = world::W<Cfg>;
using S = Wd::S;
using P = typename Cfg::P;
using sbx = Wd::sbx;

struct Inner { short s; char* cp; };
struct PS { char tag; int* ptr; long v; int* arr[3]; Inner in; const char* cs; int (*fn)(int); };
// independent guest images
struct GInner { typename Cfg::S s; P cp; };
struct GPS { char tag; P ptr; typename Cfg::L v; P arr[3]; GInner in; P cs; P fn; };
}

#define sandbox_fields_reflection_pp_class_Inner(f, g, ...) \
  f(short, s, FIELD_NORMAL, ##__VA_ARGS__) g() f(char*, cp, FIELD_NORMAL, ##__VA_ARGS__) g()
#define sandbox_fields_reflection_pp_class_PS(f, g, ...)                                                   \
  f(char, tag, FIELD_NORMAL, ##__VA_ARGS__) g() f(int*, ptr, FIELD_NORMAL, ##__VA_ARGS__) g()               \
  f(long, v, FIELD_NORMAL, ##__VA_ARGS__) g() f(int*[3], arr, FIELD_NORMAL, ##__VA_ARGS__) g()              \
  f(Inner, in, FIELD_NORMAL, ##__VA_ARGS__) g() f(const char*, cs, FIELD_NORMAL, ##__VA_ARGS__) g()         \
  f(int (*)(int), fn, FIELD_NORMAL, ##__VA_ARGS__) g()
#define sandbox_fields_reflection_pp_allClasses(f, ...) f(Inner, pp, ##__VA_ARGS__) f(PS, pp, ##__VA_ARGS__)
using pp::Inner;
using pp::PS;
rlbox_load_structs_from_library(pp);

namespace pp {

// ---------------------------------------------------------------- guest code
inline thread_local bool ret_on = false;
inline thread_local uint64_t ret_val = 0;
inline thread_local bool cbarg_on = false;
inline thread_local uint64_t cbarg_val = 0;
inline thread_local GPS struct_seen;
inline thread_local GPS struct_ret;

inline void glog_push(const char* fn, uint64_t a0, uint64_t a1 = 0)
{
  world::GEvent e;
  e.fn = fn;
  e.nargs = 2;
  e.a[0] = a0;
  e.a[1] = a1;
  e.instance = S::current();
  e.lib = S::current() && S::current()->lib ? S::current()->lib->id : -1;
  world::glog.push_back(e);
}
inline P g_echo_ptr(P x)
{
  glog_push("echo_ptr", static_cast<uint64_t>(x));
  return ret_on ? static_cast<P>(ret_val) : x;
}
inline P g_call_cb_ptr(P cb, P x)
{
  if (cbarg_on) x = static_cast<P>(cbarg_val);
  P r = S::current()->template call_indirect<P, P>(static_cast<uint64_t>(cb), x);
  glog_push("call_cb_ptr.ret", static_cast<uint64_t>(x), static_cast<uint64_t>(r));
  return r;
}
inline P g_take_struct(GPS s)
{
  struct_seen = s;
  glog_push("take_struct", static_cast<uint64_t>(s.ptr));
  return s.ptr;
}
inline GPS g_ret_struct()
{
  glog_push("ret_struct", 0);
  return struct_ret;
}
// dereferences its pointer argument in guest memory (reads the int there)
inline int g_deref(P x)
{
  glog_push("deref", static_cast<uint64_t>(x));
  return *S::current()->template g<int>(static_cast<uint64_t>(x));
}

// app-level declarations (never defined; only their types are used)
int* echo_ptr(int*);
int* call_cb_ptr(int* (*)(int*), int*);
int* take_struct(PS);
PS ret_struct();

inline void fill_library(vsbx_library& lib, int id)
{
  lib.id = id;
  lib.add("echo_ptr", reinterpret_cast<void*>(&g_echo_ptr));
  lib.add("call_cb_ptr", reinterpret_cast<void*>(&g_call_cb_ptr));
  lib.add("take_struct", reinterpret_cast<void*>(&g_take_struct));
  lib.add("ret_struct", reinterpret_cast<void*>(&g_ret_struct));
  lib.add("deref", reinterpret_cast<void*>(&g_deref));
}

// callback used for pointer positions
inline thread_local bool cb_called = false;
inline thread_local uintptr_t cb_seen = 0;
inline thread_local void* cb_sandbox = nullptr;
inline thread_local uintptr_t cb_ret = 0; // application address to return (must be in the sandbox or null)
inline tainted<int*, S> ptr_cb(sbx& sb, tainted<int*, S> x)
{
  cb_called = true;
  cb_seen = reinterpret_cast<uintptr_t>(x.UNSAFE_unverified());
  cb_sandbox = &sb;
  if (cb_ret == 0) return nullptr;
  return sb.UNSAFE_accept_pointer(reinterpret_cast<int*>(cb_ret));
}

// ------------------------------------------------------------------ instance
struct Inst
{
  std::unique_ptr<sbx> sb;
  sandbox_callback<int* (*)(int*), S> cb;
  uintptr_t base = 0;
  size_t size = 0;
  // fixed scratch layout inside each instance (offsets)
  static constexpr uint64_t CELL = 64;     // P cell
  static constexpr uint64_t CELL2 = 72;    // P cell holding pointer to CELL (T**)
  static constexpr uint64_t ARR = 96;      // P[4]
  static constexpr uint64_t STRUCT = 160;  // GPS
  static constexpr uint64_t SCRATCH_END = 512;
  explicit Inst(const vsbx_library* lib)
  {
    sb = std::make_unique<sbx>();
    sb->create_sandbox(lib);
    base = Wd::base(*sb);
    size = Wd::size(*sb);
    cb = sb->register_callback(ptr_cb);
  }
  ~Inst()
  {
    cb.unregister();
    sb->destroy_sandbox();
  }
  bool inside(uintptr_t a) const { return a >= base && a - base < size; }
};

inline uintptr_t addr_of(const tainted<int*, S>& t) { return reinterpret_cast<uintptr_t>(t.UNSAFE_unverified()); }
template<typename T> inline uintptr_t addr_any(const tainted<T*, S>& t) { return reinterpret_cast<uintptr_t>(t.UNSAFE_unverified()); }

// --------------------------------------------------- to-application positions
// each returns the application address RLBox produced for guest repr r
enum ToApp { A_CELL, A_CELL_UNVERIFIED, A_ARR_ELEM, A_ARR_WHOLE, A_FIELD, A_STRUCT_WHOLE, A_STRUCT_ARR, A_NESTED, A_NESTED_WHOLE, A_CONSTCHAR,
             A_INVOKE_RESULT, A_CALLBACK_ARG, A_PTRPTR, A_CV_ADDRESS, A_CV_STRUCT, A_STRUCT_RESULT, A_REINTERPRET_TV, A_OPAQUE_RESULT, A_STRUCT_CELL_UNVERIFIED, A_STRUCT_CELL_SAFE_BECAUSE, A_NTOAPP };
inline const char* toapp_name[] = { "load-cell", "load-cell-unverified", "load-array-element", "load-whole-array", "load-struct-field", "load-whole-struct",
                                    "load-whole-struct-array-field", "load-nested-field", "load-whole-struct-nested", "load-const-char-field", "invoke-result", "callback-argument",
                                    "deref-pointer-to-pointer", "copy_and_verify_address", "copy_and_verify-struct-pointer", "by-value-struct-result", "reinterpret-cast-of-volatile",
                                    "invoke-result-to-opaque", "struct-cell-UNSAFE_unverified", "struct-cell-unverified_safe_because" };

inline uintptr_t to_app(Inst& in, ToApp pos, uint64_t r, int idx = 0)
{
  sbx& sb = *in.sb;
  P rp = static_cast<P>(r);
  switch (pos) {
    case A_CELL: {
      Wd::wr<P>(sb, Inst::CELL, rp);
      tainted<int*, S> q = *Wd::tptr<int*>(sb, Inst::CELL);
      return addr_of(q);
    }
    case A_CELL_UNVERIFIED: {
      Wd::wr<P>(sb, Inst::CELL, rp);
      return reinterpret_cast<uintptr_t>((*Wd::tptr<int*>(sb, Inst::CELL)).UNSAFE_unverified());
    }
    case A_ARR_ELEM: {
      Wd::wr<P>(sb, Inst::ARR + idx * sizeof(P), rp);
      auto parr = Wd::tptr<int* [4]>(sb, Inst::ARR);
      tainted<int*, S> q = (*parr)[idx];
      return addr_of(q);
    }
    case A_ARR_WHOLE: {
      Wd::wr<P>(sb, Inst::ARR + idx * sizeof(P), rp);
      auto parr = Wd::tptr<int* [4]>(sb, Inst::ARR);
      tainted<int* [4], S> t = *parr;
      return addr_of(t[idx]);
    }
    case A_FIELD: {
      Wd::wr<P>(sb, Inst::STRUCT + offsetof(GPS, ptr), rp);
      tainted<int*, S> q = Wd::tptr<PS>(sb, Inst::STRUCT)->ptr;
      return addr_of(q);
    }
    case A_STRUCT_WHOLE: {
      Wd::wr<P>(sb, Inst::STRUCT + offsetof(GPS, ptr), rp);
      tainted<PS, S> t = *Wd::tptr<PS>(sb, Inst::STRUCT);
      return addr_of(t.ptr);
    }
    case A_STRUCT_ARR: {
      Wd::wr<P>(sb, Inst::STRUCT + offsetof(GPS, arr) + (idx % 3) * sizeof(P), rp);
      tainted<PS, S> t = *Wd::tptr<PS>(sb, Inst::STRUCT);
      return addr_of(t.arr[idx % 3]);
    }
    case A_NESTED: {
      Wd::wr<P>(sb, Inst::STRUCT + offsetof(GPS, in) + offsetof(GInner, cp), rp);
      tainted<char*, S> q = Wd::tptr<PS>(sb, Inst::STRUCT)->in.cp;
      return addr_any(q);
    }
    case A_NESTED_WHOLE: {
      Wd::wr<P>(sb, Inst::STRUCT + offsetof(GPS, in) + offsetof(GInner, cp), rp);
      tainted<PS, S> t = *Wd::tptr<PS>(sb, Inst::STRUCT);
      return addr_any(t.in.cp);
    }
    case A_CONSTCHAR: {
      Wd::wr<P>(sb, Inst::STRUCT + offsetof(GPS, cs), rp);
      tainted<const char*, S> q = Wd::tptr<PS>(sb, Inst::STRUCT)->cs;
      return reinterpret_cast<uintptr_t>(q.UNSAFE_unverified());
    }
    case A_INVOKE_RESULT: {
      ret_on = true;
      ret_val = r;
      auto q = Wd::invoke<int*(int*)>(sb, "echo_ptr", nullptr);
      ret_on = false;
      return addr_of(q);
    }
    case A_OPAQUE_RESULT: {
      ret_on = true;
      ret_val = r;
      auto o = Wd::invoke<int*(int*)>(sb, "echo_ptr", nullptr).to_opaque();
      ret_on = false;
      return addr_of(from_opaque(o));
    }
    // the unwrappers applied directly to a sandbox-resident struct: a plain application struct comes back
    case A_STRUCT_CELL_UNVERIFIED: {
      Wd::wr<P>(sb, Inst::STRUCT + offsetof(GPS, ptr), rp);
      PS plain = Wd::tptr<PS>(sb, Inst::STRUCT)->UNSAFE_unverified();
      return reinterpret_cast<uintptr_t>(plain.ptr);
    }
    case A_STRUCT_CELL_SAFE_BECAUSE: {
      Wd::wr<P>(sb, Inst::STRUCT + offsetof(GPS, arr) + (idx % 3) * sizeof(P), rp);
      PS plain = (*Wd::tptr<PS>(sb, Inst::STRUCT)).unverified_safe_because("monitor");
      return reinterpret_cast<uintptr_t>(plain.arr[idx % 3]);
    }
    case A_CALLBACK_ARG: {
      cbarg_on = true;
      cbarg_val = r;
      cb_called = false;
      cb_ret = 0;
      Wd::invoke<int*(int* (*)(int*), int*)>(sb, "call_cb_ptr", in.cb, nullptr);
      cbarg_on = false;
      return cb_called ? cb_seen : ~uintptr_t(0);
    }
    case A_PTRPTR: {
      // CELL2 holds a pointer to CELL, CELL holds r: **pp
      Wd::wr<P>(sb, Inst::CELL, rp);
      Wd::wr<P>(sb, Inst::CELL2, static_cast<P>(Inst::CELL));
      tainted<int**, S> ppv = *Wd::tptr<int**>(sb, Inst::CELL2);
      tainted<int*, S> q = *ppv;
      return addr_of(q);
    }
    case A_CV_ADDRESS: {
      Wd::wr<P>(sb, Inst::CELL, rp);
      return Wd::tptr<int*>(sb, Inst::CELL)->copy_and_verify_address([](uintptr_t a) { return a; });
    }
    case A_CV_STRUCT: {
      Wd::wr<P>(sb, Inst::STRUCT + offsetof(GPS, ptr), rp);
      auto ps = Wd::tptr<PS>(sb, Inst::STRUCT);
      return ps.copy_and_verify([](std::unique_ptr<tainted<PS, S>> v) { return reinterpret_cast<uintptr_t>(v->ptr.UNSAFE_unverified()); });
    }
    case A_STRUCT_RESULT: {
      std::memset(&struct_ret, 0, sizeof struct_ret);
      struct_ret.ptr = rp;
      auto t = Wd::invoke<PS()>(sb, "ret_struct");
      return addr_of(t.ptr);
    }
    case A_REINTERPRET_TV: {
      Wd::wr<P>(sb, Inst::CELL, rp);
      auto q = sandbox_reinterpret_cast<char*>(*Wd::tptr<int*>(sb, Inst::CELL));
      return addr_any(q);
    }
    default: return ~uintptr_t(0);
  }
}

// ------------------------------------------------------ to-sandbox positions
// each returns the representation the guest side ends up with for address a
enum ToSbx { S_CELL, S_CELL_FROM_TV, S_ARR_ELEM, S_ARR_WHOLE, S_FIELD, S_STRUCT_WHOLE, S_STRUCT_ARR, S_NESTED_WHOLE, S_INVOKE_ARG, S_INVOKE_ARG_TV, S_INVOKE_ARG_OPAQUE,
             S_CALLBACK_RESULT, S_FREE, S_FREE_TV, S_FREE_OPAQUE, S_STRUCT_ARG, S_UNSAFE_SANDBOXED, S_ASSIGN_RAW, S_NTOSBX };
inline const char* tosbx_name[] = { "store-cell", "store-cell-from-volatile", "store-array-element", "store-whole-array", "store-struct-field", "store-whole-struct",
                                    "store-whole-struct-array-field", "store-whole-struct-nested", "invoke-argument", "invoke-argument-volatile", "invoke-argument-opaque",
                                    "callback-result", "free", "free-volatile", "free-opaque", "by-value-struct-argument", "UNSAFE_sandboxed", "assign_raw_pointer-volatile" };

// a: application address inside `in`'s region, or 0 for null
inline uint64_t to_sbx(Inst& in, ToSbx pos, uintptr_t a, int idx = 0)
{
  sbx& sb = *in.sb;
  tainted<int*, S> p = nullptr;
  if (a) p = sb.UNSAFE_accept_pointer(reinterpret_cast<int*>(a));
  const P junk = static_cast<P>(0x5a5a5a5a);
  switch (pos) {
    case S_CELL: {
      Wd::wr<P>(sb, Inst::CELL, junk);
      *Wd::tptr<int*>(sb, Inst::CELL) = p;
      return Wd::rd<P>(sb, Inst::CELL);
    }
    case S_CELL_FROM_TV: {
      // CELL2 <- CELL (tainted_volatile to tainted_volatile: NO_CHANGE path)
      Wd::wr<P>(sb, Inst::CELL, junk);
      Wd::wr<P>(sb, Inst::CELL2, junk);
      *Wd::tptr<int*>(sb, Inst::CELL) = p;
      *Wd::tptr<int*>(sb, Inst::CELL2) = *Wd::tptr<int*>(sb, Inst::CELL);
      return Wd::rd<P>(sb, Inst::CELL2);
    }
    case S_ARR_ELEM: {
      Wd::wr<P>(sb, Inst::ARR + idx * sizeof(P), junk);
      (*Wd::tptr<int* [4]>(sb, Inst::ARR))[idx] = p;
      return Wd::rd<P>(sb, Inst::ARR + idx * sizeof(P));
    }
    case S_ARR_WHOLE: {
      tainted<int* [4], S> t;
      for (int i = 0; i < 4; i++) t[i] = nullptr;
      t[idx] = p;
      for (int i = 0; i < 4; i++) Wd::wr<P>(sb, Inst::ARR + i * sizeof(P), junk);
      *Wd::tptr<int* [4]>(sb, Inst::ARR) = t;
      for (int i = 0; i < 4; i++)
        if (i != idx && Wd::rd<P>(sb, Inst::ARR + i * sizeof(P)) != 0) return ~uint64_t(0) - 1; // null element not 0
      return Wd::rd<P>(sb, Inst::ARR + idx * sizeof(P));
    }
    case S_FIELD: {
      Wd::wr<P>(sb, Inst::STRUCT + offsetof(GPS, ptr), junk);
      Wd::tptr<PS>(sb, Inst::STRUCT)->ptr = p;
      return Wd::rd<P>(sb, Inst::STRUCT + offsetof(GPS, ptr));
    }
    case S_STRUCT_WHOLE:
    case S_STRUCT_ARR:
    case S_NESTED_WHOLE: {
      tainted<PS, S> t;
      t.tag = 'x'; t.ptr = nullptr; t.v = 5; t.arr[0] = nullptr; t.arr[1] = nullptr; t.arr[2] = nullptr; t.in.s = 3; t.in.cp = nullptr; t.cs = nullptr;
      t.fn = nullptr;
      uint64_t off;
      if (pos == S_STRUCT_WHOLE) { t.ptr = p; off = offsetof(GPS, ptr); }
      else if (pos == S_STRUCT_ARR) { t.arr[idx % 3] = p; off = offsetof(GPS, arr) + (idx % 3) * sizeof(P); }
      else { t.in.cp = sandbox_reinterpret_cast<char*>(p); off = offsetof(GPS, in) + offsetof(GInner, cp); }
      for (size_t i = 0; i < sizeof(GPS); i++) *reinterpret_cast<unsigned char*>(in.base + Inst::STRUCT + i) = 0x5a;
      *Wd::tptr<PS>(sb, Inst::STRUCT) = t;
      return Wd::rd<P>(sb, Inst::STRUCT + off);
    }
    case S_INVOKE_ARG: {
      world::glog.clear();
      Wd::invoke<int*(int*)>(sb, "echo_ptr", p);
      return world::glog.size() == 1 ? world::glog[0].a[0] : ~uint64_t(0);
    }
    case S_INVOKE_ARG_TV: {
      *Wd::tptr<int*>(sb, Inst::CELL) = p;
      world::glog.clear();
      Wd::invoke<int*(int*)>(sb, "echo_ptr", *Wd::tptr<int*>(sb, Inst::CELL));
      return world::glog.size() == 1 ? world::glog[0].a[0] : ~uint64_t(0);
    }
    case S_INVOKE_ARG_OPAQUE: {
      world::glog.clear();
      Wd::invoke<int*(int*)>(sb, "echo_ptr", p.to_opaque());
      return world::glog.size() == 1 ? world::glog[0].a[0] : ~uint64_t(0);
    }
    case S_CALLBACK_RESULT: {
      cb_ret = a;
      cb_called = false;
      world::glog.clear();
      Wd::invoke<int*(int* (*)(int*), int*)>(sb, "call_cb_ptr", in.cb, nullptr);
      for (auto& e : world::glog)
        if (!strcmp(e.fn, "call_cb_ptr.ret")) return e.a[1];
      return ~uint64_t(0);
    }
    case S_FREE: {
      vsbx_ev.frees = 0;
      sb.free_in_sandbox(p);
      return vsbx_ev.frees == 1 ? vsbx_ev.last_freed : ~uint64_t(0);
    }
    case S_FREE_TV: {
      *Wd::tptr<int*>(sb, Inst::CELL) = p;
      vsbx_ev.frees = 0;
      sb.free_in_sandbox(*Wd::tptr<int*>(sb, Inst::CELL));
      return vsbx_ev.frees == 1 ? vsbx_ev.last_freed : ~uint64_t(0);
    }
    case S_FREE_OPAQUE: {
      vsbx_ev.frees = 0;
      sb.free_in_sandbox(p.to_opaque());
      return vsbx_ev.frees == 1 ? vsbx_ev.last_freed : ~uint64_t(0);
    }
    case S_STRUCT_ARG: {
      tainted<PS, S> t;
      t.tag = 'x'; t.ptr = p; t.v = 5; t.arr[0] = nullptr; t.arr[1] = nullptr; t.arr[2] = nullptr; t.in.s = 3; t.in.cp = nullptr; t.cs = nullptr;
      t.fn = nullptr;
      world::glog.clear();
      Wd::invoke<int*(PS)>(sb, "take_struct", t);
      return world::glog.size() == 1 ? static_cast<uint64_t>(struct_seen.ptr) : ~uint64_t(0);
    }
    case S_UNSAFE_SANDBOXED: return static_cast<uint64_t>(p.UNSAFE_sandboxed(sb));
    case S_ASSIGN_RAW: {
      if (!a) return 0; // assign_raw_pointer rejects null by contract (C02)
      Wd::wr<P>(sb, Inst::CELL, junk);
      Wd::tptr<int*>(sb, Inst::CELL)->assign_raw_pointer(sb, reinterpret_cast<int*>(a));
      return Wd::rd<P>(sb, Inst::CELL);
    }
    default: return ~uint64_t(0);
  }
}

} // namespace pp
