#pragma once
// Access-trap interleaver (x86-64 Linux): the sandbox region is mprotect'ed
// PROT_NONE; the SIGSEGV handler counts the access, lets the adversary action
// run when its turn has come, unprotects and sets the trap flag; the SIGTRAP
// handler re-protects after that one instruction.  Every individual access
// RLBox (or libc on its behalf) makes to sandbox memory becomes an interleave
// point, without any change to RLBox.
#include <csignal>
#include <cstdint>
#include <cstdlib>
#include <cstring>
#include <sys/mman.h>
#include <ucontext.h>
#include <unistd.h>

namespace trap {
struct Access { uintptr_t addr; bool write; uintptr_t rip; };
struct State
{
  uintptr_t base = 0;
  size_t size = 0;
  volatile bool armed = false;
  volatile bool stepping = false;
  volatile int count = 0;
  volatile int fire_at = -1;
  volatile int fire_at2 = -1; // optional second adversary action (same function, own argument) before a later access
  void (*action)(void*) = nullptr;
  void* arg = nullptr;
  void* arg2 = nullptr;
  volatile bool fired = false;
  void (*foreign_fault)(int) = nullptr; // called for faults outside the trapped region (then the default action)
  Access log[8192];
};
inline State st;

inline void on_segv(int sig, siginfo_t* si, void* ucv)
{
  ucontext_t* uc = static_cast<ucontext_t*>(ucv);
  uintptr_t a = reinterpret_cast<uintptr_t>(si->si_addr);
  if (!st.armed || a < st.base || a >= st.base + st.size) {
    // not ours: record the context, then fall back to the default action (the fault repeats and kills the process)
    signal(sig, SIG_DFL);
    if (st.foreign_fault) st.foreign_fault(sig);
    return;
  }
  mprotect(reinterpret_cast<void*>(st.base), st.size, PROT_READ | PROT_WRITE);
  int k = st.count;
  if (k < 8192) {
    st.log[k].addr = a;
    st.log[k].write = (uc->uc_mcontext.gregs[REG_ERR] & 2) != 0;
    st.log[k].rip = static_cast<uintptr_t>(uc->uc_mcontext.gregs[REG_RIP]);
  }
  st.count = k + 1;
  if (k == st.fire_at && st.action) {
    st.action(st.arg); // adversary writes sandbox memory right before this access
    st.fired = true;
  }
  if (k == st.fire_at2 && st.action) st.action(st.arg2);
  uc->uc_mcontext.gregs[REG_EFL] |= 0x100; // trap flag: single-step the faulting instruction
  st.stepping = true;
}
inline void on_trap(int, siginfo_t*, void* ucv)
{
  ucontext_t* uc = static_cast<ucontext_t*>(ucv);
  if (st.stepping) {
    if (st.armed) mprotect(reinterpret_cast<void*>(st.base), st.size, PROT_NONE);
    uc->uc_mcontext.gregs[REG_EFL] &= ~0x100L;
    st.stepping = false;
  }
}
inline void install(uintptr_t base, size_t size)
{
  st.base = base;
  st.size = size;
  struct sigaction sa;
  memset(&sa, 0, sizeof sa);
  sa.sa_flags = SA_SIGINFO | SA_NODEFER;
  sa.sa_sigaction = on_segv;
  sigaction(SIGSEGV, &sa, nullptr);
  sa.sa_sigaction = on_trap;
  sigaction(SIGTRAP, &sa, nullptr);
}
// arm: from now on every access to the region traps; the action fires before access number fire_at
inline void arm(int fire_at, void (*action)(void*), void* arg)
{
  st.count = 0;
  st.fire_at = fire_at;
  st.fire_at2 = -1;
  st.action = action;
  st.arg = arg;
  st.fired = false;
  st.armed = true;
  mprotect(reinterpret_cast<void*>(st.base), st.size, PROT_NONE);
}
// arm with two actions: arg before access k1, arg2 before access k2 (k1 < k2)
inline void arm2(int k1, int k2, void (*action)(void*), void* arg, void* arg2)
{
  arm(k1, action, arg);
  st.armed = false;
  st.fire_at2 = k2;
  st.arg2 = arg2;
  st.armed = true;
}
inline int disarm()
{
  st.armed = false;
  mprotect(reinterpret_cast<void*>(st.base), st.size, PROT_READ | PROT_WRITE);
  return st.count;
}
// let harness code touch the region while a monitored call is in progress
struct Pause
{
  bool was;
  Pause() : was(st.armed) { if (was) { st.armed = false; mprotect(reinterpret_cast<void*>(st.base), st.size, PROT_READ | PROT_WRITE); } }
  ~Pause() { if (was) { st.armed = true; mprotect(reinterpret_cast<void*>(st.base), st.size, PROT_NONE); } }
};
}
