#pragma once
// E5 runner core for C01/C02: every generated form is a tiny function that can
// only run if the compiler accepted it.  The run-time monitor classifies the
// STATIC TYPE of the result it is handed and, for plain results, compares the
// value with the per-run secret; for pointer-carrying wrappers it applies the
// region invariant; backend event counters reveal application pointers that
// were translated into the sandbox.
#include "world.hpp"
#include "rlbox_noop_sandbox.hpp"

#include <array>
#include <functional>

namespace fc {
using namespace rlbox;
using Cfg = vsbx_ilp32;
using Wd = world::W<Cfg>;
using S = Wd::S;
using NS = rlbox_noop_sandbox;

enum E3 { EA = 0, EB = 1, EC = 2 };
struct PS { long a; char b; int* c; };
using pint = int*;
using ppint = int**;
using cpchar = const char*;
using fnp = int (*)(int);
using arr4 = int[4];
}
#define sandbox_fields_reflection_fc_class_PS(f, g, ...) \
  f(long, a, FIELD_NORMAL, ##__VA_ARGS__) g() f(char, b, FIELD_NORMAL, ##__VA_ARGS__) g() f(int*, c, FIELD_NORMAL, ##__VA_ARGS__) g()
#define sandbox_fields_reflection_fc_allClasses(f, ...) f(PS, fc, ##__VA_ARGS__)
using fc::PS;
rlbox_load_structs_from_library(fc);

namespace fc {

// ------------------------------------------------------------------ registry
struct Env;
struct FormReg { int id; const char* tag; const char* desc; void (*fn)(Env&); };
inline std::vector<FormReg>& forms() { static std::vector<FormReg> v; return v; }
struct Adder { Adder(int id, const char* tag, const char* desc, void (*fn)(Env&)) { forms().push_back({ id, tag, desc, fn }); } };
#define FORM(ID, TAG, DESC) static void form_##ID(::fc::Env& e); static ::fc::Adder add_##ID(ID, TAG, DESC, &form_##ID); static void form_##ID([[maybe_unused]] ::fc::Env& e)

// --------------------------------------------------------------------- state
inline const char* PROP = "C01";
inline int cur_id = 0;
inline const char* cur_tag = "n";
inline const char* cur_desc = "";
inline uint64_t n_wrapped = 0, n_hint = 0, n_allowed_plain = 0, n_threw = 0, n_ran = 0, n_ptr_ok = 0, n_c02_clean = 0;
inline int canary_target[4] = { 1, 2, 3, 4 }; // application memory: its address is the canary
inline int guest_calls = 0;

inline void violation(const char* cls, const std::string& d)
{
  // the key names the form's class (its tag letter + first word of the description), not the form number
  std::string word(cur_desc);
  size_t sp = word.find(' ');
  if (sp != std::string::npos) word = word.substr(0, sp);
  mon::violation(mon::fmt("%s/%s/%s", PROP, word.c_str(), cls), mon::fmt("form %d [%s]: %s", cur_id, cur_desc, d.c_str()));
}

template<typename T> struct is_wrapper : std::false_type {};
template<typename T, typename X> struct is_wrapper<tainted<T, X>> : std::true_type {};
template<typename T, typename X> struct is_wrapper<tainted_volatile<T, X>> : std::true_type {};
template<typename T, typename X> struct is_wrapper<tainted_opaque<T, X>> : std::true_type {};
template<typename T, typename X> struct is_wrapper<sandbox_callback<T, X>> : std::true_type {};
template<typename T, typename X> struct is_wrapper<app_pointer<T, X>> : std::true_type {};
template<typename T> struct is_hint : std::bool_constant<std::is_same_v<T, tainted_boolean_hint> || std::is_same_v<T, tainted_int_hint>> {};
template<typename T> struct is_tainted_ptr : std::false_type {};
template<typename T> struct is_tainted_ptr<tainted<T*, S>> : std::bool_constant<!std::is_function_v<T>> {};

struct Env
{
  Wd::sbx sb;
  rlbox_sandbox<NS> nsb;
  vsbx_library lib;
  uint64_t cell_off = 4096; // secrets live from here on, 64 bytes apart
  sandbox_callback<fnp, S> cb;
  app_pointer<pint, S> ap;
  // secrets
  static constexpr long long SECRET = 3; // small, so that every generated arithmetic/shift form has defined behaviour
  template<typename T> static T secret()
  {
    if constexpr (std::is_same_v<T, bool>) return true;
    else if constexpr (std::is_enum_v<T>) return static_cast<T>(2);
    else if constexpr (std::is_floating_point_v<T>) return static_cast<T>(3.5);
    else return static_cast<T>(SECRET);
  }
  template<typename T> static constexpr int slot()
  {
    if constexpr (std::is_same_v<T, bool>) return 0; else if constexpr (std::is_same_v<T, char>) return 1; else if constexpr (std::is_same_v<T, int>) return 2;
    else if constexpr (std::is_same_v<T, unsigned>) return 3; else if constexpr (std::is_same_v<T, long>) return 4; else if constexpr (std::is_same_v<T, unsigned long long>) return 5;
    else if constexpr (std::is_same_v<T, E3>) return 6; else if constexpr (std::is_same_v<T, float>) return 7; else if constexpr (std::is_same_v<T, double>) return 8;
    else if constexpr (std::is_same_v<T, pint>) return 9; else if constexpr (std::is_same_v<T, ppint>) return 10; else if constexpr (std::is_same_v<T, fnp>) return 11;
    else if constexpr (std::is_same_v<T, cpchar>) return 12; else if constexpr (std::is_same_v<T, short>) return 13; else if constexpr (std::is_same_v<T, unsigned char>) return 14;
    else return 15;
  }
  template<typename T> uint64_t off() { return cell_off + 64 * slot<T>(); }
  // (re)write all secrets into sandbox memory (forms may have modified them)
  void refresh()
  {
    auto put = [&](auto tag) {
      using T = typename decltype(tag)::type;
      using G = ref::guest_t<Cfg, T>;
      if constexpr (std::is_pointer_v<T>) Wd::wr<uint32_t>(sb, off<T>(), std::is_same_v<T, fnp> ? S::EXPORT_TABLE_BASE : static_cast<uint32_t>(off<int>()));
      else Wd::wr<G>(sb, off<T>(), static_cast<G>(secret<T>()));
    };
    put(std::common_type<bool>{}); put(std::common_type<char>{}); put(std::common_type<int>{}); put(std::common_type<unsigned>{}); put(std::common_type<long>{});
    put(std::common_type<unsigned long long>{}); put(std::common_type<E3>{}); put(std::common_type<float>{}); put(std::common_type<double>{});
    put(std::common_type<pint>{}); put(std::common_type<fnp>{}); put(std::common_type<cpchar>{}); put(std::common_type<short>{}); put(std::common_type<unsigned char>{});
    Wd::wr<uint32_t>(sb, off<ppint>(), static_cast<uint32_t>(off<pint>()));
    // int[4] and PS images
    for (int i = 0; i < 4; i++) Wd::wr<int32_t>(sb, cell_off + 64 * 16 + 4 * i, static_cast<int32_t>(SECRET + i));
    Wd::wr<int32_t>(sb, cell_off + 64 * 17, static_cast<int32_t>(SECRET));
    Wd::wr<char>(sb, cell_off + 64 * 17 + 4, 's');
    Wd::wr<uint32_t>(sb, cell_off + 64 * 17 + 8, static_cast<uint32_t>(off<int>()));
    vsbx_ev.reset();
    guest_calls = 0;
  }
  // operands
  template<typename T> tainted_volatile<T, S>& V() { return *Wd::tptr<T>(sb, off<T>()); }
  template<typename T> tainted<T, S> T_() { tainted<T, S> t = V<T>(); return t; }
  template<typename T> tainted_opaque<T, S> O() { return T_<T>().to_opaque(); }
  tainted_volatile<arr4, S>& Varr() { return *Wd::tptr<arr4>(sb, cell_off + 64 * 16); }
  tainted<arr4, S> Tarr() { tainted<arr4, S> t = Varr(); return t; }
  tainted_volatile<PS, S>& Vps() { return *Wd::tptr<PS>(sb, cell_off + 64 * 17); }
  tainted<PS, S> Tps() { tainted<PS, S> t = Vps(); return t; }
  tainted_boolean_hint HB() { return V<int>() == static_cast<int>(SECRET); }
  tainted_int_hint HI() { return rlbox::memcmp(sb, Wd::tptr<char>(sb, off<int>()), Wd::tptr<char>(sb, off<long>()), 2u); }
  sandbox_callback<fnp, S>& CB() { return cb; }
  app_pointer<pint, S>& AP() { return ap; }
  template<typename T> tainted<T, NS> NT() { tainted<T, NS> t = secret<T>(); return t; } // wrapper of ANOTHER sandbox type
  int* raw() { return &canary_target[1]; }
  template<typename T> T plain() { if constexpr (std::is_pointer_v<T>) return nullptr; else return static_cast<T>(3); }
};

// ------------------------------------------------------------------- monitor
inline bool tainted_ptr_ok(Env& e, const void* p)
{
  auto a = reinterpret_cast<uintptr_t>(p);
  return a == 0 || (a >= Wd::base(e.sb) && a - Wd::base(e.sb) < Wd::size(e.sb));
}

template<typename R>
inline void sink(Env& e, R&& r)
{
  using T = std::remove_cv_t<std::remove_reference_t<R>>;
  char tag = cur_tag[0];
  // a pointer to a wrapper object (e.g. &tainted_var, operator->) unwraps nothing
  using Pointee = std::remove_cv_t<std::remove_pointer_t<T>>;
  if constexpr (std::is_pointer_v<T> && (is_wrapper<Pointee>::value || is_hint<Pointee>::value)) {
    n_wrapped++;
  } else if constexpr (is_hint<T>::value) {
    n_hint++;
  } else if constexpr (is_wrapper<T>::value) {
    // comparisons that involve sandbox-resident data may only produce hints
    if (tag == 'v') { violation("volatile-comparison-yields-non-hint", mon::fmt("result is a %s, not a hint", typeid(T).name())); return; }
    if constexpr (is_tainted_ptr<T>::value) {
      if (!tainted_ptr_ok(e, reinterpret_cast<const void*>(r.UNSAFE_unverified()))) {
        bool canary = reinterpret_cast<uintptr_t>(r.UNSAFE_unverified()) >= reinterpret_cast<uintptr_t>(&canary_target[0]) &&
                      reinterpret_cast<uintptr_t>(r.UNSAFE_unverified()) < reinterpret_cast<uintptr_t>(&canary_target[4]);
        violation(canary ? "application-address-inside-tainted-pointer" : "tainted-pointer-outside-sandbox",
                  mon::fmt("the form compiled and produced a tainted pointer holding %p (%s)", reinterpret_cast<const void*>(r.UNSAFE_unverified()), canary ? "the canary application object" : "outside the sandbox"));
        return;
      }
      n_ptr_ok++;
    }
    n_wrapped++;
  } else {
    // a plain (non-wrapper) result
    bool allowed = (tag == 'u') || (tag == 'z' && std::is_same_v<T, bool>);
    if (allowed) { n_allowed_plain++; return; }
    std::string val = "(class value)";
    bool eq = false;
    if constexpr (std::is_arithmetic_v<T> || std::is_enum_v<T>) {
      val = std::to_string(static_cast<long double>(r));
      eq = static_cast<long double>(r) == static_cast<long double>(Env::SECRET) || static_cast<long double>(r) == 3.5L;
    } else if constexpr (std::is_pointer_v<T>) val = mon::fmt("%p", reinterpret_cast<const void*>(r));
    violation(std::is_same_v<T, bool> ? "plain-bool-result" : "plain-result",
              mon::fmt("the form compiled and produced a plain %s = %s%s without an unwrapping call", typeid(T).name(), val.c_str(), eq ? " (the secret)" : ""));
  }
}
// a plain condition was evaluated (if / while / ?: / switch / subscript)
inline void cond(Env&, bool)
{
  if (cur_tag[0] == 'z' || cur_tag[0] == 'u') { n_allowed_plain++; return; }
  violation("plain-condition-evaluated", "the wrapped value was used as a plain condition/index");
}
// C02: after a form ran, nothing application-side may have entered the sandbox
inline void after_c02(Env& e)
{
  if (vsbx_ev.outside_ptr_to_sandbox) { violation("application-pointer-translated-into-sandbox", mon::fmt("the backend was asked to translate %p, which is outside the sandbox", (void*)vsbx_ev.last_outside_ptr)); return; }
  if (guest_calls && cur_tag[0] == 'r') { violation("guest-reached-with-forbidden-argument", "the sandbox function was called"); return; }
  // no application address may sit verbatim in sandbox memory either (a raw copy never asks the backend)
  {
    const unsigned char* m = reinterpret_cast<const unsigned char*>(Wd::base(e.sb));
    size_t n = Wd::size(e.sb);
    for (int k = 0; k < 4; k++) {
      uintptr_t a = reinterpret_cast<uintptr_t>(&canary_target[k]);
      const void* hit = memmem(m, n, &a, sizeof a);
      if (hit) {
        violation("application-address-found-verbatim-in-sandbox-memory", mon::fmt("&canary_target[%d] = %p is stored at sandbox offset %zu", k, (void*)a, (size_t)(static_cast<const unsigned char*>(hit) - m)));
        // wipe every copy so that later forms are not blamed for it
        for (int kk = 0; kk < 4; kk++) {
          uintptr_t aa = reinterpret_cast<uintptr_t>(&canary_target[kk]);
          while (const void* h2 = memmem(m, n, &aa, sizeof aa)) memset(const_cast<void*>(h2), 0, sizeof aa);
        }
        return;
      }
    }
  }
  n_c02_clean++;
}

template<typename T> inline T takes(T x) { return x; }
inline int plain_fn(int x) { return x; }
// ill-formed callback signatures (C02)
inline tainted<int, S> cb_noparam() { return 1; }
inline tainted<int, NS> cb_wrongsbx(rlbox_sandbox<NS>&, tainted<int, NS> x) { return x; }
inline tainted<int, S> cb_plainparam(rlbox_sandbox<S>&, int x) { return x; }
inline tainted<int, S> cb_arrayparam(rlbox_sandbox<S>&, tainted<int[4], S> x) { return x[0]; }
inline int cb_plainret(rlbox_sandbox<S>&, tainted<int, S>) { return 1; }
inline tainted<int, S> cb_refparam(rlbox_sandbox<S>&, tainted<int, S>& x) { return x; }
inline int* cb_rawptrret(rlbox_sandbox<S>&, tainted<int, S>) { return &canary_target[0]; }
inline tainted<int, S> cb_secondsbx(tainted<int, S> x, rlbox_sandbox<S>&) { return x; }
inline tainted<int, S> cb_plainptrparam(rlbox_sandbox<S>&, int*) { return 1; }
// references to wrappers are not "tainted/tainted_opaque parameters": the interceptor passes wrappers by value
inline tainted<int, S> cb_constrefparam(rlbox_sandbox<S>&, const tainted<int, S>& x) { return x; }
inline tainted<int, S> cb_opaquerefparam(rlbox_sandbox<S>&, const tainted_opaque<int, S>& x) { return from_opaque(x); }
inline tainted<int, S> cb_opaquemutrefparam(rlbox_sandbox<S>&, tainted_opaque<int, S>& x) { return from_opaque(x); }
inline tainted<int, S> cb_opaquervalrefparam(rlbox_sandbox<S>&, tainted_opaque<int, S>&& x) { return from_opaque(x); }
inline tainted<int, S> cb_opaqueptrrefparam(rlbox_sandbox<S>&, const tainted_opaque<int*, S>& x) { (void)x; return 1; }
inline tainted_opaque<int, S> g_cb_static_opaque;
inline tainted_opaque<int, S>& cb_opaquerefret(rlbox_sandbox<S>&, tainted<int, S>) { return g_cb_static_opaque; }
inline const tainted<int, S>& cb_constrefret(rlbox_sandbox<S>&, tainted<int, S>) { static tainted<int, S> t = 1; return t; }
inline tainted<int, S> cb_sbxbyvalue(rlbox_sandbox<S>*, tainted<int, S> x) { return x; }
inline tainted<int, S> cb_volatileparam(rlbox_sandbox<S>&, tainted_volatile<int, S>& x) { return x; }
inline tainted_opaque<int*, NS> cb_foreign_opaque_ret(rlbox_sandbox<S>&, tainted<int, S>) { tainted<int*, NS> t = nullptr; return t.to_opaque(); }
inline tainted<int, S> cb_foreign_opaque_param(rlbox_sandbox<S>&, tainted_opaque<int*, NS>) { return 1; }
inline tainted<long, S> cb_good2(rlbox_sandbox<S>&, tainted<long, S> x) { return x; }
inline tainted_opaque<int, S> cb_good_opaque(rlbox_sandbox<S>&, tainted_opaque<int, S> x) { return x; }
inline tainted<long, S> cb_long(rlbox_sandbox<S>&, tainted<long, S> x) { return x; }
inline uint64_t n_cb_ok = 0;
template<typename C>
inline void sink_cb(Env& e, C& c)
{
  (void)e;
  if (cur_tag[0] == 'r' && !c.is_unregistered()) { violation("ill-typed-callback-registered", "register_callback accepted the function and returned a registered object"); c.unregister(); return; }
  if (cur_tag[0] == 'g' && c.is_unregistered()) { violation("well-formed-callback-refused", ""); return; }
  n_cb_ok++;
  c.unregister();
}

inline int32_t g_echo_int_fwd(int32_t x) { return x; }
inline uint64_t g_ep_acc = 0, g_ep_rej = 0;
// the addresses the entry points are swept over
template<typename F>
inline void c02_entry_point_addresses(Env& e, mon::Rng& rng, uintptr_t obase, F&& one)
{
  uintptr_t base = Wd::base(e.sb);
  size_t size = Wd::size(e.sb);
  uintptr_t step = mon::thorough() ? 1 : 7;
  for (uintptr_t a = base - 4096; a < base + size + 4096; a += (a >= base + 64 && a + 64 < base + size) ? step : 1) one(a, "region-window");
  for (uintptr_t a = obase - 64; a < obase + 256; a++) one(a, "other-live-sandbox");
  one(obase + size - 1, "other-live-sandbox");
  one(0, "null");
  static int g;
  int s;
  std::unique_ptr<int> h(new int);
  one(reinterpret_cast<uintptr_t>(&g), "global"); one(reinterpret_cast<uintptr_t>(&s), "stack"); one(reinterpret_cast<uintptr_t>(h.get()), "heap");
  one(reinterpret_cast<uintptr_t>(&plain_fn), "application-function"); one(reinterpret_cast<uintptr_t>(&g_echo_int_fwd), "guest-function-host-address");
  // addresses congruent to an inside address modulo 2^32 (narrowed representation aliases)
  for (int k = 1; k <= 4; k++)
    for (uint64_t off : { uint64_t(0), uint64_t(16), uint64_t(size - 1) }) { one(base + off + (static_cast<uintptr_t>(k) << 32), "inside-plus-k*4GiB"); one(base + off - (static_cast<uintptr_t>(k) << 32), "inside-minus-k*4GiB"); }
  for (int i = 0; i < mon::tier(20000, 1000000); i++) one(rng(), "random-64-bit");
}
// C02 run-time entry points: abort <=> address outside this sandbox's memory.  P = char* (data pointers) or a function-pointer
// type; the function-pointer instantiation is made from a generated form, so a tree in which it does not compile only loses it.
template<typename P>
inline void c02_entry_points_t(Env& e, mon::Rng& rng, const char* kind)
{
  Wd::sbx other;
  other.create_sandbox(&e.lib);
  uintptr_t base = Wd::base(e.sb), obase = Wd::base(other);
  size_t size = Wd::size(e.sb);
  constexpr bool isfn = std::is_function_v<std::remove_pointer_t<P>>;
  std::string n0 = std::string("tainted::assign_raw_pointer") + kind, n1 = std::string("UNSAFE_accept_pointer") + kind, n2 = std::string("tainted_volatile::assign_raw_pointer") + kind;
  auto outside_nonnull = [&](uintptr_t v) { return v != 0 && !(v >= base && v - base < size); };
  auto one = [&](uintptr_t a, const char* where) {
    bool inside = a >= base && a - base < size;
    P p = reinterpret_cast<P>(a);
    mon::ctx("entry-points%s/%s | %p", kind, where, (void*)a);
    tainted<P, S> t = nullptr;
    bool ab1 = mon::aborts([&] { t.assign_raw_pointer(e.sb, p); });
    tainted<P, S> t2 = nullptr;
    bool ab2 = mon::aborts([&] { t2 = e.sb.UNSAFE_accept_pointer(p); });
    uint64_t cell_off = isfn ? e.off<fnp>() : e.off<cpchar>();
    Wd::wr<uint32_t>(e.sb, cell_off, 0x5a5a5a5a);
    bool ab3 = mon::aborts([&] { Wd::tptr<P>(e.sb, cell_off)->assign_raw_pointer(e.sb, p); });
    uint32_t cell = Wd::rd<uint32_t>(e.sb, cell_off);
    mon::evals(3);
    const std::string* names[3] = { &n0, &n1, &n2 };
    bool abs[3] = { ab1, ab2, ab3 };
    for (int k = 0; k < 3; k++) {
      cur_desc = names[k]->c_str();
      if (inside && abs[k]) violation("entry-point-rejected-address-inside-sandbox", mon::fmt("%s(%s, base%+lld)", names[k]->c_str(), where, (long long)(a - base)));
      else if (!inside && !abs[k]) violation("entry-point-accepted-address-outside-sandbox", mon::fmt("%s accepted %p (%s), sandbox memory is %p..%p", names[k]->c_str(), (void*)a, where, (void*)base, (void*)(base + size - 1)));
      else (inside ? g_ep_acc : g_ep_rej)++;
    }
    // a rejected call must not have stored the application address either (observable once aborts are exceptions)
    if (!inside && ab1 && outside_nonnull(reinterpret_cast<uintptr_t>(t.UNSAFE_unverified()))) { cur_desc = n0.c_str(); violation("rejected-call-left-address-outside-sandbox-in-the-wrapper", mon::fmt("%s: tainted holds %p after the call aborted", where, (void*)t.UNSAFE_unverified())); }
    if (!inside && ab2 && outside_nonnull(reinterpret_cast<uintptr_t>(t2.UNSAFE_unverified()))) { cur_desc = n1.c_str(); violation("rejected-call-left-address-outside-sandbox-in-the-wrapper", where); }
    if constexpr (!isfn) {
      if (inside && !ab1 && reinterpret_cast<uintptr_t>(t.UNSAFE_unverified()) != a) { cur_desc = n0.c_str(); violation("entry-point-stored-other-address", where); }
      if (inside && !ab2 && reinterpret_cast<uintptr_t>(t2.UNSAFE_unverified()) != a) { cur_desc = n1.c_str(); violation("entry-point-stored-other-address", where); }
      if (inside && !ab3 && cell != static_cast<uint32_t>(a - base)) { cur_desc = n2.c_str(); violation("entry-point-stored-other-representation", mon::fmt("%s: cell holds %u for base+%llu", where, cell, (unsigned long long)(a - base))); }
    }
  };
  cur_id = 0; cur_tag = "r";
  c02_entry_point_addresses(e, rng, obase, one);
  if constexpr (!isfn) mon::distinct_counted((size + 8192) / (mon::thorough() ? 1 : 7));
  other.destroy_sandbox();
}
inline void c02_entry_points(Env& e, mon::Rng& rng)
{
  c02_entry_points_t<char*>(e, rng, "");
  mon::hit("entry-point-accepted-inside", g_ep_acc);
  mon::hit("entry-point-rejected-outside", g_ep_rej);
  mon::require("entry-point-accepted-inside");
  mon::require("entry-point-rejected-outside");
}

inline int32_t g_echo_int(int32_t x) { guest_calls++; return x; }
inline uint32_t g_echo_ptr(uint32_t x) { guest_calls++; return x; }
inline uint32_t g_take_fn(uint32_t x) { guest_calls++; return x; }
inline tainted<int, S> good_cb(rlbox_sandbox<S>&, tainted<int, S> x) { return x; }

inline int run_all(const char* prop, int argc, char** argv)
{
  PROP = prop;
  mon::init(prop, argc, argv);
  mon::require("forms-executed");
  Env e;
  e.lib.id = 1;
  e.lib.add("echo_int", reinterpret_cast<void*>(&g_echo_int));
  e.lib.add("echo_ptr", reinterpret_cast<void*>(&g_echo_ptr));
  e.lib.add("take_fn", reinterpret_cast<void*>(&g_take_fn));
  e.sb.create_sandbox(&e.lib);
  e.nsb.create_sandbox();
  e.cb = e.sb.register_callback(good_cb);
  e.ap = e.sb.get_app_pointer(&canary_target[2]);
  for (auto& f : forms()) {
    cur_id = f.id; cur_tag = f.tag; cur_desc = f.desc;
    e.refresh();
    mon::ctx("form %d %s | %s", f.id, f.tag, f.desc);
    bool threw = mon::aborts([&] { f.fn(e); });
    n_ran++;
    mon::evals();
    mon::distinct(mon::mix(0xf0, f.id));
    if (threw) n_threw++;
    else if (!strcmp(prop, "C02")) after_c02(e);
    if (!threw && getenv("VERIF_LIST_COMPLETED")) fprintf(stderr, "[completed] %d %s %s\n", f.id, f.tag, f.desc);
    // tag "f": the statement says such a program cannot exist or must abort -- running to completion is the violation
    if (!threw && f.tag[0] == 'f') violation("forbidden-program-ran-to-completion", "it compiled, ran and did not abort");
  }
  if (!strcmp(prop, "C02") && mon::slice() == 0) { mon::Rng rng(mon::seed() * 53 + 2); c02_entry_points(e, rng); }
  mon::hit("forms-executed", n_ran);
  mon::hit("result-is-wrapped", n_wrapped);
  mon::hit("result-is-hint", n_hint);
  mon::hit("allowed-plain-result(null-test-or-explicit-unwrapper)", n_allowed_plain);
  mon::hit("form-aborted-at-run-time", n_threw);
  mon::hit("tainted-pointer-null-or-inside", n_ptr_ok);
  mon::hit("no-application-pointer-entered", n_c02_clean);
  static int ns = 0;
  for (auto& f : forms()) if (ns++ % 211 == 0) mon::sample(mon::fmt("{\"form\":%d,\"tag\":\"%s\",\"text\":\"%s\"}", f.id, f.tag, mon::jesc(f.desc).c_str()));
  e.cb.unregister();
  e.ap.unregister();
  e.nsb.destroy_sandbox();
  e.sb.destroy_sandbox();
  return mon::finish();
}
} // namespace fc
