#pragma once
// E1 -- foreign-ABI model backend plug-in for RLBox (harness code, trusted base).
//
// Written against the same impl_* contract as rlbox_noop_sandbox /
// rlbox_dylib_sandbox / the out-of-tree wasm2c plug-in.  One mmap'ed,
// size-aligned, guard-paged region per instance; non-identity pointer
// translation; exact membership predicates; exported guest functions with an
// internal representation distinct from their call address; a small callback
// slot table; a per-thread "current instance"; event counters that let the
// monitors observe what RLBox asked the backend to do.
//
// Include after rlbox_helpers.hpp is reachable (i.e. -I/repo/code/include).

#include <atomic>
#include <cstdint>
#include <cstdlib>
#include <cstring>
#include <map>
#include <mutex>
#include <shared_mutex>
#include <string>
#include <sys/mman.h>
#include <type_traits>
#include <utility>
#include <vector>

#include "rlbox_helpers.hpp"

namespace rlbox {

// ---------------------------------------------------------------- libraries
struct vsbx_export
{
  void* call_addr;     // what impl_lookup_symbol returns (host-callable)
  void* internal_addr; // what impl_internal_lookup_symbol returns (table entry)
};

struct vsbx_library
{
  int id = 0;
  std::map<std::string, vsbx_export> exports;
  std::vector<std::string> order; // index -> name, defines the table index
  void add(const char* name, void* call_addr, void* internal_addr = nullptr)
  {
    exports[name] = vsbx_export{ call_addr,
                                 internal_addr ? internal_addr : call_addr };
    order.emplace_back(name);
  }
};

// ------------------------------------------------------------ event counters
// Counters are per thread (no shared mutable state between instances, so the
// model itself cannot introduce or hide a race in the TSan builds).
struct vsbx_events
{
  uint64_t outside_ptr_to_sandbox = 0; // get_sandboxed_pointer(p), p outside
  uint64_t unknown_fn_to_sandbox = 0;  // function address not in the table
  uint64_t no_sandbox_for_example = 0; // finder returned null
  uint64_t wrong_repr_call = 0;        // export invoked via internal stub
  uint64_t frees = 0;
  uint64_t last_freed = 0;
  uint64_t mallocs = 0;
  uint64_t last_malloc_size = 0; // bytes RLBox asked for in the most recent allocation request
  uintptr_t last_outside_ptr = 0;
  // arguments of the most recent membership query (what RLBox range-checked)
  uintptr_t last_same_p1 = 0, last_same_p2 = 0;
  uint64_t same_queries = 0;
  // grant/deny hooks (configs with grant = true): what RLBox handed to the backend last
  uint64_t grant_requests = 0, deny_requests = 0;
  uintptr_t last_grant_src = 0, last_deny_src = 0;
  uint64_t last_grant_num = 0, last_deny_num = 0;
  size_t last_grant_elsize = 0, last_deny_elsize = 0;
  // typed entry points (like an indirect call in a wasm module): the signature the backend was told at registration
  // differs in the size or float-ness of a parameter / result from the one guest code calls the entry point with
  uint64_t entry_point_signature_mismatch = 0;
  void reset() { *this = vsbx_events{}; }
};
inline thread_local vsbx_events vsbx_ev;

// ---------------------------------------------------------------- ABI configs
// finder: example-based (no-context) translation goes through RLBox's
//         find_sandbox_from_example (registry on the path) instead of masking.
struct vsbx_ilp32
{
  using S = int16_t; using I = int32_t; using L = int32_t; using LL = int64_t;
  using P = uint32_t;
  static constexpr bool finder = false;
  static constexpr const char* name = "ILP32/MASK";
};
struct vsbx_ilp32f : vsbx_ilp32
{
  static constexpr bool finder = true;
  static constexpr const char* name = "ILP32/FINDER";
};
// ILP32 whose backend offers the optional grant/deny-access hooks (can_grant_deny_access).  The hooks record what they
// are handed and accept or decline by vsbx_grant_policy (declining makes RLBox fall back to copying), so both the hook
// path and the copy path behind it are driven.
struct vsbx_ilp32g : vsbx_ilp32
{
  static constexpr bool grant = true;
  static constexpr const char* name = "ILP32/MASK+grant";
};
// ILP32 whose 2-argument membership hook compares the size-aligned blocks of the two addresses (the idiom of the in-repo
// test backend and of backends with power-of-two aligned heaps) instead of looking both up: two application addresses in
// different 64 KiB blocks are "not in the same sandbox".
struct vsbx_ilp32m : vsbx_ilp32
{
  static constexpr bool mask_same = true;
  static constexpr const char* name = "ILP32/MASK+mask-membership";
};
struct vsbx_grant_policy { static inline thread_local bool accept_deny = false; static inline thread_local bool accept_grant = false; };
struct vsbx_narrow
{
  using S = int8_t; using I = int16_t; using L = int32_t; using LL = int32_t;
  using P = uint32_t;
  static constexpr bool finder = false;
  static constexpr const char* name = "NARROW/MASK";
};
struct vsbx_wide
{
  using S = int32_t; using I = int64_t; using L = int64_t; using LL = int64_t;
  using P = uint64_t;
  static constexpr bool finder = true;
  static constexpr const char* name = "WIDE/FINDER";
};
struct vsbx_host
{
  using S = short; using I = int; using L = long; using LL = long long;
  using P = uint64_t;
  static constexpr bool finder = false;
  static constexpr const char* name = "HOST/MASK";
};

// --------------------------------------------------- process-wide region table
// Used only by the 2-argument impl_is_in_same_sandbox (exact membership
// without going through RLBox's registry).  Protected by its own lock.
struct vsbx_region_table
{
  struct ent { uintptr_t base; size_t size; };
  static inline std::shared_timed_mutex mtx;
  static inline std::vector<ent> live;
  static void add(uintptr_t b, size_t s)
  {
    std::unique_lock<std::shared_timed_mutex> l(mtx);
    live.push_back({ b, s });
  }
  static void remove(uintptr_t b)
  {
    std::unique_lock<std::shared_timed_mutex> l(mtx);
    for (size_t i = 0; i < live.size(); i++)
      if (live[i].base == b) { live.erase(live.begin() + i); return; }
  }
  // returns base of the containing live region or 0
  static uintptr_t find(uintptr_t p)
  {
    std::shared_lock<std::shared_timed_mutex> l(mtx);
    for (auto& e : live)
      if (p >= e.base && p - e.base < e.size) return e.base;
    return 0;
  }
};

template<typename Cfg>
class rlbox_vsbx_sandbox;

namespace vsbx_detail {
template<typename C, typename = void> struct has_grant : std::false_type {};
template<typename C> struct has_grant<C, std::enable_if_t<C::grant>> : std::true_type {};
struct grant_tag { using can_grant_deny_access = void; };
template<typename C, typename = void> struct has_mask_same : std::false_type {};
template<typename C> struct has_mask_same<C, std::enable_if_t<C::mask_same>> : std::true_type {};
struct no_grant_tag {};
  // 2-argument and 3-argument forms of impl_is_in_same_sandbox.  RLBox picks
  // by counting the parameters of the (non-overloaded) static member.
  template<typename Cfg>
  struct same2
  {
    static inline bool impl_is_in_same_sandbox(const void* p1, const void* p2)
    {
      vsbx_ev.last_same_p1 = reinterpret_cast<uintptr_t>(p1);
      vsbx_ev.last_same_p2 = reinterpret_cast<uintptr_t>(p2);
      vsbx_ev.same_queries++;
      if constexpr (has_mask_same<Cfg>::value) {
        // every region of this backend type has the same power-of-two size and is aligned to it
        uintptr_t mask = ~(static_cast<uintptr_t>(rlbox_vsbx_sandbox<Cfg>::region_size) - 1);
        return (reinterpret_cast<uintptr_t>(p1) & mask) == (reinterpret_cast<uintptr_t>(p2) & mask);
      } else {
        return vsbx_region_table::find(reinterpret_cast<uintptr_t>(p1)) ==
               vsbx_region_table::find(reinterpret_cast<uintptr_t>(p2));
      }
    }
  };
  template<typename Cfg>
  struct same3
  {
    static inline bool impl_is_in_same_sandbox(
      const void* p1,
      const void* p2,
      rlbox_vsbx_sandbox<Cfg>* (*finder)(const void*))
    {
      vsbx_ev.last_same_p1 = reinterpret_cast<uintptr_t>(p1);
      vsbx_ev.last_same_p2 = reinterpret_cast<uintptr_t>(p2);
      vsbx_ev.same_queries++;
      return finder(p1) == finder(p2);
    }
  };
}

// ------------------------------------------------------------------- backend
template<typename Cfg>
class rlbox_vsbx_sandbox
  : public std::conditional_t<Cfg::finder,
                              vsbx_detail::same3<Cfg>,
                              vsbx_detail::same2<Cfg>>
  , public std::conditional_t<vsbx_detail::has_grant<Cfg>::value, vsbx_detail::grant_tag, vsbx_detail::no_grant_tag>
{
public:
  // ---- harness switches (what kind of backend / sandboxed code this is; the plug-in hooks below consult them)
  static inline bool strict_function_table = false; // harness switch, see impl_get_unsandboxed_pointer
  static inline bool unconfined_translation = false; // harness switch: data pointers are base+representation, unmasked
  static inline uint64_t hostile_malloc_repr = 0;    // harness switch: the sandbox's allocator answers with this representation

  using T_LongLongType = typename Cfg::LL;
  using T_LongType = typename Cfg::L;
  using T_IntType = typename Cfg::I;
  using T_PointerType = typename Cfg::P;
  using T_ShortType = typename Cfg::S;
  using needs_internal_lookup_symbol = void;
  using self = rlbox_vsbx_sandbox<Cfg>;
  using cfg = Cfg;

  struct tdata
  {
    self* sandbox;
    uint32_t last_callback_invoked;
  };

  static constexpr uint32_t MAX_CALLBACKS = 8;
  static constexpr uint32_t CB_TABLE_BASE = 0x100;
  static constexpr uint32_t EXPORT_TABLE_BASE = 0x1000;
  static constexpr uint32_t UNKNOWN_FN_REPR = 0x0BAD0000;

  // region geometry: process-wide per backend type (set before create)
  static inline size_t region_size = size_t(1) << 16;
  // bytes committed at the start of the region (0 = all); the last page is
  // always committed too.  Only used for very large regions.
  static inline size_t commit_size = 0;

  // --- instance state (public so monitors can read it; RLBox derives
  //     protected, harness reaches it through get_sandbox_impl()) ---
  uintptr_t base = 0;
  size_t size = 0;
  void* mapping = nullptr;
  size_t mapping_len = 0;
  size_t brk = 16;
  size_t alloc_limit = 0; // 0 = no injected limit; else fail when brk>limit
  const vsbx_library* lib = nullptr;
  void* callback_keys_[MAX_CALLBACKS]{};
  void* callback_fns_[MAX_CALLBACKS]{};
  // machine-level signature of each entry point as told to impl_register_callback: per value its size, bit 7 = floating point
  struct sigdesc { uint8_t n = 0; uint8_t d[24]{}; bool operator==(const sigdesc& o) const { return n == o.n && !std::memcmp(d, o.d, sizeof d); } };
  sigdesc callback_sigs_[MAX_CALLBACKS]{};
  template<typename T> static constexpr uint8_t sigcode()
  {
    if constexpr (std::is_void_v<T>) return 0;
    else return static_cast<uint8_t>((sizeof(T) & 0x7f) | (std::is_floating_point_v<T> ? 0x80 : 0));
  }
  template<typename T_Ret, typename... T_Args> static sigdesc make_sig()
  {
    sigdesc r;
    r.d[r.n++] = sigcode<T_Ret>();
    ((r.n < 24 ? (void)(r.d[r.n++] = sigcode<T_Args>()) : (void)0), ...);
    return r;
  }
  static inline char cb_addr_tag[MAX_CALLBACKS]{};
  static inline thread_local tdata thread_data{ nullptr, 0 };

protected:
  inline bool impl_create_sandbox(const vsbx_library* l, bool succeed = true)
  {
    if (!succeed) return false;
    size = region_size;
    mapping_len = size * 2 + 2 * 4096;
    mapping = mmap(nullptr, mapping_len, PROT_NONE,
                   MAP_PRIVATE | MAP_ANONYMOUS | MAP_NORESERVE, -1, 0);
    if (mapping == MAP_FAILED) std::abort();
    uintptr_t m = reinterpret_cast<uintptr_t>(mapping) + 4096;
    base = (m + size - 1) & ~static_cast<uintptr_t>(size - 1);
    size_t c = (commit_size && commit_size < size) ? commit_size : size;
    if (mprotect(reinterpret_cast<void*>(base), c, PROT_READ | PROT_WRITE))
      std::abort();
    if (c != size &&
        mprotect(reinterpret_cast<void*>(base + size - 4096), 4096,
                 PROT_READ | PROT_WRITE))
      std::abort();
    lib = l;
    brk = 16;
    alloc_limit = 0;
    for (uint32_t i = 0; i < MAX_CALLBACKS; i++) {
      callback_keys_[i] = nullptr;
      callback_fns_[i] = nullptr;
    }
    vsbx_region_table::add(base, size);
    return true;
  }

  inline void impl_destroy_sandbox()
  {
    vsbx_region_table::remove(base);
    munmap(mapping, mapping_len);
    mapping = nullptr;
    base = 0;
    size = 0;
    lib = nullptr;
  }

  inline void impl_reset_sandbox() { brk = 16; }

  // ---- pointer translation with context
  template<typename T>
  inline void* impl_get_unsandboxed_pointer(T_PointerType p) const
  {
    if constexpr (std::is_function_v<std::remove_pointer_t<T>>) {
      uint64_t r = static_cast<uint64_t>(p);
      if (r >= EXPORT_TABLE_BASE && lib &&
          r - EXPORT_TABLE_BASE < lib->order.size()) {
        return lib->exports.at(lib->order[r - EXPORT_TABLE_BASE]).internal_addr;
      }
      if (r >= CB_TABLE_BASE && r - CB_TABLE_BASE < MAX_CALLBACKS) {
        return &cb_addr_tag[r - CB_TABLE_BASE];
      }
      // a backend may treat an index outside its function table as an error of its own (a bounds-checked table) ...
      if (strict_function_table) detail::dynamic_check(false, "vsbx: function table index out of range");
      return nullptr; // ... or answer "no such function"
    } else {
      // any representation designates an in-region address (cf. a wasm heap) ...
      // ... unless the harness asks for the base+offset translation of the in-repo test backend, which confines nothing
      if (unconfined_translation) return reinterpret_cast<void*>(base + static_cast<uintptr_t>(p));
      return reinterpret_cast<void*>(
        base + (static_cast<uintptr_t>(p) & (size - 1)));
    }
  }

  template<typename T>
  inline T_PointerType impl_get_sandboxed_pointer(const void* p) const
  {
    if constexpr (std::is_function_v<std::remove_pointer_t<T>>) {
      if (lib) {
        for (size_t i = 0; i < lib->order.size(); i++) {
          if (lib->exports.at(lib->order[i]).internal_addr == p)
            return static_cast<T_PointerType>(EXPORT_TABLE_BASE + i);
        }
      }
      auto c = reinterpret_cast<const char*>(p);
      if (c >= cb_addr_tag && c < cb_addr_tag + MAX_CALLBACKS)
        return static_cast<T_PointerType>(CB_TABLE_BASE + (c - cb_addr_tag));
      vsbx_ev.unknown_fn_to_sandbox++;
      return static_cast<T_PointerType>(UNKNOWN_FN_REPR);
    } else {
      uintptr_t v = reinterpret_cast<uintptr_t>(p);
      if (!(v >= base && v - base < size)) {
        vsbx_ev.outside_ptr_to_sandbox++;
        vsbx_ev.last_outside_ptr = v;
      }
      return static_cast<T_PointerType>(v - base);
    }
  }

  // ---- pointer translation from an example address
  template<typename T>
  static inline void* impl_get_unsandboxed_pointer_no_ctx(
    T_PointerType p,
    const void* example,
    self* (*finder)(const void*))
  {
    if constexpr (Cfg::finder || std::is_function_v<std::remove_pointer_t<T>>) {
      auto s = finder(example);
      if (!s) vsbx_ev.no_sandbox_for_example++;
      detail::dynamic_check(
        s != nullptr, "vsbx: example pointer is not inside any live sandbox");
      return s->template impl_get_unsandboxed_pointer<T>(p);
    } else {
      uintptr_t b = reinterpret_cast<uintptr_t>(example) &
                    ~static_cast<uintptr_t>(region_size - 1);
      return reinterpret_cast<void*>(
        b + (static_cast<uintptr_t>(p) & (region_size - 1)));
    }
  }

  template<typename T>
  static inline T_PointerType impl_get_sandboxed_pointer_no_ctx(
    const void* p,
    const void* example,
    self* (*finder)(const void*))
  {
    if constexpr (Cfg::finder || std::is_function_v<std::remove_pointer_t<T>>) {
      auto s = finder(example);
      if (!s) vsbx_ev.no_sandbox_for_example++;
      detail::dynamic_check(
        s != nullptr, "vsbx: example pointer is not inside any live sandbox");
      return s->template impl_get_sandboxed_pointer<T>(p);
    } else {
      uintptr_t b = reinterpret_cast<uintptr_t>(example) &
                    ~static_cast<uintptr_t>(region_size - 1);
      uintptr_t v = reinterpret_cast<uintptr_t>(p);
      if (!(v >= b && v - b < region_size)) {
        vsbx_ev.outside_ptr_to_sandbox++;
        vsbx_ev.last_outside_ptr = v;
      }
      return static_cast<T_PointerType>(v - b);
    }
  }

  // ---- memory
  inline T_PointerType impl_malloc_in_sandbox(size_t sz)
  {
    vsbx_ev.last_malloc_size = sz;
    // Not created (never, failed creation, or destroyed): RLBox must not ask at all.  A backend in that state owes
    // nothing, so the model answers with a non-null value: a request that leaks through becomes visible to the caller.
    if (base == 0) {
      vsbx_ev.mallocs++;
      return static_cast<T_PointerType>(64);
    }
    if (hostile_malloc_repr) { vsbx_ev.mallocs++; return static_cast<T_PointerType>(hostile_malloc_repr); } // the allocator is sandboxed code
    size_t r = (sz + 7) & ~size_t(7);
    if (r < sz || r > size || brk + r > size) return 0;
    if (alloc_limit && brk + r > alloc_limit) return 0;
    auto ret = brk;
    brk += r;
    vsbx_ev.mallocs++;
    return static_cast<T_PointerType>(ret);
  }

  inline void impl_free_in_sandbox(T_PointerType p)
  {
    vsbx_ev.frees++;
    vsbx_ev.last_freed = static_cast<uint64_t>(p);
  }

  inline bool impl_is_pointer_in_sandbox_memory(const void* p)
  {
    auto v = reinterpret_cast<uintptr_t>(p);
    return v >= base && v - base < size;
  }
  inline bool impl_is_pointer_in_app_memory(const void* p)
  {
    return !impl_is_pointer_in_sandbox_memory(p);
  }
  inline size_t impl_get_total_memory() { return size; }
  inline void* impl_get_memory_location()
  {
    return reinterpret_cast<void*>(base);
  }

  // ---- symbols
  // optional grant/deny hooks (reachable only with a config that has grant = true)
  template<typename T>
  inline T* impl_grant_access(T* src, size_t num, bool& success)
  {
    vsbx_ev.grant_requests++;
    vsbx_ev.last_grant_src = reinterpret_cast<uintptr_t>(src);
    vsbx_ev.last_grant_num = num;
    vsbx_ev.last_grant_elsize = sizeof(T);
    // declines by default (RLBox then copies); with accept_grant it pretends to have mapped the buffer at base+64
    success = vsbx_grant_policy::accept_grant;
    return success ? reinterpret_cast<T*>(base + 64) : nullptr;
  }
  template<typename T>
  inline T* impl_deny_access(T* src, size_t num, bool& success)
  {
    vsbx_ev.deny_requests++;
    vsbx_ev.last_deny_src = reinterpret_cast<uintptr_t>(src);
    vsbx_ev.last_deny_num = num;
    vsbx_ev.last_deny_elsize = sizeof(T);
    success = vsbx_grant_policy::accept_deny;
    return success ? src : nullptr;
  }

  void* impl_lookup_symbol(const char* name)
  {
    auto it = lib->exports.find(name);
    detail::dynamic_check(it != lib->exports.end(), "Symbol not found");
    return it->second.call_addr;
  }
  void* impl_internal_lookup_symbol(const char* name)
  {
    auto it = lib->exports.find(name);
    detail::dynamic_check(it != lib->exports.end(), "Symbol not found");
    return it->second.internal_addr;
  }

  template<typename T, typename T_Converted, typename... T_Args>
  auto impl_invoke_with_func_ptr(T_Converted* func_ptr, T_Args&&... params)
  {
    auto old = thread_data.sandbox;
    thread_data.sandbox = this;
    auto on_exit = detail::make_scope_exit([&] { thread_data.sandbox = old; });
    return (*func_ptr)(params...);
  }

  // ---- callbacks
  template<typename T_Ret, typename... T_Args>
  inline T_PointerType impl_register_callback(void* key, void* callback)
  {
    for (uint32_t i = 0; i < MAX_CALLBACKS; i++) {
      if (!callback_keys_[i]) {
        callback_keys_[i] = key;
        callback_fns_[i] = callback;
        callback_sigs_[i] = make_sig<T_Ret, T_Args...>();
        return static_cast<T_PointerType>(CB_TABLE_BASE + i);
      }
    }
    detail::dynamic_check(false, "vsbx: no free callback slot");
    return 0;
  }

  static inline std::pair<self*, void*>
  impl_get_executed_callback_sandbox_and_key()
  {
    auto s = thread_data.sandbox;
    return { s, s->callback_keys_[thread_data.last_callback_invoked] };
  }

  template<typename T_Ret, typename... T_Args>
  inline void impl_unregister_callback(void* key)
  {
    for (uint32_t i = 0; i < MAX_CALLBACKS; i++) {
      if (callback_keys_[i] == key) {
        callback_keys_[i] = nullptr;
        callback_fns_[i] = nullptr;
        break;
      }
    }
  }

public:
  // ------------------------------------------------ guest-side interface
  static self* current() { return thread_data.sandbox; }

  // guest view of memory: base + offset of the *current* instance
  template<typename T>
  T* g(uint64_t off)
  {
    return reinterpret_cast<T*>(base + (off & (size - 1)));
  }

  // true iff guest code could call this representation
  bool slot_live(uint64_t fn) const
  {
    return fn >= CB_TABLE_BASE && fn - CB_TABLE_BASE < MAX_CALLBACKS &&
           callback_fns_[fn - CB_TABLE_BASE] != nullptr;
  }

  template<typename T_Ret, typename... T_Args>
  T_Ret call_indirect(uint64_t fn, T_Args... args)
  {
    uint32_t slot = static_cast<uint32_t>(fn - CB_TABLE_BASE);
    if (!slot_live(fn)) std::abort(); // guest trap: harness never does this
    thread_data.last_callback_invoked = slot;
    if (!(callback_sigs_[slot] == make_sig<T_Ret, T_Args...>())) vsbx_ev.entry_point_signature_mismatch++;
    return reinterpret_cast<T_Ret (*)(T_Args...)>(callback_fns_[slot])(args...);
  }
};

}
