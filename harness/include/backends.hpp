#pragma once
// Uniform access to the three backend kinds for the history / callback /
// invocation drivers: model (foreign ABI, by-name lookup in a vsbx_library),
// noop (host ABI, static calls into native functions), dylib (host ABI,
// by-name lookup in a shared object built from harness/guest/guest_lib.c).
#include "world.hpp"
#include "rlbox_noop_sandbox.hpp"
#include "rlbox_dylib_sandbox.hpp"

#include <map>
#include <string>

namespace be {
using namespace rlbox;

// native (host ABI) "guest" functions for the noop backend: name -> address
inline std::map<std::string, void*>& native_table()
{
  static std::map<std::string, void*> t;
  return t;
}
struct NativeAdder { NativeAdder(const char* n, void* p) { native_table()[n] = p; } };
#define BE_NATIVE(name, fn) static ::be::NativeAdder be_native_##name(#name, reinterpret_cast<void*>(fn))

template<typename B> struct BT;

template<typename Cfg>
struct BT<rlbox_vsbx_sandbox<Cfg>>
{
  using S = rlbox_vsbx_sandbox<Cfg>;
  static constexpr int CAP = S::MAX_CALLBACKS;
  static constexpr bool foreign = true;
  static const char* name() { return "model"; }
  static inline const vsbx_library* libs[2] = { nullptr, nullptr };
  static void create(rlbox_sandbox<S>& sb, int lib = 0) { sb.create_sandbox(libs[lib]); }
  static void* symbol(rlbox_sandbox<S>& sb, const char* fn) { return sb.lookup_symbol(fn); }
  template<typename Sig, typename... A>
  static auto invoke(rlbox_sandbox<S>& sb, const char* fn, A&&... a)
  {
    return sb.template INTERNAL_invoke_with_func_name<Sig>(fn, std::forward<A>(a)...);
  }
};
template<> struct BT<rlbox_noop_sandbox>
{
  using S = rlbox_noop_sandbox;
  static constexpr int CAP = 64;
  static constexpr bool foreign = false;
  static const char* name() { return "noop"; }
  static void create(rlbox_sandbox<S>& sb, int = 0) { sb.create_sandbox(); }
  static void* symbol(rlbox_sandbox<S>&, const char* fn) { return native_table().at(fn); }
  template<typename Sig, typename... A>
  static auto invoke(rlbox_sandbox<S>& sb, const char* fn, A&&... a)
  {
    return sb.template INTERNAL_invoke_with_func_ptr<Sig>(fn, native_table().at(fn), std::forward<A>(a)...);
  }
};
template<> struct BT<rlbox_dylib_sandbox>
{
  using S = rlbox_dylib_sandbox;
  static constexpr int CAP = 64;
  static constexpr bool foreign = false;
  static const char* name() { return "dylib"; }
  static void create(rlbox_sandbox<S>& sb, int lib = 0) { sb.create_sandbox(getenv(lib ? "VERIF_GUEST2" : "VERIF_GUEST1")); }
  static void* symbol(rlbox_sandbox<S>& sb, const char* fn) { return sb.lookup_symbol(fn); }
  template<typename Sig, typename... A>
  static auto invoke(rlbox_sandbox<S>& sb, const char* fn, A&&... a)
  {
    return sb.template INTERNAL_invoke_with_func_name<Sig>(fn, std::forward<A>(a)...);
  }
};
}
