#pragma once
// A small drivable-form runner (see formlib.py / DESIGN E5) for checks that need only a handful of compile-filtered programs
// on an arbitrary model ABI.  -DMF_PROP="C10" -DMF_CFG=vsbx_wide.  Tags: "f" running to completion is the violation;
// "r" must not leave an application address verbatim in sandbox memory nor make the backend translate one; "g" control
// (must compile and complete).
#include "world.hpp"

#include <functional>

namespace mf {
using namespace rlbox;
using Cfg = MF_CFG;
using Wd = world::W<Cfg>;
using S = typename Wd::S;

inline int canary_target[4] = { 1, 2, 3, 4 };
static int32_t guest_fn(int32_t x) { return x + 1; }
struct Env
{
  vsbx_library lib;
  typename Wd::sbx sb;
  int* raw() { return &canary_target[1]; }
};
struct Form { int id; const char* tag; const char* desc; void (*fn)(Env&); };
inline std::vector<Form>& forms() { static std::vector<Form> f; return f; }
struct Adder { Adder(int id, const char* tag, const char* desc, void (*fn)(Env&)) { forms().push_back({ id, tag, desc, fn }); } };
#define FORM(id, tag, desc) static void mf_form_##id(::mf::Env&); static ::mf::Adder mf_add_##id{ id, tag, desc, &mf_form_##id }; static void mf_form_##id([[maybe_unused]] ::mf::Env& e)

inline int run_all(int argc, char** argv)
{
  mon::init(MF_PROP, argc, argv);
  Env e;
  e.lib.id = 1;
  e.lib.add("guest_fn", reinterpret_cast<void*>(&guest_fn));
  e.sb.create_sandbox(&e.lib);
  uint64_t n_ran = 0, n_threw = 0, n_clean = 0;
  for (auto& f : forms()) {
    mon::ctx("form %d %s | %s", f.id, f.tag, f.desc);
    vsbx_ev.reset();
    bool threw = mon::aborts([&] { f.fn(e); });
    n_ran++;
    mon::evals();
    mon::distinct(mon::mix(0xf1, f.id));
    std::string word(f.desc);
    word = word.substr(0, word.find(' '));
    auto key = [&](const char* cls) { return mon::fmt("%s/forms-%s/%s/%s", MF_PROP, Cfg::name, word.c_str(), cls); };
    if (threw) { n_threw++; continue; }
    if (f.tag[0] == 'f') { mon::violation(key("forbidden-program-ran-to-completion"), mon::fmt("form %d [%s]: it compiled, ran and did not abort", f.id, f.desc)); continue; }
    if (vsbx_ev.outside_ptr_to_sandbox) { mon::violation(key("application-pointer-translated-into-sandbox"), mon::fmt("form %d [%s]", f.id, f.desc)); continue; }
    const unsigned char* m = reinterpret_cast<const unsigned char*>(Wd::base(e.sb));
    bool hitany = false;
    for (int k = 0; k < 4; k++) {
      uintptr_t a = reinterpret_cast<uintptr_t>(&canary_target[k]);
      while (const void* hit = memmem(m, Wd::size(e.sb), &a, sizeof a)) {
        if (!hitany) mon::violation(key("application-address-found-verbatim-in-sandbox-memory"), mon::fmt("form %d [%s]: &canary_target[%d] is stored at sandbox offset %zu", f.id, f.desc, k, (size_t)(static_cast<const unsigned char*>(hit) - m)));
        hitany = true;
        memset(const_cast<void*>(hit), 0, sizeof a);
      }
    }
    if (!hitany) n_clean++;
  }
  mon::hit("forms-executed", n_ran);
  mon::hit("form-aborted-at-run-time", n_threw);
  mon::hit("form-completed-cleanly", n_clean);
  e.sb.destroy_sandbox();
  return mon::finish();
}
} // namespace mf
