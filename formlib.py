"""E5 -- drivable-form engine (python3 stdlib only).

A *form* is one line of C++ (an instantiation of a driver template, or a tiny
function) that can only be *run* if the compiler accepts it.  The compiler is
used purely as a feasibility filter: a TU holding many forms is compiled with
the real flags; forms named by the diagnostics are dropped (recorded as
undrivable with their first diagnostic) and the TU is compiled again, until it
builds.  Verdicts come exclusively from executing the surviving forms.
"""
import os, re, subprocess, time


def build_form_tu(tu_path, out_path, preamble, forms, cmd_prefix, cmd_suffix, max_iter=40, log=None, aliases=None):
    """forms: list of (form_id:int, text:str) -- text must be a single line.
    Returns (ok, drivable_ids, undrivable: {id: first diagnostic}, iterations, msg)."""
    live = list(forms)
    undrivable = {}
    base = os.path.basename(tu_path)
    for it in range(1, max_iter + 1):
        lines = preamble.rstrip("\n").split("\n")
        first = len(lines) + 1
        line_to_id = {}
        for k, (fid, text) in enumerate(live):
            assert "\n" not in text
            lines.append(text)
            line_to_id[first + k] = fid
        with open(tu_path, "w") as f:
            f.write("\n".join(lines) + "\n")
        cmd = cmd_prefix + [tu_path, "-o", out_path] + cmd_suffix
        r = subprocess.run(cmd, stdout=subprocess.PIPE, stderr=subprocess.PIPE, text=True)
        if r.returncode == 0:
            return True, [fid for fid, _ in live], undrivable, it, ""
        # which form lines do the diagnostics name?
        bad = {}
        live_ids = [fid for fid, _ in live]
        cur_err = None
        pending = []  # form lines seen since last error line (context precedes or follows)
        for ln in r.stderr.split("\n"):
            m = re.search(re.escape(base) + r":(\d+)(?::\d+)?[:,]", ln)
            is_err = (" error: " in ln) or ("fatal error" in ln)
            if is_err:
                cur_err = ln.strip()[:300]
            # a form may own further files (e.g. a generated header it includes)
            if aliases:
                for fid in live_ids:
                    for a in aliases.get(fid, ()):
                        if a in ln:
                            bad.setdefault(fid, None)
                            pending.append(fid)
            if m:
                n = int(m.group(1))
                if n in line_to_id:
                    bad.setdefault(line_to_id[n], None)
                    pending.append(line_to_id[n])
            if is_err:
                for fid in pending:
                    if bad.get(fid) is None:
                        bad[fid] = cur_err
                # keep pending: gcc prints "required from here" before the error
                pending = []
            elif cur_err and m and int(m.group(1)) in line_to_id:
                fid = line_to_id[int(m.group(1))]
                if bad.get(fid) is None:
                    bad[fid] = cur_err
        if not bad:
            return False, [], undrivable, it, "compile failed but no form line is named:\n" + r.stderr[-4000:]
        for fid, diag in bad.items():
            undrivable[fid] = diag or "rejected by the compiler"
        live = [(fid, t) for fid, t in live if fid not in bad]
        if log:
            log("    [forms] %s: iteration %d dropped %d, %d left" % (base, it, len(bad), len(live)))
        if not live:
            # an empty TU still has to build (the runner reports 0 forms)
            continue
    return False, [], undrivable, max_iter, "feasibility filter did not converge"
