"""Per-property build/run plans for ./check (python3 stdlib only).

A plan function gets a Ctx (tier, seed, bdir, ncpu, t(quick,thorough)) and
returns dict(units=[...], runs=[...], evidence={rule, level, assumptions,...}).
unit: dict(name, srcs, build, defs, flags, libs[, kind, needs])
run : dict(unit, label, args, env, slice, nslices, timeout, count_distinct)
"""
import os

D = "harness/drivers/"
EXC = ["RLBOX_USE_EXCEPTIONS"]
FLAGMODE = ["RLBOX_CUSTOM_ABORT(msg)=::mon::note_abort(msg)"]


def sliced(unit, n, label=None, **kw):
    return [dict(unit=unit, label="%s[%d/%d]" % (label or unit, i, n), slice=i, nslices=n, **kw) for i in range(n)]


PLANS = {}


def plan(pid):
    def deco(f):
        PLANS[pid] = f
        return f
    return deco


# --------------------------------------------------------------------- C06
@plan("C06")
def c06(c):
    units = [
        dict(name="c06_leaf", srcs=[D + "c06_leaf.cpp"], build="plain", defs=FLAGMODE),
    ]
    runs = sliced("c06_leaf", max(4, c.ncpu - 3))
    for n in ["ilp32", "narrow", "wide"]:
        units.append(dict(name="c06_paths_" + n, srcs=[D + "c06_paths.cpp"], build="asan", defs=EXC + ["CFG=vsbx_" + n]))
        runs.append(dict(unit="c06_paths_" + n, label="c06_paths[%s]" % n))
    return dict(units=units, runs=runs, evidence=dict(
        level="exploration",
        rule="case = (destination type, source type, source value) fed to convert_type_fundamental, and (path, ABI, type, value) "
             "for stores/loads/arguments/results on the model backends; oracle = 128-bit integer comparison with the limits of "
             "the destination type. Sources of <=16 bits (quick) / <=32 bits (thorough) are enumerated completely per pair "
             "(counted by the loop counters, no repetition by construction); sampled pairs contribute one fingerprint per "
             "(pair, oracle branch). Non-trivial = the oracle prescribes an outcome (always, for integers). Compound stores (0 += v, 0 |= v on the sandbox cell) are judged like plain stores. Array conversions also with std::array<volatile T,N> destinations and sources.",
        exhaustive=False,
        exhaustive_subspaces=["all source values of every ordered pair with a source type of <=16 bits (quick) / <=32 bits (thorough)"],
        assumptions=["two's-complement host; flag-mode abort capture continues after a failed dynamic_check (leaf computation has no side effects)",
                     "the model backend (harness/include/rlbox_vsbx_sandbox.hpp) is a faithful plug-in"]))


# --------------------------------------------------------------------- C16
C16_TYPES_Q = ["unsigned char", "signed char", "short", "int", "long", "unsigned long", "double"]
C16_TYPES_T = ["bool", "char", "signed char", "unsigned char", "short", "unsigned short", "int", "unsigned int",
               "long", "unsigned long", "long long", "unsigned long long", "float", "double"]
C16_MIXED_Q = [("unsigned char", "signed char"), ("signed char", "unsigned char"), ("short", "long"), ("int", "unsigned long"),
               ("long", "int"), ("unsigned char", "int"), ("int", "double"), ("double", "int"), ("long", "short"),
               ("int", "unsigned char"), ("unsigned long", "signed char"),
               # signed left operand with an unsigned right operand of the SAME rank: the promoted result is unsigned and as wide
               # as the left operand, the value stored is its conversion back (negative when the top bit is set)
               ("int", "unsigned int"), ("long", "unsigned long")]
C16_BIN = ["op_add", "op_sub", "op_mul", "op_div", "op_mod", "op_xor", "op_and", "op_or", "op_shl", "op_shr"]
# rejected by design: ! on numbers; post ++/-- of a tainted_volatile would have to return a copy of sandbox memory by value;
# tv & tv is refused (binary & with a tainted_volatile right operand collides with the address-of overload)
C16_CORE_NOT_PROGRAMS = {("incdec", "u_postinc", "WV"), ("incdec", "u_postdec", "WV"), ("binop", "op_and", "WV", "WV")}
C16_CMP = ["op_eq", "op_ne", "op_lt", "op_le", "op_gt", "op_ge", "op_land", "op_lor"]


def c16_forms(c):
    import random
    if c.thorough:
        types = C16_TYPES_T
        pairs = [(a, b) for a in types for b in types]
    else:
        types = C16_TYPES_Q
        pairs = [(t, t) for t in types] + C16_MIXED_Q
    forms = []
    wl = [("WT", "WP"), ("WT", "WT"), ("WT", "WV"), ("WV", "WP"), ("WV", "WT"), ("WV", "WV"), ("WP", "WT"), ("WP", "WV")]
    for op in C16_BIN + C16_CMP:
        for lw, rw in wl:
            for a, b in pairs:
                forms.append("binop, %s, %s, %s, %s, %s" % (op, lw, rw, a, b))
    for op in C16_BIN:
        for lw, rw in wl[:6]:
            for a, b in pairs:
                forms.append("compound, %s, %s, %s, %s, %s" % (op, lw, rw, a, b))
    for op in ["u_preinc", "u_postinc", "u_predec", "u_postdec"]:
        for lw in ["WT", "WV"]:
            for t in types:
                forms.append("incdec, %s, %s, %s" % (op, lw, t))
    for op in ["u_neg", "u_not", "u_lnot"]:
        for lw in ["WT", "WV"]:
            for t in (types if "bool" in types else types + ["bool"]):
                forms.append("unary, %s, %s, %s" % (op, lw, t))
    rnd = random.Random(c.seed)
    rnd.shuffle(forms)  # spread expensive forms evenly over the runner TUs
    return [(i + 1, "FORM(%d, %s)" % (i + 1, f)) for i, f in enumerate(forms)]


@plan("C16")
def c16(c):
    forms = c16_forms(c)
    ntu = c.ncpu if not c.thorough else c.ncpu * 4
    pre = '#include "c16_ops.hpp"\nusing namespace c16;\nint main(int c, char** v) { return c16::run_all(c, v); }\n'
    units, runs = [], []
    # core forms -- both operands int or both long, every operator and wrapper combination -- have always been programs:
    # if one stops compiling the run is inconclusive instead of quietly judging less (C16_CORE_NOT_PROGRAMS: rejected by design)
    def is_core(f):
        t = f[1].rstrip(")").split(", ")
        if t[1] in ("binop", "compound"):
            return (t[5], t[6]) in (("int", "int"), ("long", "long")) and (t[1], t[2], t[3], t[4]) not in C16_CORE_NOT_PROGRAMS
        return t[4] in ("int", "long") and t[2] != "u_lnot" and (t[1], t[2], t[3]) not in C16_CORE_NOT_PROGRAMS
    core = [f for f in forms if is_core(f)]
    forms = [f for f in forms if not is_core(f)]
    for i in range(2):
        name = "c16_core%d" % i
        units.append(dict(name=name, kind="forms", must_compile=True, build="asan", defs=EXC, preamble=pre, forms=core[i::2]))
        runs.append(dict(unit=name, label=name))
    for i in range(ntu):
        name = "c16_run%02d" % i
        units.append(dict(name=name, kind="forms", build="asan", defs=EXC, preamble=pre, forms=forms[i::ntu]))
        runs.append(dict(unit=name, label=name))
    # the forms that touch sandbox memory, once more under an ABI whose short/int/long are all wider than the application's
    # (cells can then hold values the application type cannot: the update must still be the plain operator's)
    wforms = [f for f in forms if "WV" in f[1] and (c.thorough or "compound" in f[1] or "incdec" in f[1])]
    nw = max(4, ntu // 2)
    for i in range(nw):
        name = "c16_wide%02d" % i
        units.append(dict(name=name, kind="forms", build="asan", defs=EXC + ["C16_CFG=vsbx_wide"], preamble=pre, forms=wforms[i::nw]))
        runs.append(dict(unit=name, label=name))
    return dict(units=units, runs=runs, evidence=dict(
        level="exploration",
        rule="form = (operator, lhs wrapper, rhs wrapper, lhs type, rhs type) over {+ - * / % ^ & | << >>, six comparisons, && ||, "
             "ten compound assignments, pre/post ++ --, unary - ~ !} x {plain, tainted, tainted_volatile (ILP32 model backend)}; "
             "the compiler only filters which forms can be driven; each drivable form sweeps operand pairs (all 65536 pairs for "
             "8-bit x 8-bit operand types, boundary+random value sets otherwise) and compares result type (as a run-time "
             "boolean), result value and operand post-state with the plain expression, evaluated only where it has defined "
             "behaviour (validity decided in 128-bit arithmetic; the UBSan build also proves the reference never evaluates UB). "
             "distinct_nontrivial = number of driven forms that judged at least one operand pair. The forms that store into sandbox memory "
             "(thorough: every form with a sandbox-resident operand) are driven again on the WIDE model backend (cells wider than the application "
             "type); int/int and long/long forms are must-compile units. Mixed pairs include same-rank signed/unsigned; an abort of a compound update is accepted only when the value the operand would hold afterwards does not fit the stored type.",
        exhaustive=False,
        exhaustive_subspaces=["all 65536 operand pairs of every drivable form whose operand types are both 8-bit"],
        assumptions=["gcc's accept/reject decides only which forms exist as programs; it is never the oracle",
                     "sandbox-resident operands are placed by raw guest-encoded writes, so values not representable in the guest type are skipped"]))


# --------------------------------------------------------------------- C05
@plan("C05")
def c05(c):
    units, runs = [], []
    for n in ["ilp32", "ilp32f", "wide", "narrow"]:
        for g in range(4):
            nm = "c05_%s_g%d" % (n, g)
            units.append(dict(name=nm, srcs=[D + "c05_ptrarith.cpp"], build="asan0", defs=EXC + ["CFG=vsbx_" + n, "GROUP=%d" % g]))
            runs.append(dict(unit=nm, label=nm))
            if n == "ilp32" and (c.thorough or g in (0, 3)):
                runs.append(dict(unit=nm, label=nm + "[4GiB]", args=["big"]))
    # GNU dialect (-std=gnu++17, the compilers' default): __int128 and unsigned __int128 are integer types there and pass the
    # library's gate for index operands
    for g in ((0, 1) if not c.thorough else range(4)):
        nm = "c05_ilp32_gnu_g%d" % g
        units.append(dict(name=nm, srcs=[D + "c05_ptrarith.cpp"], build="asan0", defs=EXC + ["CFG=vsbx_ilp32", "GROUP=%d" % g], flags=["-std=gnu++17"]))
        runs.append(dict(unit=nm, label=nm))
    return dict(units=units, runs=runs, evidence=dict(
        level="exploration",
        rule="case = (operation in {+,-,+=,-=,++,--,[],&[]}, pointee type, base address, index type and wrapper (plain/tainted/tainted_volatile), "
             "index value) on the ILP32 (MASK and FINDER) and WIDE model backends; oracle = exact target p+/-n*s in 128-bit arithmetic with s "
             "from an independent guest-size table: inside the region (64 KiB; for the ILP32 configuration also a 4 GiB region so that counts and byte offsets reach "
             "2^31..2^32) => exact address and no abort, otherwise abort; null base => abort. "
             "Index values: boundary set around element index / distance to region end / region size / 2^k and 2^k/s (products wrapping 32 and "
             "64 bits) and random; for selected pointees every n in [-(size/s)-8, size/s+8] from three bases. Distinct = fingerprint of "
             "(pointee, index type, base offset, n) plus the enumerated ranges.",
        exhaustive=False,
        exhaustive_subspaces=["every index n in [-(size/s)-8, size/s+8] for +, - and &[] with a plain 64-bit index from three bases, for the pointees int, long[3], struct PA (quick) plus long, int* (thorough)"],
        assumptions=["the model backend's membership predicate is exact (both regions compared by range, not by mask)"]))


# --------------------------------------------------------------------- C17
C17_T = {"char": ("char", "char"), "short": ("short", "int16_t"), "int": ("int", "int32_t"), "long": ("long", "int32_t"),
         "double": ("double", "double"), "intp": ("int*", "uint32_t"), "ulong": ("unsigned long", "uint32_t")}


def c17_header(path, holders):
    """holders: list of (tkey, N) or (tkey, N, M)"""
    o = ["#pragma once", "#include <cstdint>"]
    cls, each = [], []
    for h in holders:
        t, g = C17_T[h[0]]
        if len(h) == 2:
            name = "H_%s_%d" % (h[0], h[1])
            dims = "[%d]" % h[1]
            each.append("F1(%s, %s, %d, G%s)" % (name, t.replace("int*", "int*"), h[1], name))
        else:
            name = "H2_%s_%d_%d" % (h[0], h[1], h[2])
            dims = "[%d][%d]" % (h[1], h[2])
            each.append("F2(%s, %s, %d, %d, G%s)" % (name, t, h[1], h[2], name))
        o.append("struct %s { long pre; %s arr%s; long post; };" % (name, t, dims))
        # the guest image follows the ABI configuration of the binary (CFG; world.hpp / ref.hpp are included before this header)
        o.append("struct G%s { ref::guest_t<CFG, long> pre; ref::guest_t<CFG, %s> arr%s; ref::guest_t<CFG, long> post; };" % (name, t, dims))
        ft = "%s%s" % (t, dims) if t != "int*" else "int*%s" % dims
        o.append("#define sandbox_fields_reflection_c17_class_%s(f, g, ...) f(long, pre, FIELD_NORMAL, ##__VA_ARGS__) g() "
                 "f(%s, arr, FIELD_NORMAL, ##__VA_ARGS__) g() f(long, post, FIELD_NORMAL, ##__VA_ARGS__) g()" % (name, ft))
        cls.append("f(%s, c17, ##__VA_ARGS__)" % name)
    o.append("#define sandbox_fields_reflection_c17_allClasses(f, ...) " + " ".join(cls))
    o.append("rlbox_load_structs_from_library(c17);")
    o.append("#define C17_FOR_EACH_HOLDER(F1, F2) " + " ".join(each))
    os.makedirs(os.path.dirname(path), exist_ok=True)
    open(path, "w").write("\n".join(o) + "\n")


@plan("C17")
def c17(c):
    if c.thorough:
        hs = [("long", n) for n in range(1, 17)] + [("char", n) for n in range(1, 17)] + \
             [("short", 7), ("int", 4), ("double", 2), ("intp", 5), ("ulong", 9), ("int", 2, 3), ("long", 3, 2), ("char", 4, 4), ("long", 1, 5)]
        ntu = 16
    else:
        hs = [("char", 1), ("char", 16), ("short", 7), ("int", 4), ("long", 3), ("long", 16), ("double", 2), ("intp", 5),
              ("int", 2, 3), ("long", 3, 2)]
        ntu = 5
    units, runs = [], []

    def gen(cx):
        for k in range(ntu):
            c17_header(os.path.join(cx.bdir, "inc%d" % k, "c17_structs.hpp"), hs[k::ntu])
        return True, ""
    for k in range(ntu):
        nm = "c17_g%d" % k
        units.append(dict(name=nm, srcs=[D + "c17_arrayidx.cpp"], build="asan0", defs=EXC + ["CFG=vsbx_ilp32"],
                          flags=["-I" + os.path.join(c.bdir, "inc%d" % k)]))
        runs.append(dict(unit=nm, label=nm))
        # the same array families under ABIs whose elements are wider / narrower than the application's (the layout of the
        # sandbox-resident array then differs from the application copy's): quick one group each, thorough all
        for cfg in ("wide", "narrow"):
            if c.thorough or k == (1 if cfg == "wide" else 2):
                nm2 = "c17_%s_g%d" % (cfg, k)
                units.append(dict(name=nm2, srcs=[D + "c17_arrayidx.cpp"], build="asan0", defs=EXC + ["CFG=vsbx_" + cfg],
                                  flags=["-I" + os.path.join(c.bdir, "inc%d" % k)]))
                runs.append(dict(unit=nm2, label=nm2))
    # an index that still lives in sandbox memory and is rewritten between RLBox's accesses (access-trap interleaver)
    for b in ("plain0", "plain1"):
        nm = "c17_idxtrap_" + b
        units.append(dict(name=nm, srcs=[D + "c17_idxtrap.cpp"], build=b, defs=EXC))
        runs.append(dict(unit=nm, label=nm))
    # optimised builds without a sanitizer: whole-array copies followed by element access (see the driver)
    for b in ("plain", "plain3", "clang-plain"):
        nm = "c17_opt_" + b.replace("-", "_")
        units.append(dict(name=nm, srcs=[D + "c17_optcopy.cpp"], build=b, defs=EXC))
        runs.append(dict(unit=nm, label=nm))
    return dict(units=units, runs=runs, pre=[gen], evidence=dict(
        level="exploration",
        rule="case = (array location in {struct field in sandbox memory, malloc'ed array in sandbox memory, struct field in application memory, "
             "standalone tainted<T[N]>}, element type, length, index type x wrapper, index value). Oracle: 0<=i<N => no abort and the designated "
             "address is start+i*element size of the memory the array lives in (guest size in sandbox memory, host size in application memory), "
             "otherwise abort; a write through every valid index of a sandbox-resident array must change exactly that element of the guest image. "
             "8- and 16-bit index types are enumerated completely; wider ones get -1, N, N+-1, type limits and 2^k+i aliases of every valid i. "
             "Distinct = (location, holder, index type, wrapper) combinations swept. Plus c17_optcopy in g++ -O2, g++ -O3 and clang -O2 builds without "
             "sanitizer: snapshot/copy/opaque round trip of sandbox arrays of six element types, then every element read (written) through operator[] "
             "must be the array's element. The holder families also run on the WIDE and NARROW models; index cells holding guest values that are not values of the application's index type must abort (forked children).",
        exhaustive=False,
        exhaustive_subspaces=["all values of every 8- and 16-bit index type for every holder and location"],
        assumptions=["ILP32 model backend; guest layout from independently declared fixed-width structs"]))


# --------------------------------------------------------------------- C15
@plan("C15")
def c15(c):
    units = [dict(name="c15_tokens", srcs=[D + "c15_apptokens.cpp"], build="asan", defs=EXC + ["RLBOX_USE_STATIC_CALLS()=rlbox_noop_sandbox_lookup_symbol"],
                  flags=["-fno-access-control"])]
    ns = 8 if not c.thorough else c.ncpu - 1
    runs = sliced("c15_tokens", ns, label="c15_map8", args=[0])
    runs.append(dict(unit="c15_tokens", label="c15_owners", args=[1]))
    return dict(units=units, runs=runs, evidence=dict(
        level="exploration",
        rule="Part A: breadth-first exploration of ALL reachable states of app_pointer_map<uint8_t> for every limit 1..12 (quick) / 1..16 (thorough) "
             "over {register, release(t) for every live t}, each transition checked against a reference map (token non-zero, <= limit, not live; "
             "full table aborts; lookups of live tokens exact; released token aborts); state = (live set, cursor), the cursor is read (never "
             "written) only to identify states. Limits 17..254: fill/abort/release-every-kth/refill/cursor-wrap histories plus random histories. "
             "Part B: random histories through rlbox_sandbox::get_app_pointer on the ILP32 model (4 KiB region, limit 4095, filled completely) "
             "and noop backends with six owner objects being registered, moved, move-assigned onto empty and live owners, unregistered, destroyed. "
             "distinct_nontrivial = explored states + directed limits + distinct owner histories. Owner histories include destroy_sandbox + create_sandbox of the sandbox object with live owners (tokens keep resolving, stay unique; pointers then formed from tokens relative to the current incarnation).",
        exhaustive=False,
        exhaustive_subspaces=["complete reachable state space of the 8-bit token table for each limit 1..12 (quick) / 1..16 (thorough)"],
        assumptions=["-fno-access-control is used in this one TU to read the private cursor for state identification only"]))


# --------------------------------------------------------------------- C20
@plan("C20")
def c20(c):
    units, runs = [], []
    for n in (["ilp32"] if not c.thorough else ["ilp32", "narrow", "wide"]):
        nm = "c20_" + n
        units.append(dict(name=nm + "_p0", srcs=[D + "c20_opaque_casts.cpp"], build="asan0", defs=EXC + ["CFG=vsbx_" + n, "PART=0"]))
        units.append(dict(name=nm + "_p1", srcs=[D + "c20_opaque_casts.cpp"], build="asan0", defs=EXC + ["CFG=vsbx_" + n, "PART=1"]))
        runs.append(dict(unit=nm + "_p0", label=nm + "_opaque_ptr"))
        runs += sliced(nm + "_p1", 6, label=nm + "_static")
    for b in ("plain", "plain3", "clang-plain"):
        nm = "c20_opt_" + b.replace("-", "_")
        units.append(dict(name=nm, srcs=[D + "c17_optcopy.cpp"], build=b, defs=EXC + ['PROP_ID="C20"']))
        runs.append(dict(unit=nm, label=nm))
    return dict(units=units, runs=runs, evidence=dict(
        level="exploration",
        rule="case = (a) tainted value -> to_opaque -> from_opaque compared by object representation, for every primitive (all patterns of <=16-bit "
             "types, boundaries/random/NaN payloads/-0.0 otherwise), pointers, pointer-to-pointer, arrays, a registered struct; (b) the same value "
             "passed as tainted and as tainted_opaque to a guest function and through a callback with opaque parameter/result: the guest event log "
             "must show identical values; (c) sandbox_static_cast for all 15x15 arithmetic/enum pairs from tainted and from sandbox-resident "
             "tainted_volatile sources against the C++ cast (only where the C++ cast is defined); (d) sandbox_reinterpret/const/static_cast on "
             "pointers: designated address unchanged, null preserved, source cell unchanged; (e) optimised uninstrumented builds (g++ -O2, g++ -O3, "
             "clang -O2): arrays through to_opaque/from_opaque in an application struct, then indexed. Distinct = (kind, type or type pair, source wrapper). sandbox_static_cast between class pointers of a multiple-inheritance hierarchy in both directions at both edges of the region; set_zero on every non-enum opaque value. Class-pointer casts with the operand as tainted value and as pointer cell.",
        exhaustive=False,
        exhaustive_subspaces=["all bit patterns of 8- and 16-bit types for the opaque round trip and as static_cast sources (sub-sampled above 3000 values per pair)"],
        assumptions=["model backend ILP32 (quick) plus NARROW and WIDE (thorough)"]))


# --------------------------------------------------------------------- C04
@plan("C04")
def c04(c):
    units, runs = [], []
    for n in ["ilp32", "ilp32f", "wide", "host"]:
        nm = "c04_" + n
        units.append(dict(name=nm, srcs=[D + "c04_ptrconv.cpp"], build="asan0", defs=EXC + ["CFG=vsbx_" + n]))
        runs += sliced(nm, 2 if not c.thorough else 4)
        if n in ("ilp32", "ilp32f"):
            runs.append(dict(unit=nm, label=nm + "[4GiB]", args=["big"], slice=7, nslices=8))
    # the documented debug configuration (RLBOX_ENABLE_DEBUG_ASSERTIONS): the conversion code carries assertions on the sandbox /
    # example pointer it is given that exist only there; every verdict must be the same as in the release configuration
    for n in ["ilp32f", "wide"]:
        nm = "c04_%s_dbgassert" % n
        units.append(dict(name=nm, srcs=[D + "c04_ptrconv.cpp"], build="asan0", defs=EXC + ["CFG=vsbx_" + n, "RLBOX_ENABLE_DEBUG_ASSERTIONS"]))
        runs += sliced(nm, 1 if not c.thorough else 4)
    # host-ABI part: the noop backend's pointer representation is a pointer type, which selects other branches of the conversion code
    units.append(dict(name="c04_hostptr", srcs=[D + "c04_hostptr.cpp"], build="asan0", defs=EXC, libs=["-ldl"]))
    runs.append(dict(unit="c04_hostptr", label="c04_hostptr[noop]"))
    return dict(units=units, runs=runs, evidence=dict(
        level="exploration",
        rule="Host-ABI part (noop backend, representation = void*): cells, arrays and multi-dimensional arrays ([1], [3], [2][3], [3][2], [2][2][2]) of data and "
             "function pointers stored whole from a tainted, loaded whole, copied sandbox-memory to sandbox-memory and stored element-wise at PRNG offsets of a "
             "sandbox buffer; oracle: identity/null preserved and exactly the destination bytes change (shadow copy). Model part: "
             "case = (live-instance configuration, instance, pointer-carrying position, offset). 1..8 model-backend instances are created and "
             "destroyed in PRNG order (so the registry order varies); for every live instance, boundary and random offsets go through 18 "
             "to-application positions (cell, array element, whole array, struct field, whole struct, nested struct, const char*, invoke result, "
             "callback argument, pointer-to-pointer, copy_and_verify_address, copy_and_verify of a struct pointer, by-value struct result, "
             "reinterpret cast of a sandbox-resident pointer, opaque) and 18 to-sandbox positions (stores, whole array/struct stores, invoke "
             "arguments as tainted/volatile/opaque, callback result, the three free_in_sandbox forms, by-value struct argument, UNSAFE_sandboxed, "
             "assign_raw_pointer); oracle = base of the owning instance + offset, guest side observed in raw memory / guest event log / backend "
             "free log; offset 0 <-> null on every path. Per round one instance gets ALL offsets 1..65535 through cell load/store and the "
             "context path. MASK and FINDER translation styles, ILP32 / WIDE / HOST ABIs; the two ILP32 configurations "
             "additionally with 4 GiB regions (first MiB and last page committed) and offsets around 2^31 and up to 2^32-1. FINDER and WIDE repeated with RLBOX_ENABLE_DEBUG_ASSERTIONS (same verdicts required). Two further to-application positions: UNSAFE_unverified / unverified_safe_because applied directly to a sandbox-resident struct.",
        exhaustive=False,
        exhaustive_subspaces=["all 65535 non-null offsets of the 64 KiB region through load-cell, store-cell and UNSAFE_sandboxed, for one instance per round"],
        assumptions=["offset 0 is the null representation (the first byte of the region is never handed out as an object)"]))


# --------------------------------------------------------------------- C03
@plan("C03")
def c03(c):
    units, runs = [], []
    for n in ["ilp32", "ilp32f", "wide"]:
        nm = "c03_" + n
        units.append(dict(name=nm, srcs=[D + "c03_ptrinv.cpp"], build="asan0", defs=EXC + ["CFG=vsbx_" + n]))
        runs.append(dict(unit=nm, label=nm + "_hostile", args=[0]))
        runs += sliced(nm, 2 if not c.thorough else 4, label=nm + "_chains", args=[1])
    # the allocator's answer (sandboxed code) on a backend whose translation confines nothing by itself
    units.append(dict(name="c03_alloc", srcs=[D + "c03_alloc.cpp"], build="asan", defs=EXC))
    runs.append(dict(unit="c03_alloc", label="c03_alloc[ilp32m,unconfined]"))
    units.append(dict(name="c03_sweep", srcs=[D + "c03_ptrinv.cpp"], build="plain", defs=EXC + ["CFG=vsbx_ilp32f"]))
    runs += sliced("c03_sweep", 4 if not c.thorough else c.ncpu - 1, label="c03_sweep", args=[2])
    return dict(units=units, runs=runs, evidence=dict(
        level="exploration",
        rule="(a) hostile guest representations (boundaries, powers of two +-1, application and foreign-region addresses, random 32/64-bit) in all 18 "
             "to-application positions of three simultaneously live model instances; (b) random chains (depth <= 8) of pointer-producing operations "
             "(+,-,+=,-=,++,--,&[n] on char/int/long/struct/pointer pointees, dereference of pointer-to-pointer with hostile content, &p->field / "
             "&p->arr[i] / nested, the three sandbox casts, opaque round trip, malloc_in_sandbox(count), app_pointer::to_tainted, "
             "copy_memory_or_grant_access, &*p, &null[n], copy_and_verify_address) from null / first byte / last byte / last struct / last int / "
             "interior; after every step either an abort was observed or the pointer is null or inside the region of the sandbox it came from; "
             "(c) representations 0..2^32-1 through load-cell and load-array-element (stride 509 quick, every value thorough). "
             "Dereferences whose pointee straddles the region end are not generated (no prescribed outcome); address computations on them are. "
             "distinct_nontrivial = distinct (instance, representation) pairs + distinct chain histories + swept representations. Hostile allocator answers (c03_alloc, ILP32 mask-membership model with unconfined translation): representations outside the region, before its start, straddling its end, wrapping; the address malloc_in_sandbox hands out must be null or inside the region, else abort. Chains from a null pointer to an array.",
        exhaustive=False,
        exhaustive_subspaces=["thorough tier only: all 2^32 guest representations through the memory-cell and array-element load positions"],
        assumptions=["inside-ness of a translated representation is the model backend's masking guarantee; the check tests RLBox's plumbing (translation applied, right instance)"]))


# --------------------------------------------------------------------- C07
@plan("C07")
def c07(c):
    units, runs = [], []
    cfgs = ["ilp32", "narrow", "wide"]
    for n in cfgs:
        for b, tag in (("asan0", "asan"), ("plain1", "plain")):
            nm = "c07_%s_%s" % (n, tag)
            units.append(dict(name=nm, srcs=[D + "c07_memaccess.cpp"], build=b, defs=EXC + ["CFG=vsbx_" + n]))
            for part in range(4):
                runs.append(dict(unit=nm, label="%s[p%d]" % (nm, part), args=[part], count_distinct=(tag == "asan")))
    # whole-array stores whose source array overlaps the destination (both pointers are the sandbox's)
    for b in ("asan", "plain"):
        units.append(dict(name="c07_overlap_" + b, srcs=[D + "c10_overlap.cpp"], build=b, defs=EXC + ["PROP_C07"]))
        runs.append(dict(unit="c07_overlap_" + b, label="c07_overlap[%s]" % b, count_distinct=False))
    # debug configuration (RLBOX_ENABLE_DEBUG_ASSERTIONS): same verdicts required; quick: the pointer and struct-field part only
    units.append(dict(name="c07_ilp32_dbgassert", srcs=[D + "c07_memaccess.cpp"], build="asan0", defs=EXC + ["CFG=vsbx_ilp32", "RLBOX_ENABLE_DEBUG_ASSERTIONS"]))
    for part in ([3] if not c.thorough else range(4)):
        runs.append(dict(unit="c07_ilp32_dbgassert", label="c07_ilp32_dbgassert[p%d]" % part, args=[part], count_distinct=False))
    if c.thorough:
        units.append(dict(name="c07_ilp32_clang", srcs=[D + "c07_memaccess.cpp"], build="clang-asan", defs=EXC + ["CFG=vsbx_ilp32"]))
        for part in range(4):
            runs.append(dict(unit="c07_ilp32_clang", label="c07_ilp32_clang[p%d]" % part, args=[part], count_distinct=False))
    return dict(units=units, runs=runs, evidence=dict(
        level="exploration",
        rule="case = (access form, type, offset, value). Stores (plain, tainted, p[0], volatile-to-volatile, += and ++, whole array, array element, "
             "pointer index, nullptr, callback, function address, struct field): the whole 64 KiB region is snapshotted, everything outside the "
             "permitted footprint is ASan-poisoned during the access, afterwards the region must equal snapshot (+) reference little-endian "
             "encoding at [offset, offset+guest size). Loads (to tainted, UNSAFE_unverified, copy_and_verify on the reference / on the pointer / "
             "range / array / struct pointer, index, struct field): footprint holds the reference encoding, surroundings are random, everything "
             "else poisoned, the value must decode exactly. Offsets: first object of the region, object ending at the last byte (guard page "
             "behind), 8-aligned interior (ASan build), every alignment 0..15 (plain build). 15 primitive types + enum, data and function "
             "pointers, arrays, pointer arrays, 11 struct fields; ABIs ILP32, NARROW, WIDE. bool/enum cells only ever hold valid encodings. Also char16_t, char32_t, wchar_t cells; ILP32 repeated with RLBOX_ENABLE_DEBUG_ASSERTIONS.",
        exhaustive=False,
        assumptions=["ASan left-edge granularity is 8 bytes (exact for 8-aligned footprints); the byte diff is exact regardless",
                     "enumerations keep their host representation (RLBox's ABI description has no enum entry)"]))


# --------------------------------------------------------------------- C10
@plan("C10")
def c10(c):
    units = [dict(name="c10_ilp32", srcs=[D + "c10_bulk.cpp"], build="asan0",
                  defs=EXC + ["CFG=vsbx_ilp32", "RLBOX_USE_STATIC_CALLS()=rlbox_noop_sandbox_lookup_symbol"])]
    runs = [dict(unit="c10_ilp32", label="c10_ilp32[p%d]" % p, args=[p]) for p in range(6)]
    # the same driver on a backend whose membership hook compares size-aligned blocks (application buffers may cross a block line)
    units.append(dict(name="c10_ilp32m", srcs=[D + "c10_bulk.cpp"], build="asan0",
                      defs=EXC + ["CFG=vsbx_ilp32m", "RLBOX_USE_STATIC_CALLS()=rlbox_noop_sandbox_lookup_symbol"]))
    runs += [dict(unit="c10_ilp32m", label="c10_ilp32m[p%d]" % p, args=[p], count_distinct=False) for p in range(6)]
    # bounded model backend that offers the optional grant/deny hooks (can_grant_deny_access), accepting or declining by policy
    units.append(dict(name="c10_grantcap", srcs=[D + "c10_grantcap.cpp"], build="asan0", defs=EXC))
    runs.append(dict(unit="c10_grantcap", label="c10_grantcap[ilp32g]"))
    # element semantics of the grant/deny helpers under ABIs whose short is not 16 bits
    for cfg in ("wide", "narrow"):
        units.append(dict(name="c10_elemabi_" + cfg, srcs=[D + "c10_elemabi.cpp"], build="asan0", defs=EXC + ["CFG=vsbx_" + cfg]))
        runs.append(dict(unit="c10_elemabi_" + cfg, label="c10_elemabi[%s]" % cfg))
    # a handful of compile-filtered programs on the WIDE ABI (pointer representation of host width): requests the statement
    # rules out at the type level must not exist as programs that run to completion
    pre = ('#include "miniforms.hpp"\nusing namespace rlbox;\n'
           'struct C10Pair { short a; short b; };\nunion C10Un { int i; float f; char c[8]; };\n'
           '#define sandbox_fields_reflection_c10f_class_C10Pair(f, g, ...) f(short, a, FIELD_NORMAL, ##__VA_ARGS__) g() f(short, b, FIELD_NORMAL, ##__VA_ARGS__) g()\n'
           '#define sandbox_fields_reflection_c10f_allClasses(f, ...) f(C10Pair, c10f, ##__VA_ARGS__)\n'
           'rlbox_load_structs_from_library(c10f);\n'
           'int main(int c, char** v) { return mf::run_all(c, v); }\n')
    FAW = 'auto fa = e.sb.INTERNAL_get_sandbox_function_name<int(int)>("guest_fn");'
    c10forms = [
        (1, 'FORM(1, "f", "copy_and_verify_range on the address of a sandbox function") { ' + FAW + ' fa.copy_and_verify_range([](std::unique_ptr<int[]>) { return 0; }, 4); }'),
        (2, 'FORM(2, "f", "copy_and_verify_buffer_address on the address of a sandbox function") { ' + FAW + ' fa.copy_and_verify_buffer_address([](uintptr_t) { return 0; }, 16); }'),
        (3, 'FORM(3, "f", "unverified_safe_pointer_because on the address of a sandbox function") { ' + FAW + ' auto p = fa.unverified_safe_pointer_because(4, "x"); (void)p; }'),
        (4, 'FORM(4, "r", "copy_memory_or_grant_access with an array of raw char*") { char* arr[2] = { reinterpret_cast<char*>(e.raw()), reinterpret_cast<char*>(e.raw()) }; bool c = false; auto t = copy_memory_or_grant_access(e.sb, arr, 2, false, c); (void)t; }'),
        (5, 'FORM(5, "r", "copy_memory_or_grant_access with an array of raw double*") { double* arr[2] = { reinterpret_cast<double*>(e.raw()), reinterpret_cast<double*>(e.raw()) }; bool c = false; auto t = copy_memory_or_grant_access(e.sb, arr, 2, false, c); (void)t; }'),
        (6, 'FORM(6, "g", "copy_memory_or_grant_access with a char buffer (control)") { char buf[8] = "control"; bool c = false; auto t = copy_memory_or_grant_access(e.sb, buf, 8, false, c); (void)t; }'),
        (7, 'FORM(7, "g", "copy_and_verify_range on a data pointer (control)") { auto p = mf::Wd::tptr<int>(e.sb, 4096); p.copy_and_verify_range([](std::unique_ptr<int[]>) { return 0; }, 4); }'),
    ]
    # valid requests that every version of the library accepted (wchar_t is a documented element type of the copy helpers; a struct
    # that is not described to RLBox can still be allocated and handed around): controls, they must stay programs and do their work
    WCHK = 'if (!t) throw std::runtime_error("null"); for (int i = 0; i < 4; i++) if (t[i].UNSAFE_unverified() != buf[i]) throw std::runtime_error("wchar_t element differs");'
    c10forms += [
        (8, 'FORM(8, "g", "copy_memory_or_grant_access with a wchar_t buffer (control)") { wchar_t buf[4] = { L\'a\', L\'b\', 0x1234, 0 }; bool c = false; auto t = copy_memory_or_grant_access(e.sb, buf, 4, false, c); ' + WCHK + ' }'),
        (9, 'FORM(9, "g", "malloc_in_sandbox<wchar_t> then copy_and_verify_range / copy_and_verify / unverified_safe_pointer_because (control)") { auto p = e.sb.malloc_in_sandbox<wchar_t>(4); if (!p) throw std::runtime_error("null"); for (int i = 0; i < 4; i++) p[i] = static_cast<wchar_t>(L\'a\' + i); wchar_t got = 0; p.copy_and_verify_range([&](std::unique_ptr<wchar_t[]> v) { got = v[2]; return 0; }, 4); wchar_t one = p.copy_and_verify([](std::unique_ptr<wchar_t> v) { return *v; }); auto raw = p.unverified_safe_pointer_because(4, "control"); if (got != L\'c\' || one != L\'a\' || !raw) throw std::runtime_error("wchar_t content differs"); }'),
        (10, 'FORM(10, "g", "copy_memory_or_deny_access with a tainted wchar_t buffer (control)") { auto p = e.sb.malloc_in_sandbox<wchar_t>(4); for (int i = 0; i < 4; i++) p[i] = static_cast<wchar_t>(L\'k\' + i); bool c = false; wchar_t* out = copy_memory_or_deny_access(e.sb, p, 4, false, c); if (!out || out[3] != L\'n\') throw std::runtime_error("wchar_t content differs"); if (c) free(out); }'),
        (11, 'FORM(11, "g", "malloc_in_sandbox of a struct that is not described to RLBox (control)") { struct Ctx { int a; char b; double d; }; auto p = e.sb.malloc_in_sandbox<Ctx>(2); auto q = e.sb.malloc_in_sandbox<Ctx>(); if (!p || !q) throw std::runtime_error("null"); uintptr_t a = reinterpret_cast<uintptr_t>(p.UNSAFE_unverified()), b = reinterpret_cast<uintptr_t>(q.UNSAFE_unverified()); if (b - a < 2 * sizeof(Ctx) && a - b < sizeof(Ctx)) throw std::runtime_error("allocations overlap"); e.sb.free_in_sandbox(p); e.sb.free_in_sandbox(q); }'),
    ]
    # more programs of the pinned tree (round 14: they had stopped compiling): element types RLBox has no representation for are
    # sized as the application sees them and handed around; arrays of described structs are sized element by element
    c10forms += [
        (12, 'FORM(12, "g", "union pointee: malloc_in_sandbox, unverified_safe_pointer_because, copy_and_verify (control)") { vsbx_ev.last_malloc_size = 0; auto p = e.sb.malloc_in_sandbox<C10Un>(2); if (!p) throw std::runtime_error("null"); if (vsbx_ev.last_malloc_size != 2 * sizeof(C10Un)) throw std::runtime_error("union not sized as the application sees it"); auto q = sandbox_reinterpret_cast<char*>(p); q[0] = \'x\'; auto raw = p.unverified_safe_pointer_because(2, "control"); char got = p.copy_and_verify([](std::unique_ptr<C10Un> u) { return u ? u->c[0] : \'?\'; }); if (!raw || got != \'x\') throw std::runtime_error("union content differs"); e.sb.free_in_sandbox(p); }'),
        (13, 'FORM(13, "g", "array of a described struct as element type of malloc_in_sandbox (control)") { vsbx_ev.last_malloc_size = 0; auto p = e.sb.malloc_in_sandbox<C10Pair[3]>(2); if (!p) throw std::runtime_error("null"); if (vsbx_ev.last_malloc_size != 2 * 3 * sizeof(tainted_volatile<C10Pair, mf::S>)) throw std::runtime_error("array of structs not sized by its sandbox image"); auto raw = p.unverified_safe_pointer_because(2, "control"); if (!raw) throw std::runtime_error("null"); e.sb.free_in_sandbox(p); }'),
        (14, 'FORM(14, "g", "nullptr_t and pointer-to-member element types are handed around (control)") { struct WM { int m; }; auto p = e.sb.malloc_in_sandbox<std::nullptr_t>(2); auto q = e.sb.malloc_in_sandbox<int WM::*>(2); if (!p || !q) throw std::runtime_error("null"); auto a = p.copy_and_verify_address([](uintptr_t x) { return x; }); if (!a) throw std::runtime_error("null"); e.sb.free_in_sandbox(p); e.sb.free_in_sandbox(q); }'),
    ]
    c10forms = c10forms[3:] + c10forms[:3]  # the forms that may end in a fatal sanitizer report run last
    units.append(dict(name="c10_forms_wide", kind="forms", build="asan0", defs=EXC + ['MF_PROP="C10"', "MF_CFG=vsbx_wide"], preamble=pre, forms=c10forms))
    runs.append(dict(unit="c10_forms_wide", label="c10_forms[wide]"))
    units.append(dict(name="c10_forms_ilp32", kind="forms", build="asan0", defs=EXC + ['MF_PROP="C10"', "MF_CFG=vsbx_ilp32"], preamble=pre, forms=c10forms))
    runs.append(dict(unit="c10_forms_ilp32", label="c10_forms[ilp32]"))
    if c.thorough:
        units.append(dict(name="c10_ilp32f", srcs=[D + "c10_bulk.cpp"], build="asan0",
                          defs=EXC + ["CFG=vsbx_ilp32f", "RLBOX_USE_STATIC_CALLS()=rlbox_noop_sandbox_lookup_symbol"]))
        runs += [dict(unit="c10_ilp32f", label="c10_ilp32f[p%d]" % p, args=[p]) for p in range(6)]
        units.append(dict(name="c10_clang", srcs=[D + "c10_bulk.cpp"], build="clang-asan",
                          defs=EXC + ["CFG=vsbx_ilp32", "RLBOX_USE_STATIC_CALLS()=rlbox_noop_sandbox_lookup_symbol"]))
        runs += [dict(unit="c10_clang", label="c10_clang[p%d]" % p, args=[p], count_distinct=False) for p in range(6)]
    # the copy path of copy_memory_or_grant_access with a hostile allocator answer (block that starts inside and ends outside)
    units.append(dict(name="c10_alloc", srcs=[D + "c10_alloc.cpp"], build="asan", defs=EXC))
    runs.append(dict(unit="c10_alloc", label="c10_alloc[ilp32m,unconfined]"))
    # ... and under the WIDE ABI, where short / char16_t buffers take the element-wise copy (no inner rlbox::memcpy re-checks the range)
    units.append(dict(name="c10_alloc_wide", srcs=[D + "c10_alloc.cpp"], build="asan", defs=EXC + ["CFG=vsbx_wide"]))
    runs.append(dict(unit="c10_alloc_wide", label="c10_alloc[wide,unconfined]"))
    # source and destination of rlbox::memcpy overlapping inside the sandbox (both are sandbox-chosen pointers); -O2 too, where
    # the C library's memcpy copies in an order that smears overlapping ranges
    for b in ("asan", "plain"):
        units.append(dict(name="c10_overlap_" + b, srcs=[D + "c10_overlap.cpp"], build=b, defs=EXC))
        runs.append(dict(unit="c10_overlap_" + b, label="c10_overlap[%s]" % b))
    # size operands wider than size_t (GNU dialect: __int128)
    units.append(dict(name="c10_wideint", srcs=[D + "c10_wideint.cpp"], build="asan", defs=EXC, flags=["-std=gnu++17"]))
    runs.append(dict(unit="c10_wideint", label="c10_wideint[gnu++17]"))
    return dict(units=units, runs=runs, evidence=dict(
        level="exploration",
        rule="case = (operation, start, extent, operand form). Operations: memset (size as size_t / tainted<size_t> / int / tainted<int> incl. negative), "
             "memcpy (tainted<-tainted, tainted<-application heap/stack/global, raw pointer into another live sandbox, raw range running into the "
             "region, null), memcmp (same source kinds), copy_and_verify_range, copy_and_verify_buffer_address, unverified_safe_pointer_because "
             "(element types char, short, int, long, long long, char16_t, float, double), copy_and_verify_string (both verifier flavours; "
             "terminator interior / in the last byte / missing up to the last byte), copy_memory_or_grant_access and _deny_access (copy path on the "
             "model backend, hand-through path on the noop backend, and both on a bounded model backend that offers the grant/deny hooks and "
             "accepts or declines by policy -- an illegal range must never come back as a pointer). Starts: null, first byte, last byte, end-e for e=0..16, interior. Extents: "
             "0..32, to-end-1/to-end/to-end+1, size+-1, 2^31, 2^32, 2^63, 2^64-1, 2^64/elsize+-k (byte counts wrapping 64 bits), random. Oracle: "
             "reference legality in 128-bit arithmetic (sandbox-side range non-null, non-empty, wholly inside one region; application-side range "
             "wholly outside every region): illegal => abort / allocation failure; legal => no abort and exactly the specified effect (region "
             "byte diff, memcmp sign, delivered content); everything outside the given ranges is ASan-poisoned during the call; empty requests are "
             "not judged except that they must not write. Where host and guest element sizes differ the oracle requires abort only if illegal "
             "under both readings and success only if legal under both. copy_and_verify_range is additionally judged by element semantics on the WIDE and NARROW models (char, short, char16_t, char32_t, wchar_t, long, double; source in the interior and flush against the end of the region): the verifier receives exactly the count elements held. c10_alloc: hostile allocator answers at every distance 0..n*size+2 from the end of the region for char, short, char16_t, wchar_t, float, double (1 and 3 elements) on the copy path of copy_memory_or_grant_access. c10_wideint: __int128 / unsigned __int128 size operands of memset/memcpy/memcmp (GNU dialect). c10_overlap (rlbox::memcpy on overlapping sandbox ranges, memmove semantics, ASan and -O2); c10_alloc on ILP32 and WIDE; deny_edge at every aligned distance from the end of the region; malloc-size probe for cv-qualified, array and multi-dimensional spellings; memcmp sources as pointer cells of another instance; c10_grantcap with wrap-window counts from a buffer above the region.",
        exhaustive=False,
        assumptions=["overlapping source/destination inside the sandbox is not driven (std::memcpy semantics undefined)"]))


def guest_libs():
    return [dict(name="libguest1.so", kind="shared", srcs=["harness/guest/guest_lib.c"], defs=["LIBID=1"]),
            dict(name="libguest2.so", kind="shared", srcs=["harness/guest/guest_lib.c"], defs=["LIBID=2"])]


def guest_env(c):
    return {"VERIF_GUEST1": os.path.join(c.bdir, "libguest1.so"), "VERIF_GUEST2": os.path.join(c.bdir, "libguest2.so")}


# --------------------------------------------------------------------- C13
@plan("C13")
def c13(c):
    units = guest_libs() + [dict(name="c13_callbacks", srcs=[D + "c13_callbacks.cpp"], build="asan", defs=EXC, libs=["-ldl"], needs=["libguest1.so"])]
    runs = []
    for b, bn in enumerate(["model", "noop", "dylib"]):
        ns = 2 if not c.thorough else (c.ncpu - 2 if bn == "model" else 5)
        runs += sliced("c13_callbacks", ns, label="c13_" + bn, args=[b], env=guest_env(c))
    # concurrent histories on one sandbox (threads churn disjoint sets of functions; yields at every lock boundary): thread sanitizer
    # build for the races, plain and address-sanitizer builds for the ownership oracle and heap corruption of the key list
    for b in ("tsan", "plain1", "asan"):
        nm = "c13_concurrent_" + b
        units.append(dict(name=nm, srcs=[D + "c13_concurrent.cpp"], build=b, defs=EXC))
        for T, rep in ([(4, 0), (2, 1)] if not c.thorough else [(4, 0), (2, 1), (8, 2), (3, 3), (6, 4), (4, 5)]):
            runs.append(dict(unit=nm, label="%s[%dthreads,rep%d]" % (nm, T, rep), args=[T, rep]))
    return dict(units=units, runs=runs, evidence=dict(
        level="exploration",
        rule="history = sequence over {register f_i into owner j (move-assign onto whatever j holds), unregister, destroy owner, move-construct, "
             "move-assign onto empty / live owner / itself, destroy_sandbox, re-create sandbox} executed on the real sandbox_callback objects in "
             "lock-step with a reference model (function -> owner map, capacity, sandbox-alive flag). After every step: is_unregistered() and entry "
             "point of every owner; a guest call through every live owner's entry point must run exactly its function once with its own sandbox; "
             "for every function a fresh register_callback must abort iff the model says it is registered (success is undone at once). Exhaustive: "
             "ALL sequences of length 3 (quick) / 4 (thorough; 5 for the model backend) over 2 functions x 3 owners (29 operations), each replayed from a fresh sandbox, an "
             "expected abort ends a history. Random: histories of 60 (quick) / 300 (thorough) steps with pools smaller than, nearly as large as and "
             "larger than the entry-point table, plus capacity accounting probes (the backend must accept exactly capacity-minus-live more "
             "registrations) and a complete fill of the table. Backends: model (8 entry points), noop and dylib (64). "
             "distinct_nontrivial = replayed exhaustive sequences + distinct random histories. Concurrent histories on one noop sandbox (c13_concurrent): 2..8 threads register, duplicate-register, unregister, destroy and overwrite owners of disjoint function sets with PRNG yields after every lock acquisition/release; per-thread single-threaded oracle on own functions, whole-set registrability oracle at barriers; TSan, ASan, plain builds; schedules sampled, contended acquisitions counted. A refused registration does not end a history. The exhaustive alphabet is explored a second time from the second incarnation with a stale owner around.",
        exhaustive=False,
        exhaustive_subspaces=["all operation sequences of length 3 (quick) / 4 (thorough) over 2 functions and 3 owners, per backend"],
        assumptions=["owners whose sandbox incarnation was destroyed are not judged, only that unregistering/destroying them is harmless",
                     "the model backend refuses registration when its table is full (its duty under the plug-in contract)"]))


# --------------------------------------------------------------------- C14
@plan("C14")
def c14(c):
    units = guest_libs() + [dict(name="c14_lifecycle", srcs=[D + "c14_lifecycle.cpp"], build="asan", defs=EXC, libs=["-ldl"], needs=["libguest1.so", "libguest2.so"])]
    ns = 4 if not c.thorough else 10
    runs = sliced("c14_lifecycle", ns, label="c14_exh2", args=[0], env=guest_env(c))
    runs += sliced("c14_lifecycle", ns, label="c14_exh3", args=[1], env=guest_env(c))
    runs += sliced("c14_lifecycle", 2 if not c.thorough else 5, label="c14_random", args=[2], env=guest_env(c))
    # histories that begin before main(): sandboxes created by namespace-scope initialisers (model FINDER backend and noop)
    for b in ("asan0", "plain") + (("clang-plain", "plain3") if c.thorough else ()):
        nm = "c14_staticinit_" + b.replace("-", "_")
        units.append(dict(name=nm, srcs=[D + "c14_staticinit.cpp"], build=b, defs=EXC))
        runs.append(dict(unit=nm, label=nm))
    # histories that end after main(): owners with static storage duration / atexit handlers destroy the sandbox during shutdown
    for b in ("asan", "plain") + (("clang-plain", "asan0") if c.thorough else ()):
        nm = "c14_teardown_" + b.replace("-", "_")
        units.append(dict(name=nm, srcs=[D + "c14_teardown.cpp"], build=b, defs=EXC))
        runs.append(dict(unit=nm, label=nm))
    return dict(units=units, runs=runs, evidence=dict(
        level="exploration",
        rule="history = sequence over {create over library 1, create over library 2, create with injected failure, destroy, malloc, free, register, "
             "unregister, invoke by name, get_app_pointer, example-based pointer store/load} x sandbox object, on 2 or 3 objects of the model backend "
             "type (FINDER style: the live-sandbox registry is on the translation path), in lock-step with a reference state machine {not-created, "
             "created, failed-creation}. Judged per step: abort / no abort and return value; malloc non-null inside the own region iff created; "
             "free reaches the backend iff created; registration aborts outside the window; by-name invocation runs in the library of the current "
             "incarnation; after every step the public is_in_same_sandbox predicate must attribute representative addresses of every (live, "
             "destroyed, application) region exactly as the model does. Exhaustive: all sequences of length 4 (quick) / 5 (thorough) on 2 objects "
             "and length 3 / 4 on 3 objects; random histories beyond; dylib backend: create/destroy/invoke over two shared objects exporting the "
             "same names (each call first in a forked child). After a failed creation both outcomes of a retry are accepted. "
             "Invocation/app-pointer/translation outside the lifetime window are not driven. Histories that end after main() (c14_teardown): owners with static storage duration (global, function-local static) and atexit handlers, constructed/registered before the library's first use, destroy their sandbox during process shutdown in forked children that leave through exit(); the owner's destructor judges the created-state rules and the parent requires a clean exit. A refused registration does not end a history; free_in_sandbox rotates through its three overloads.",
        exhaustive=False,
        exhaustive_subspaces=["all operation sequences of length 4 (quick) / 5 (thorough) over 11 operations x 2 sandbox objects, and of length 3 / 4 over 3 objects"],
        assumptions=["an expected abort ends the history"]))


# --------------------------------------------------------------------- C12
@plan("C12")
def c12(c):
    units = guest_libs()
    runs = []
    variants = [("ilp32", []), ("wide", ["RLBOX_EMBEDDER_PROVIDES_TLS_STATIC_VARIABLES"])]
    if c.thorough:
        variants += [("ilp32", ["RLBOX_EMBEDDER_PROVIDES_TLS_STATIC_VARIABLES"]), ("wide", []), ("ilp32", ["RLBOX_ENABLE_DEBUG_ASSERTIONS"]), ("narrow", [])]
    for cfg, tls in variants:
        nm = "c12_%s_%s" % (cfg, ("dbgassert" if "RLBOX_ENABLE_DEBUG_ASSERTIONS" in tls else "etls") if tls else "ltls")
        units.append(dict(name=nm, srcs=[D + "c12_callback_calls.cpp"], build="asan", defs=EXC + ["CFG=vsbx_" + cfg] + tls, libs=["-ldl"], needs=["libguest1.so", "libguest2.so"]))
        for b, bn in enumerate(["model", "noop", "dylib"]):
            runs.append(dict(unit=nm, label="%s[%s]" % (nm, bn), args=[b], env=guest_env(c)))
    # bool-valued callback parameters with bytes a well-behaved caller never passes (the guest is not bound by the calling
    # convention); whether RLBox still sees the raw byte depends on the code generator, so several compilers / levels
    for b in ("plain0", "asan", "clang-plain0", "clang-plain"):
        nm = "c12_hostilebool_" + b.replace("-", "_")
        units.append(dict(name=nm, srcs=[D + "c12_hostilebool.cpp"], build=b, defs=EXC))
        runs.append(dict(unit=nm, label=nm))
    return dict(units=units, runs=runs, evidence=dict(
        level="exploration",
        rule="(a) register/unregister histories over a pool of 79 same-signature callbacks (slots reused, table between empty and full) on one sandbox while "
             "a second live sandbox of the same type holds its own registration; after every step PRNG-chosen live entry points are called from guest "
             "code (once, or twice per invocation): exactly the registered function must run, the right number of times, with a reference to the "
             "executing sandbox, the argument the guest passed and the guest must get its result back. (b) argument/result faithfulness for long+char, "
             "unsigned long long, data pointer, double+float and void callbacks at boundary/random values (model backend: guest-typed values, abort iff "
             "unrepresentable). (c) nesting invoke->callback->invoke->... across two live sandboxes to depth 0..6 from either side, the guest calling "
             "the callback again after the nested chain returned: the (sandbox, argument) trace seen by the callbacks must be exact. Backends model "
             "(ILP32, WIDE), noop, dylib (two shared objects); library-provided and embedder-provided TLS. The model keeps typed entry points: the machine-level signature (size, float-ness of result and parameters) told to impl_register_callback must be the one sandboxed code calls with; a counted mismatch is a violation.",
        exhaustive=False,
        assumptions=["host-ABI guests (noop, dylib) report what they got back through their return value"]))


# --------------------------------------------------------------------- C19
@plan("C19")
def c19(c):
    units, runs = [], []
    cfgs = [("all", ["HOOK_IN", "HOOK_OUT", "HOOK_TIME"]), ("inout", ["HOOK_IN", "HOOK_OUT"]), ("in", ["HOOK_IN"]), ("out", ["HOOK_OUT"]), ("time", ["HOOK_TIME"])]
    for tag, defs in cfgs:
        nm = "c19_" + tag
        units.append(dict(name=nm, srcs=[D + "c19_transitions.cpp"], build="asan", defs=EXC + ["CFG=vsbx_ilp32"] + defs))
        runs.append(dict(unit=nm, label=nm + "[model]", args=[0], count_distinct=(tag == "all")))
        runs.append(dict(unit=nm, label=nm + "[noop]", args=[1], count_distinct=(tag == "all")))
    # a guest ABI WIDER than the host's (int of 64 bits): there the conversion of a callback's ARGUMENTS can abort
    for tag, defs in (cfgs if c.thorough else cfgs[:2]):
        nm = "c19w_" + tag
        units.append(dict(name=nm, srcs=[D + "c19_transitions.cpp"], build="asan", defs=EXC + ["CFG=vsbx_wide"] + defs))
        runs.append(dict(unit=nm, label=nm + "[model-wide]", args=[0], count_distinct=(tag == "all")))
    return dict(units=units, runs=runs, evidence=dict(
        level="fault_enumeration",
        rule="case = (random call tree of nested invocations and callbacks over two live sandboxes with distinct transition states, depth <= 3 quick / 5 "
             "thorough, <= 14 invocations, abort position). For every tree: the abort-free run plus one run per invocation with an abort injected in "
             "its argument conversion and per callback with an abort injected in its body and in its result conversion (exception mode). The hook "
             "trace is checked online against the pushdown grammar Inv := IN(INVOKE) (Cb)* OUT(INVOKE), Cb := OUT(CALLBACK) (Inv)* IN(CALLBACK) with "
             "matching name / function pointer or callback key / transition state, then compared event by event with the trace the driver's own "
             "call tree prescribes (crossings open at the abort are closed innermost first); with timing enabled each sandbox must hold exactly one "
             "record per crossing, matching it, in completion order. Configurations: IN only, OUT only, both, timing only, all. Backends model "
             "(ILP32) and noop (host ABI: only body aborts can be injected). distinct_nontrivial = distinct tree shapes (abort positions are "
             "enumerated completely per tree). Incarnations phase: a transition state set once must be carried by every notification in four successive incarnations of the sandbox object.",
        exhaustive=False,
        exhaustive_subspaces=["every abort position (argument conversion of every invocation, body and result conversion of every callback) of every generated tree"],
        assumptions=["aborts are observed in exception mode (RLBOX_USE_EXCEPTIONS), the mode in which a crossing can end by unwinding"]))


# --------------------------------------------------------------------- C08
@plan("C08")
def c08(c):
    import random, sys
    sys.path.insert(0, os.path.join(c.verif, "gen"))
    import structs as sg
    nstruct = 12 if not c.thorough else 120
    cfgs = ["ilp32", "narrow", "wide"]
    ntu = 4 if not c.thorough else 10
    meta = []

    def gen(cx):
        rnd = random.Random(cx.seed * 1000 + 8)
        d = os.path.join(cx.bdir, "gen")
        os.makedirs(d, exist_ok=True)
        for k in range(nstruct):
            meta.append(sg.gen_struct(k, rnd, os.path.join(d, "s%d.hpp" % k)))
        return True, ""
    pre = '#include "c08_core.hpp"\nint main(int c, char** v) { return c08::run_all(c, v); }\n'
    units, runs = [], []
    for cfg in cfgs:
        for t in range(ntu):
            nm = "c08_%s_%d" % (cfg, t)
            forms = [(k, '#include "s%d.hpp"' % k) for k in range(t, nstruct, ntu)]
            units.append(dict(name=nm, kind="forms", must_compile=True, build="asan0", defs=EXC + ["CFG=vsbx_" + cfg], flags=["-I" + os.path.join(c.bdir, "gen")], preamble=pre, forms=forms,
                              aliases={k: ["/s%d.hpp:" % k, "S%d," % k, "S%d]" % k, "S%d>" % k, "S%d;" % k] for k, _ in forms}))
            runs.append(dict(unit=nm, label=nm))
    # the same struct families once more in an optimised build without sanitizer (g++ -O3): whole-struct copies go through class-typed
    # views of the image, exactly what type-based alias analysis may reorder or drop (cf. the array defect repaired by 423227a)
    nopt = 2 if not c.thorough else 6
    for cfg in (["ilp32"] if not c.thorough else cfgs):
        for t in range(nopt):
            nm = "c08_%s_o3_%d" % (cfg, t)
            forms = [(k, '#include "s%d.hpp"' % k) for k in range(t, nstruct, nopt)]
            units.append(dict(name=nm, kind="forms", must_compile=True, build="plain3", defs=EXC + ["CFG=vsbx_" + cfg], flags=["-I" + os.path.join(c.bdir, "gen")], preamble=pre, forms=forms,
                              aliases={k: ["/s%d.hpp:" % k, "S%d," % k, "S%d]" % k, "S%d>" % k, "S%d;" % k] for k, _ in forms}))
            runs.append(dict(unit=nm, label=nm))
    return dict(units=units, runs=runs, pre=[gen], evidence=dict(
        level="exploration",
        rule="struct family generated per run from VERIF_SEED: 3..14 fields drawn from {every integer width/signedness, bool, enum, float, double, object "
             "pointer, pointer-to-const, function pointer, char[N], integer/double arrays, arrays of pointers, one level of nested struct} in random "
             "order (padding varies). The compiler only filters which structs can be driven. For each struct x ABI {ILP32, NARROW, WIDE}: the sandbox "
             "image's size and every leaf field's offset as observed through RLBox (&p->field) against the layout computed in Python from the ABI "
             "rules (cross-checked with an independently declared fixed-width C++ struct); whole-struct store, by-value argument, whole-struct load, "
             "copy_and_verify of the struct pointer and by-value result with per-leaf unique / boundary / random values compared leaf by leaf with "
             "the reference conversion (a wrong value is traced to the neighbouring field it came from); bytes around the image must not change; "
             "each narrowing leaf in turn made unrepresentable must abort (by-value argument observed in a forked child because that marshalling "
             "runs inside noexcept functions). const-qualified scalar fields and arrays of nested structs are not generated (the library cannot "
             "express them). distinct_nontrivial = (struct, round, offset) cases. Every sixth struct carries an enum class over unsigned long long with values outside int.",
        exhaustive=False,
        assumptions=["x86-64 natural alignment for guest scalars up to 8 bytes (as in wasm32)", "enumerations keep their host representation"]))


# --------------------------------------------------------------------- C11
@plan("C11")
def c11(c):
    import sys
    sys.path.insert(0, os.path.join(c.verif, "gen"))
    import sigs as sgen
    nsig = 24 if not c.thorough else 300
    groups = 4 if not c.thorough else 15
    per = (nsig + groups - 1) // groups
    info = []

    def gen(cx):
        for g in range(groups):
            d = os.path.join(cx.bdir, "gen%d" % g)
            os.makedirs(d, exist_ok=True)
            info.extend(sgen.gen(per, cx.seed * 100 + g, os.path.join(d, "c11_sigs.hpp")))
        return True, ""
    units, runs = guest_libs(), []
    for g in range(groups):
        inc = ["-I" + os.path.join(c.bdir, "gen%d" % g)]
        for cfg in ((["ilp32", "wide"] + (["narrow"] if g % 3 == 0 else [])) if (c.thorough or g % 2 == 0) else ["ilp32"]):
            nm = "c11_%s_g%d" % (cfg, g)
            # thorough: every third group in the debug configuration (RLBOX_ENABLE_DEBUG_ASSERTIONS), same verdicts required
            dbg = ["RLBOX_ENABLE_DEBUG_ASSERTIONS"] if (c.thorough and g % 3 == 2) else []
            units.append(dict(name=nm, srcs=[D + "c11_invoke.cpp"], build="asan0", defs=EXC + ["CFG=vsbx_" + cfg] + dbg, flags=inc, libs=["-ldl"], needs=["libguest1.so", "libguest2.so"]))
            runs.append(dict(unit=nm, label=nm + "[model]", args=[0]))
            if cfg == "ilp32":
                runs.append(dict(unit=nm, label=nm + "[noop]", args=[1]))
                if g == 0:
                    runs.append(dict(unit=nm, label=nm + "[dylib]", args=[2], env=guest_env(c)))
    # the documented spellings of a call (public macros), incl. entry points renamed by an object-like macro of the library's header
    units.append(dict(name="c11_macros_dyn", srcs=[D + "c11_macros.cpp"], build="asan", defs=EXC, libs=["-ldl"], needs=["libguest1.so"]))
    runs.append(dict(unit="c11_macros_dyn", label="c11_macros[model]", args=[0]))
    runs.append(dict(unit="c11_macros_dyn", label="c11_macros[dylib]", args=[1], env=guest_env(c)))
    units.append(dict(name="c11_macros_static", srcs=[D + "c11_macros.cpp"], build="asan", defs=EXC + ["C11M_STATIC"], libs=["-ldl"]))
    runs.append(dict(unit="c11_macros_static", label="c11_macros[noop,static calls]"))
    return dict(units=units, runs=runs, pre=[gen], evidence=dict(
        level="exploration",
        rule="signature family generated per run from VERIF_SEED (0..12 parameters over every integer kind, bool, enum, float, double, int*, const char*, "
             "function pointer, by-value struct; every return kind incl. void, pointer, struct; signatures with 10 integer and 11 double parameters so "
             "that arguments are stack-passed); three call sites per signature with generator-chosen argument forms (plain, tainted, tainted_volatile "
             "cell, tainted_opaque, nullptr, app_pointer token, sandbox_callback, sandbox function address), always of the parameter's own type. "
             "Three live instances over two libraries exporting the same names (distinct function bodies and, in library 2, a different table order), "
             "calls interleaved, instances destroyed and re-created over the other library. Oracle: the guest event log must show exactly one call of "
             "the named function in the library of the instance used with every argument word equal to the reference conversion, or no call and an "
             "abort when an argument is unrepresentable; the tainted result must equal the reference conversion of what the guest returned (abort if "
             "unrepresentable); the sandbox function address taken before/after invocation must be the backend's table representation and invocation "
             "must never go through the internal-representation stub. Backends: model ILP32 and WIDE by name, noop through the static-call path, dylib over two "
             "shared objects built at check time (interleaved instances, re-creation over the other library, function addresses against an independent dlsym). The by-value struct has a long, a char, a pointer and a two-element pointer-array field; every generated group contains one signature taking two structs and returning one. c11_macros: the four public spellings of a call on model, dylib (dynamic lookup) and noop (static calls) with an entry point renamed by an object-like macro; the dylib history calls a function that uses an exported helper of its own library.",
        exhaustive=False,
        assumptions=["arguments have the parameter's own type (the statement's precondition)"]))


# --------------------------------------------------------------------- C09
@plan("C09")
def c09(c):
    units = [dict(name="c09_toctou", srcs=[D + "c09_toctou.cpp"], build="asan", defs=EXC)]
    runs = sliced("c09_toctou", 6, label="c09_interleave", args=[0])
    runs.append(dict(unit="c09_toctou", label="c09_racing_thread", args=[1]))
    # the same interleaver on an ABI wider than the host (loads narrow the guest value with a range check): -O0 and -O1 builds,
    # because how often the source is read is up to the compiler unless the library reads it once itself
    units.append(dict(name="c09_wideconv0", srcs=[D + "c09_wideconv.cpp"], build="asan0", defs=EXC))
    units.append(dict(name="c09_wideconv1", srcs=[D + "c09_wideconv.cpp"], build="asan", defs=EXC))
    runs.append(dict(unit="c09_wideconv0", label="c09_wideconv[O0]"))
    runs.append(dict(unit="c09_wideconv1", label="c09_wideconv[O1]"))
    return dict(units=units, runs=runs, evidence=dict(
        level="exploration",
        rule="case = (copy_and_verify variant, source content, interleave point k, adversary action). The sandbox region is access-trapped (mprotect + "
             "x86 trap flag): a calibration run counts the N individual accesses RLBox makes to sandbox memory, then for EVERY k < N and every action "
             "{lengthen string by overwriting its terminator, plant a NUL, flip every value, fill with 0xFF, retarget pointer cells} the call is "
             "repeated with the action applied immediately before access k. Oracles per run: the object handed to the verifier lies outside the "
             "sandbox region; its content is unchanged after the harness overwrites the entire region from inside the verifier; the value finally "
             "returned equals what the verifier saw; every delivered element equals the reference conversion of what its source cell held before or "
             "after the action; delivered strings are NUL-terminated inside their buffer (ASan watches the verifier's strlen) and not longer than the "
             "range RLBox last checked (observed in the backend's membership queries). Variants: copy_and_verify on volatile int/long, pointer to "
             "fundamental (direct and through a sandbox-resident pointer), pointer to struct, volatile struct, volatile array, copy_and_verify_range "
             "(char, long), copy_and_verify_string (both verifier flavours; empty, length 1, 12, 40, terminator in the last byte of the region), "
             "copy_and_verify_address, copy_and_verify_buffer_address, copy_memory_or_deny_access. Plus a real adversary thread toggling a string "
             "between two lengths during 20 000 (quick) / 1 000 000 (thorough) calls. An abort is always an acceptable outcome. bool cells (value, pointer, range of 4, array of 4) with actions flip / 0xFF / zero: a byte that is not 0 or 1 has no decoding. The pointer-cell string case uses strings of different length and records the delivered size(); c09_wideconv also swaps the roles (unrepresentable first, small second); representation-preserving copies are judged byte by byte.",
        exhaustive=False,
        exhaustive_subspaces=["every interleave point (each individual access to sandbox memory) of every variant x content, for each single adversary action"],
        assumptions=["single adversary actions are enumerated over every access; sequences of two actions at two accesses are sampled (24 / 400 per variant), longer sequences not driven", "ILP32 model backend (plus the WIDE model for narrowing loads); x86-64 trap flag single-stepping"]))


# --------------------------------------------------------------------- C18
@plan("C18")
def c18(c):
    units = guest_libs() + [
        dict(name="c18_tsan", srcs=[D + "c18_threads.cpp"], build="tsan", defs=EXC, libs=["-ldl"], needs=["libguest1.so", "libguest2.so"]),
        dict(name="c18_tsan_lockwrap", srcs=[D + "c18_threads.cpp"], build="tsan", defs=EXC + ["C18_LOCK_WRAPPER"], libs=["-ldl"], needs=["libguest1.so", "libguest2.so"]),
        # the same driver, uninstrumented, under valgrind's helgrind: a second happens-before detector that also sees accesses made
        # inside the (uninstrumented) libstdc++ .so on RLBox's behalf (red-black tree rebalancing of the std::map members)
        dict(name="c18_plain", srcs=[D + "c18_threads.cpp"], build="plain1", defs=EXC, libs=["-ldl"], needs=["libguest1.so", "libguest2.so"]),
    ]
    runs = []
    HG = ["valgrind", "--tool=helgrind", "-q", "--fullpath-after=", "--error-exitcode=0"]
    for b, bn in enumerate(["model", "noop", "dylib"]):
        for nt in ([4] if not c.thorough else [2, 4, 8]):
            for rep in range(1 if not c.thorough else 3):
                e = dict(guest_env(c)); e["VERIF_C18_STEPS"] = "3000" if not c.thorough else "12000"
                runs.append(dict(unit="c18_plain", label="c18_helgrind[%s,%dthr,rep%d]" % (bn, nt, rep), args=[b, nt, 100 + rep], env=e, wrap=HG, timeout=3600))
    threads = [2, 4, 8] if not c.thorough else [2, 4, 8, 16]
    reps = 3 if not c.thorough else 6
    # forced-preemption runs of the uninstrumented build: all threads on one CPU, a high-resolution timer signal every 100 us whose
    # handler yields -> threads are suspended at arbitrary instructions (also between two atomic operations); thread-local oracles only
    for b, bn in enumerate(["model", "noop", "dylib"]):
        for nt in ([4, 8] if not c.thorough else [2, 4, 8, 16]):
            for rep in range(1 if not c.thorough else 3):
                e = dict(guest_env(c)); e["VERIF_C18_PREEMPT"] = "100"; e["VERIF_C18_STEPS"] = "300000" if not c.thorough else "1500000"
                runs.append(dict(unit="c18_plain", label="c18_preempt[%s,%dthr,rep%d]" % (bn, nt, rep), args=[b, nt, 300 + rep], env=e, timeout=1800))
    # third TSan build: embedder-provided TLS (only the noop and dylib backends have that configuration)
    units.append(dict(name="c18_tsan_embtls", srcs=[D + "c18_threads.cpp"], build="tsan", defs=EXC + ["RLBOX_EMBEDDER_PROVIDES_TLS_STATIC_VARIABLES"], libs=["-ldl"], needs=["libguest1.so", "libguest2.so"]))
    for b, bn in [(1, "noop"), (2, "dylib")]:
        for nt in ([4, 8] if not c.thorough else [2, 4, 8, 16]):
            for rep in range(2 if not c.thorough else 4):
                runs.append(dict(unit="c18_tsan_embtls", label="c18_tsan_embtls[%s,%dthr,rep%d]" % (bn, nt, rep), args=[b, nt, 200 + rep], env=guest_env(c), timeout=1800))
    # the debug configuration (RLBOX_ENABLE_DEBUG_ASSERTIONS) with yields at every lock boundary: an assertion that holds for a
    # thread running alone must hold while other threads create and destroy THEIR sandboxes (the registry walk of the FINDER model
    # passes over entries in every lifecycle state)
    units.append(dict(name="c18_dbgassert_lockwrap", srcs=[D + "c18_threads.cpp"], build="plain1", defs=EXC + ["C18_LOCK_WRAPPER", "RLBOX_ENABLE_DEBUG_ASSERTIONS"], libs=["-ldl"], needs=["libguest1.so", "libguest2.so"]))
    for nt in ([8] if not c.thorough else [4, 8, 16]):
        for rep in range(2 if not c.thorough else 4):
            runs.append(dict(unit="c18_dbgassert_lockwrap", label="c18_dbgassert[model,%dthr,rep%d]" % (nt, rep), args=[0, nt, 400 + rep], env=guest_env(c), timeout=1800))
    for unit in ("c18_tsan", "c18_tsan_lockwrap"):
        for b, bn in enumerate(["model", "noop", "dylib"]):
            for nt in threads:
                for rep in range(reps):
                    runs.append(dict(unit=unit, label="%s[%s,%dthr,rep%d]" % (unit, bn, nt, rep), args=[b, nt, rep], env=guest_env(c), timeout=1800))
    return dict(units=units, runs=runs, max_parallel=3, evidence=dict(
        level="exploration",
        rule="execution = (backend in {model FINDER, noop, dylib}, 2/4/8(/16) threads, repetition, build in {plain locks, lock wrapper, embedder-provided TLS (noop, dylib)}). Every thread runs a PRNG sequence of "
             "6000 (quick) / 40000 (thorough) operations on its own two sandbox objects of the same backend type: create, destroy, re-create, "
             "allocation and access, example-based pointer store/load (the FINDER model walks the shared live-sandbox registry on each), pointer "
             "arithmetic, by-name invocation, callback through the sandbox, register/unregister, app pointers -- so creates/destroys constantly "
             "overlap other threads' registry lookups. Oracles: any ThreadSanitizer report with an RLBox frame (de-duplicated by innermost RLBox "
             "function), any helgrind 'possible data race' whose innermost non-libstdc++ frame is an RLBox header (third build: "
             "uninstrumented -O1 under valgrind --tool=helgrind, fewer steps) ; forced-preemption runs of the uninstrumented build (all threads on one CPU, timer signal every 100 us whose handler yields, so threads are "
             "suspended at arbitrary instructions, also between two atomic operations that no race detector objects to) judged by the thread-local oracles; "
             "and the thread-local single-threaded oracles (pointer translated relative to own sandbox, callback saw own sandbox and "
             "function, invocation reached own library). Monitor state is per thread and merged after join. The second build routes RLBox's lock "
             "macros (RLBOX_USE_CUSTOM_SHARED_LOCK) through a thin wrapper around std::shared_timed_mutex that injects PRNG yields/sleeps before "
             "acquire and after release and counts contended acquisitions. distinct_nontrivial counts distinct (backend, threads, seed) executions "
             "and their operation totals; schedules are sampled, not enumerated. Hand-over phase per run: sandboxes created by the main thread are used and destroyed by workers and vice versa (one user at a time, start/join order the hand-over). Debug-configuration unit (RLBOX_ENABLE_DEBUG_ASSERTIONS, lock wrapper, model backend, 8 threads).",
        exhaustive=False,
        assumptions=["same-sandbox use from several threads is outside the statement and not driven",
                     "ThreadSanitizer only sees races on accesses that happen; the uninstrumented guest .so is outside its view"]))


# ----------------------------------------------------------------- C01 / C02
def forms_plan(c, prop):
    import sys
    sys.path.insert(0, os.path.join(c.verif, "gen"))
    import forms as fg
    corpus = fg.c01_forms(c.thorough) if prop == "C01" else fg.c02_forms(c.thorough)
    numbered = fg.number(corpus)
    ntu = c.ncpu if prop == "C01" else 4
    pre = '#include "forms_core.hpp"\nusing namespace fc;\nint main(int c, char** v) { return fc::run_all("%s", c, v); }\n' % prop
    units, runs = [], []
    variants = [("ct", EXC)]
    if c.thorough:
        variants.append(("rt", EXC + ["RLBOX_NO_COMPILE_CHECKS"]))   # library run-time mode: macro-guarded rejections must throw
    for vn, defs in variants:
        for i in range(ntu):
            nm = "%s_%s_%02d" % (prop.lower(), vn, i)
            units.append(dict(name=nm, kind="forms", build="asan0", defs=defs, preamble=pre, forms=numbered[i::ntu]))
            runs.append(dict(unit=nm, label=nm, slice=i, nslices=ntu, count_distinct=(vn == "ct")))
    return units, runs, len(numbered)


@plan("C01")
def c01(c):
    units, runs, n = forms_plan(c, "C01")
    return dict(units=units, runs=runs, evidence=dict(
        level="exploration",
        rule="form = one statement from a generated grammar: wrapper {tainted, tainted_volatile, tainted_opaque, sandbox_callback, app_pointer, "
             "tainted_boolean_hint, tainted_int_hint} x underlying type {bool, char, int, unsigned, long, unsigned long long, enum, float, double, int*, "
             "int**, function pointer (+ short, unsigned char, const char* in the thorough tier), int[4], registered struct} x context {unary and binary "
             "operators with plain/tainted/volatile operands on either side, compound assignments, increments, subscripts, address-of, dereference, "
             "initialisation/assignment of plain variables, bool conversion, static/C/reinterpret casts, argument passing, return, if/while/?:/switch "
             "conditions, plain-array subscript, private members, hint.copy_and_verify}. The compiler ONLY decides which forms exist as programs "
             "(undrivable forms are counted with their first diagnostic). Every drivable form is executed on the ILP32 model backend with a per-type "
             "secret that exists only in sandbox memory; the run-time monitor classifies the static type of what the form produced: a plain value "
             "(anything that is not a wrapper or hint) is a violation unless the form is an explicit unwrapper or a null test of a tainted pointer; a "
             "comparison with a sandbox-resident operand must produce a hint; tainted pointers must be null or inside the sandbox. Thorough tier: the "
             "same corpus built with RLBOX_NO_COMPILE_CHECKS, where the library's rejections must surface as aborts before a plain value exists.",
        exhaustive=False,
        assumptions=["the grammar is finite; leaks through new member-function names are outside it", "gcc's accept/reject is never the oracle"]))


@plan("C02")
def c02(c):
    units, runs, n = forms_plan(c, "C02")
    # what travels with a by-value struct image (padding): -O0, -O1 (both with ASan+UBSan) and -O2 plain, because where stack residue
    # lands depends on the frame layout
    for b in ("asan0", "asan", "plain") + (("plain3", "clang-plain") if c.thorough else ()):
        nm = "c02_padding_" + b.replace("-", "_")
        units.append(dict(name=nm, srcs=[D + "c02_padding.cpp"], build=b, defs=EXC))
        runs.append(dict(unit=nm, label=nm))
    # forms that need a backend whose pointer representation is as wide as the host's (WIDE model): a callback registered with
    # ANOTHER sandbox type (noop: its representation is the address of an application trampoline) into function-pointer cells
    mpre = ('#include "miniforms.hpp"\n#include "rlbox_noop_sandbox.hpp"\nusing namespace rlbox;\n'
            'namespace c02w { using NS = rlbox_noop_sandbox; inline rlbox_sandbox<NS>& nsb() { static rlbox_sandbox<NS>* s = [] { auto* p = new rlbox_sandbox<NS>; p->create_sandbox(); return p; }(); return *s; }\n'
            '  inline tainted<int, NS> ncb(rlbox_sandbox<NS>&, tainted<int, NS> x) { return x; }\n'
            '  inline tainted<int, mf::S> ocb(rlbox_sandbox<mf::S>&, tainted<int, mf::S> x) { return x; }\n'
            '  using fn_t = int (*)(int); }\n'
            'int main(int c, char** v) { return mf::run_all(c, v); }\n')
    c02w = [
        (1, 'FORM(1, "f", "store volatile<fnp> = sandbox_callback of another sandbox type") { auto cb = c02w::nsb().register_callback(c02w::ncb); auto p = mf::Wd::tptr<c02w::fn_t>(e.sb, 512); *p = cb; }'),
        (2, 'FORM(2, "f", "store fnp[2] element = sandbox_callback of another sandbox type") { auto cb = c02w::nsb().register_callback(c02w::ncb); auto p = mf::Wd::tptr<c02w::fn_t[2]>(e.sb, 512); (*p)[1] = cb; }'),
        (3, 'FORM(3, "f", "invoke(guest_fn-like, sandbox_callback of another sandbox type)") { auto cb = c02w::nsb().register_callback(c02w::ncb); mf::Wd::invoke<int(c02w::fn_t)>(e.sb, "guest_fn", cb); }'),
        (4, 'FORM(4, "g", "store volatile<fnp> = own sandbox_callback (control)") { auto cb = e.sb.register_callback(c02w::ocb); auto p = mf::Wd::tptr<c02w::fn_t>(e.sb, 512); *p = cb; }'),
    ]
    units.append(dict(name="c02_forms_wide", kind="forms", build="asan0", defs=EXC + ['MF_PROP="C02"', "MF_CFG=vsbx_wide", "RLBOX_USE_STATIC_CALLS()=rlbox_noop_sandbox_lookup_symbol"], preamble=mpre, forms=c02w))
    runs.append(dict(unit="c02_forms_wide", label="c02_forms[wide]"))
    # the function-pointer instantiation of the entry-point sweep lives in a generated form: a run in which it was not driven is inconclusive
    return dict(units=units, runs=runs, require=["entry-point-sweep-with-function-pointers"], evidence=dict(
        level="exploration",
        rule="(a) form corpus: raw int*/const int*/void*/char* and raw function pointers into tainted / tainted_volatile / struct fields / pointer "
             "arrays (C array, std::array) by construction, assignment, store, invoke argument; compound forms such as tainted<int> + raw pointer; "
             "wrappers of another sandbox type as initialisers, stores and invoke arguments; nine ill-formed callback signatures; callbacks and "
             "sandbox function addresses of a different function-pointer type into cells and parameters; well-formed controls. The compiler only "
             "filters; every drivable form runs on the ILP32 model backend and the monitor checks: no tainted pointer holds the canary application "
             "address, the backend was never asked to translate an address outside the sandbox, guest code was not reached, no ill-typed callback "
             "came back registered. (b) run-time entry points assign_raw_pointer (tainted and tainted_volatile) and UNSAFE_accept_pointer: abort iff "
             "the address is outside [base, base+size): every address (stride 7 quick, all thorough) in [base-4096, base+size+4096), a window of "
             "another live sandbox, null, stack/heap/global, inside +- k*4GiB aliases, 20 000 / 1 000 000 random 64-bit addresses; when accepted the "
             "tainted holds exactly the address and the sandbox cell exactly address-base. c02_padding also: images of at most 16 bytes (register-passed), a struct with a long double[2] field built in its own frame from run-time values, a struct without application-side padding whose image has some, whole-struct and whole-array stores read back from sandbox memory; foreign operands also as const-qualified named objects; arrays of unions / pointers to members.",
        exhaustive=False,
        exhaustive_subspaces=["thorough tier: every address of [base-4096, base+size+4096) through the three entry points"],
        assumptions=["gcc's accept/reject is never the oracle"]))
