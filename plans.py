"""Per-property build/run plans for ./check (python3 stdlib only).

A plan function gets a Ctx (tier, seed, bdir, ncpu, t(quick,thorough)) and
returns dict(units=[...], runs=[...], evidence={rule, level, assumptions,...}).
unit: dict(name, srcs, build, defs, flags, libs[, kind, needs])
run : dict(unit, label, args, env, slice, nslices, timeout, count_distinct)
"""
import os

D = "harness/drivers/"
EXC = ["RLBOX_USE_EXCEPTIONS"]
FLAGMODE = ["RLBOX_CUSTOM_ABORT(msg)=::mon::note_abort(msg)"]


def sliced(unit, n, label=None, **kw):
    return [dict(unit=unit, label="%s[%d/%d]" % (label or unit, i, n), slice=i, nslices=n, **kw) for i in range(n)]


PLANS = {}


def plan(pid):
    def deco(f):
        PLANS[pid] = f
        return f
    return deco


# --------------------------------------------------------------------- C06
@plan("C06")
def c06(c):
    units = [
        dict(name="c06_leaf", srcs=[D + "c06_leaf.cpp"], build="plain", defs=FLAGMODE),
    ]
    runs = sliced("c06_leaf", max(4, c.ncpu - 3))
    for n in ["ilp32", "narrow", "wide"]:
        units.append(dict(name="c06_paths_" + n, srcs=[D + "c06_paths.cpp"], build="asan", defs=EXC + ["CFG=vsbx_" + n]))
        runs.append(dict(unit="c06_paths_" + n, label="c06_paths[%s]" % n))
    return dict(units=units, runs=runs, evidence=dict(
        level="exploration",
        rule="case = (destination type, source type, source value) fed to convert_type_fundamental, and (path, ABI, type, value) "
             "for stores/loads/arguments/results on the model backends; oracle = 128-bit integer comparison with the limits of "
             "the destination type. Sources of <=16 bits (quick) / <=32 bits (thorough) are enumerated completely per pair "
             "(counted by the loop counters, no repetition by construction); sampled pairs contribute one fingerprint per "
             "(pair, oracle branch). Non-trivial = the oracle prescribes an outcome (always, for integers).",
        exhaustive=False,
        exhaustive_subspaces=["all source values of every ordered pair with a source type of <=16 bits (quick) / <=32 bits (thorough)"],
        assumptions=["two's-complement host; flag-mode abort capture continues after a failed dynamic_check (leaf computation has no side effects)",
                     "the model backend (harness/include/rlbox_vsbx_sandbox.hpp) is a faithful plug-in"]))
